import RactorModel.Lemmas.TwoNode

/-!
# C18 — duplicate connections converge on one and the same link

Property theorems only; helper lemmas live in `Lemmas/Election.lean`, `Lemmas/TwoNode.lean`,
the executable model (tied to `ractor_cluster/src/node.rs` by the correspondence check) in
`Model/Election.lean`.
-/

namespace C18
open Election

/-- (order-independence) The elected set does not depend on the order in which the
candidates are examined: permuting the candidate list permutes the result. -/
theorem elect_order_independent (ord : Ordering) {cs cs' : List Cand} (h : cs.Perm cs') :
    (elect ord cs).Perm (elect ord cs') := by
  rw [elect_eq_pipeline, elect_eq_pipeline]
  exact (pipeline_perm ord h).map _

/-- Only candidates are ever elected. -/
theorem elect_subset (ord : Ordering) (cs : List Cand) :
    ∀ i ∈ elect ord cs, ∃ c ∈ cs, c.id = i := by
  intro i hi
  rw [elect_eq_pipeline] at hi
  obtain ⟨c, hc, rfl⟩ := List.mem_map.mp hi
  exact ⟨c, (pipeline_sublist ord cs).subset hc, rfl⟩

/-- The election never closes every connection to a peer. -/
theorem elect_nonempty (ord : Ordering) {cs : List Cand} (h : cs ≠ []) : elect ord cs ≠ [] := by
  rw [elect_eq_pipeline]
  simpa using pipeline_ne_nil ord h


/-- (agreement) For two nodes with distinct names and any non-empty multiset of physical
connections (arbitrary initiators, arbitrary nonces including the legacy `0` and repeats,
session actor ids distinct on each node):

* the symmetric survivors `T` all have one direction and one nonce;
* the accepting node (the one that did not dial the survivors) retains exactly one
  connection `acc ∈ T`, the one with its smallest actor id;
* the initiating node retains exactly `T` — in particular it still holds `acc`.
-/
theorem agreement (o : Ordering) (ho : o ≠ .eq) (cs : List Conn) (hne : cs ≠ [])
    (hA : (cs.map (·.idA)).Nodup) (hB : (cs.map (·.idB)).Nodup) :
    (∃ d, ∀ c ∈ survivors o cs, c.aInit = d) ∧
    (∀ c ∈ survivors o cs, ∀ c' ∈ survivors o cs, nz c.nonce = nz c'.nonce) ∧
    ∃ acc ∈ survivors o cs,
      (acc.aInit = false →
        electA o cs = [acc.idA] ∧ electB o cs = (survivors o cs).map (·.idB) ∧
        ∀ c ∈ survivors o cs, acc.idA ≤ c.idA) ∧
      (acc.aInit = true →
        electB o cs = [acc.idB] ∧ electA o cs = (survivors o cs).map (·.idA) ∧
        ∀ c ∈ survivors o cs, acc.idB ≤ c.idB) := by
  obtain ⟨d, hd⟩ := survivors_same_dir ho cs
  refine ⟨⟨d, hd⟩, survivors_same_nonce o cs, ?_⟩
  have hTne := survivors_ne_nil o hne
  have hsub := survivors_sublist o cs
  cases d with
  | false =>
    -- node A accepted the surviving connections
    have hne' : (survivors o cs).map viewA ≠ [] := by simpa using hTne
    have hall : ∀ c ∈ (survivors o cs).map viewA, c.isServer = true := by
      intro c hc
      obtain ⟨x, hx, rfl⟩ := List.mem_map.mp hc
      simp [viewA, hd x hx]
    have hnd : (((survivors o cs).map viewA).map (·.id)).Nodup := by
      have : ((survivors o cs).map viewA).map (·.id) = (survivors o cs).map (·.idA) := by
        simp [viewA, Function.comp_def]
      rw [this]
      exact (hsub.map _).nodup hA
    obtain ⟨cA, hcA, htb, hmin⟩ := tieBreak_allServer hne' hall hnd
    obtain ⟨acc, hacc, rfl⟩ := List.mem_map.mp hcA
    refine ⟨acc, hacc, fun _ => ⟨?_, ?_, ?_⟩, fun h => ?_⟩
    · rw [electA_eq, htb]; rfl
    · rw [electB_eq, tieBreak_noServer]
      · simp [viewB, Function.comp_def]
      · exact ⟨viewB acc, List.mem_map.mpr ⟨acc, hacc, rfl⟩, by simp [viewB, hd acc hacc]⟩
    · intro c hc
      exact hmin _ (List.mem_map.mpr ⟨c, hc, rfl⟩)
    · rw [hd acc hacc] at h; cases h
  | true =>
    -- node B accepted the surviving connections
    have hne' : (survivors o cs).map viewB ≠ [] := by simpa using hTne
    have hall : ∀ c ∈ (survivors o cs).map viewB, c.isServer = true := by
      intro c hc
      obtain ⟨x, hx, rfl⟩ := List.mem_map.mp hc
      simp [viewB, hd x hx]
    have hnd : (((survivors o cs).map viewB).map (·.id)).Nodup := by
      have : ((survivors o cs).map viewB).map (·.id) = (survivors o cs).map (·.idB) := by
        simp [viewB, Function.comp_def]
      rw [this]
      exact (hsub.map _).nodup hB
    obtain ⟨cB, hcB, htb, hmin⟩ := tieBreak_allServer hne' hall hnd
    obtain ⟨acc, hacc, rfl⟩ := List.mem_map.mp hcB
    refine ⟨acc, hacc, fun h => ?_, fun _ => ⟨?_, ?_, ?_⟩⟩
    · rw [hd acc hacc] at h; cases h
    · rw [electB_eq, htb]; rfl
    · rw [electA_eq, tieBreak_noServer]
      · simp [viewA, Function.comp_def]
      · exact ⟨viewA acc, List.mem_map.mpr ⟨acc, hacc, rfl⟩, by simp [viewA, hd acc hacc]⟩
    · intro c hc
      exact hmin _ (List.mem_map.mpr ⟨c, hc, rfl⟩)

/-- (same link) Whatever each node retains is a surviving connection: same direction — the
dials of the node whose name sorts last when both directions exist — and the least
non-legacy nonce of that direction. Stated by quantifiers over the connections only. -/
theorem survivors_spec (o : Ordering) (cs : List Conn) (c : Conn) :
    c ∈ survivors o cs ↔
      (c ∈ cs ∧ ((∃ x ∈ cs, x.aInit = true) → (∃ y ∈ cs, y.aInit = false) →
          (o = .lt → c.aInit = true) ∧ (o = .gt → c.aInit = false))) ∧
      ∀ c' ∈ dirC o cs, c'.nonce ≠ 0 → c.nonce ≠ 0 ∧ c.nonce ≤ c'.nonce := by
  unfold survivors
  rw [mem_nonceC, mem_dirC]

/-- (unique minimum) If a single connection survives the symmetric part (for instance
because its nonce is the unique minimum), both nodes retain exactly that connection. -/
theorem unique_survivor (o : Ordering) (ho : o ≠ .eq) (cs : List Conn) (hne : cs ≠ [])
    (hA : (cs.map (·.idA)).Nodup) (hB : (cs.map (·.idB)).Nodup) (c : Conn)
    (hT : survivors o cs = [c]) : electA o cs = [c.idA] ∧ electB o cs = [c.idB] := by
  obtain ⟨_, _, acc, hacc, h1, h2⟩ := agreement o ho cs hne hA hB
  rw [hT] at hacc h1 h2
  have : acc = c := by simpa using hacc
  subst this
  cases h : acc.aInit
  · obtain ⟨a, b, _⟩ := h1 h; exact ⟨a, by simpa using b⟩
  · obtain ⟨a, b, _⟩ := h2 h; exact ⟨by simpa using b, a⟩

/-- (convergence / stability) The connection kept by the accepting node is never dropped by
either node's symmetric stages when other connections disappear: for every sub-multiset `R`
of the connections that still contains it, it is still a survivor. Hence once the accepting
node has closed its losers, re-election on the initiating node — over whatever subset is
still open — keeps that same physical connection. -/
theorem survivor_stable (o : Ordering) (cs R : List Conn) (hR : R.Sublist cs) (c : Conn)
    (hc : c ∈ survivors o cs) (hcR : c ∈ R) : c ∈ survivors o R := by
  rw [survivors_spec] at hc ⊢
  obtain ⟨⟨_, hdir⟩, hn⟩ := hc
  refine ⟨⟨hcR, fun ⟨x, hx, hxa⟩ ⟨y, hy, hya⟩ => hdir ⟨x, hR.subset hx, hxa⟩ ⟨y, hR.subset hy, hya⟩⟩, ?_⟩
  intro c' hc' hne
  by_cases hmem : c' ∈ dirC o cs
  · exact hn c' hmem hne
  · -- `c'` passed the direction stage of `R` but not of `cs`: then `cs` has both
    -- directions and `c'` has the wrong one, while `c` has the right one; but then `R`
    -- (which contains both `c` and `c'`) has both directions too — contradiction.
    exfalso
    rw [mem_dirC] at hc' hmem
    obtain ⟨hc'R, hdirR⟩ := hc'
    have hc'cs := hR.subset hc'R
    simp only [hc'cs, true_and, Classical.not_imp] at hmem
    obtain ⟨hx, hy, hbad⟩ := hmem
    have hcdir := hdir hx hy
    cases o with
    | eq => simp at hbad
    | lt =>
      simp only [forall_const, reduceCtorEq, false_imp_iff, and_true] at hbad hcdir
      have hc'f : c'.aInit = false := by simpa using hbad
      have := hdirR ⟨c, hcR, hcdir⟩ ⟨c', hc'R, hc'f⟩
      simp [hc'f] at this
    | gt =>
      simp only [forall_const, reduceCtorEq, false_imp_iff, true_and] at hbad hcdir
      have hc't : c'.aInit = true := by simpa using hbad
      have := hdirR ⟨c', hc'R, hc't⟩ ⟨c, hcR, hcdir⟩
      simp [hc't] at this

/-! ### Non-vacuity: concrete worlds that satisfy the hypotheses -/

/-- Simultaneous dial plus a repeated legacy dial: 3 connections, names differ. -/
def exampleWorld : List Conn :=
  [⟨true, 19, 1, 4⟩, ⟨false, 7, 2, 3⟩, ⟨false, 0, 5, 6⟩]

example : exampleWorld ≠ [] ∧ (exampleWorld.map (·.idA)).Nodup ∧ (exampleWorld.map (·.idB)).Nodup := by
  decide
example : electA .gt exampleWorld = [2] ∧ electB .gt exampleWorld = [3] := by decide
example : electA .lt exampleWorld = [1] ∧ electB .lt exampleWorld = [4] := by decide
/-- repeated nonce, same direction: the accepting node (A) picks one, B keeps both. -/
example : electA .gt [⟨false, 41, 12, 21⟩, ⟨false, 41, 11, 22⟩] = [11]
    ∧ electB .gt [⟨false, 41, 12, 21⟩, ⟨false, 41, 11, 22⟩] = [21, 22] := by decide

end C18

#print axioms C18.elect_order_independent
#print axioms C18.elect_subset
#print axioms C18.elect_nonempty
#print axioms C18.agreement
#print axioms C18.survivors_spec
#print axioms C18.unique_survivor
#print axioms C18.survivor_stable
