import RactorModel.Lemmas.AdmissionIds

/-!
C07 (1), schedule form: once admission is closed, a send that has not yet performed its first
step can only be rejected. For a fixed message id `m`: every send frame of `m` is parked at
`send.status`, or is at `admit.load` having seen `closed`; nothing of `m` is in the channel and
every logged return of `m` is `SendErr`.
-/

namespace Admission

/-- a send frame of `m` at a position that a send started after the close cannot reach -/
def Frame.escaped (m : Nat) (f : Frame) : Bool :=
  f.id == m && (match f.pc with
    | .sStatus => false
    | .aLoad => !f.late
    | .aCas _ | .box | .boxing | .enq | .rel _ | .mLoad (some _) | .mCas _ (some _) | .mEnq (some _) => true
    | _ => false)

def Ret.notHandedBack (m : Nat) (r : Ret) : Bool :=
  r.id == m && (match r.kind with | .send => true | _ => false) &&
    (match r.res with | .sendErr _ => false | _ => true)

structure ShutN (m : Nat) (s : Shared) (B : Nat) : Prop where
  closed : s.word.closed = true
  none_escaped : B = 0
  not_enq : s.enq.count (.msg m) = 0
  rets_ok : s.rets.countP (Ret.notHandedBack m) = 0

set_option hygiene false in
macro "admission_shut_case" : tactic => `(tactic| (
  obtain ⟨h1, h2, h3, h4⟩ := h
  obtain ⟨e1, l1⟩ := d1
  (try (cases ops <;> try (rename_i op ops'; cases op))) <;>
  (try (cases r)) <;> (try (cases ret <;> try (rename_i r; cases r))) <;>
  simp only [stepThread, finish, startOp, mRet, Option.getD] at hs <;> (repeat' (split at hs)) <;>
  (try (simp only [Option.some.injEq, Prod.mk.injEq, reduceCtorEq] at hs)) <;>
  (try (obtain ⟨rfl, rfl⟩ := hs)) <;>
  simp only [List.countP_cons, List.countP_append, List.countP_nil, Frame.escaped, kindOf] at * <;>
  generalize List.countP (Frame.escaped m) rest = a at * <;>
  (try (simp only [Bool.false_eq_true, ↓reduceIte, Nat.add_zero, Bool.and_true, Bool.and_false,
    Bool.true_and, Bool.false_and] at *)) <;>
  (constructor <;>
    (try (simp only [List.countP_cons, List.countP_append, List.countP_nil, List.count_append,
      List.count_cons, List.count_nil, Ret.notHandedBack])) <;>
    grind)))

section
variable {s s' : Shared} {rest stack' : List Frame} {id : Nat} {late bf : Bool} {ops : List Op}
  {sk : List Nat} {A A' : Nat} {seen : Word} {r : Res} {ret : Option Res} {m : Nat}

set_option hygiene false in
macro "shut_lemma " n:ident pc:term : command => `(
  theorem $n (hs : stepThread s (⟨$pc, id, late, ops, bf, sk⟩ :: rest) = some (s', stack'))
    (d1 : Delta (Frame.escaped m) (⟨$pc, id, late, ops, bf, sk⟩ :: rest) stack' A A')
    (h : ShutN m s A) : ShutN m s' A' := by
  admission_shut_case)

shut_lemma shut_run Pc.run
shut_lemma shut_sStatus Pc.sStatus
shut_lemma shut_aLoad Pc.aLoad
shut_lemma shut_aCas (Pc.aCas seen)
shut_lemma shut_box Pc.box
shut_lemma shut_boxing Pc.boxing
shut_lemma shut_enq Pc.enq
shut_lemma shut_rel (Pc.rel r)
shut_lemma shut_dClose Pc.dClose
shut_lemma shut_dStatus Pc.dStatus
shut_lemma shut_mLoad (Pc.mLoad ret)
shut_lemma shut_mCas (Pc.mCas seen ret)
shut_lemma shut_mEnq (Pc.mEnq ret)
shut_lemma shut_bad Pc.bad
end

theorem shutN_stepThread {m : Nat} {s s' : Shared} {stack stack' : List Frame}
    (hs : stepThread s stack = some (s', stack')) {A A' : Nat}
    (d1 : Delta (Frame.escaped m) stack stack' A A') (h : ShutN m s A) : ShutN m s' A' := by
  cases stack with
  | nil => simp [stepThread] at hs
  | cons f rest =>
    obtain ⟨pc, id, late, ops, bf, sk⟩ := f
    cases pc
    · exact shut_run hs d1 h
    · exact shut_sStatus hs d1 h
    · exact shut_aLoad hs d1 h
    · exact shut_aCas hs d1 h
    · exact shut_box hs d1 h
    · exact shut_boxing hs d1 h
    · exact shut_enq hs d1 h
    · exact shut_rel hs d1 h
    · exact shut_dClose hs d1 h
    · exact shut_dStatus hs d1 h
    · exact shut_mLoad hs d1 h
    · exact shut_mCas hs d1 h
    · exact shut_mEnq hs d1 h
    · exact shut_bad hs d1 h

theorem shutN_rx {m : Nat} {s : Shared} {A : Nat} (tid : Tid) (h : ShutN m s A) :
    ShutN m (stepRx s tid) A := by
  obtain ⟨h1, h2, h3, h4⟩ := h
  cases tid <;> simp only [stepRx] <;> (repeat' split) <;> constructor <;> simp_all

def ShutInv (m : Nat) (g : G) : Prop := ShutN m g.sh (cnt (Frame.escaped m) g)

theorem shutInv_step (m : Nat) (g : G) (tid : Tid) (h : ShutInv m g) : ShutInv m (step g tid) := by
  cases tid with
  | t k =>
    simp only [step]
    split
    · exact h
    · rename_i stack hi
      split
      · exact h
      · rename_i s' stack' hs
        exact shutN_stepThread hs (delta_of_set _ g k s' stack stack' hi) h
  | recv => exact shutN_rx .recv h
  | rxStop => exact shutN_rx .rxStop h
  | rxClose => exact shutN_rx .rxClose h
  | rxFlush => exact shutN_rx .rxFlush h
  | setStatus st => exact shutN_rx (.setStatus st) h

theorem shutInv_run (m : Nat) (g : G) (sched : List Tid) (h : ShutInv m g) : ShutInv m (run g sched) := by
  induction sched generalizing g with
  | nil => exact h
  | cons t l ih => exact ih _ (shutInv_step m g t h)

/-- frames satisfying `p` split into those that also satisfy `q` and those that do not -/
theorem cnt_split (p q : Frame → Bool) (g : G) :
    cnt p g = cnt (fun f => p f && q f) g + cnt (fun f => p f && !q f) g := by
  unfold cnt
  induction g.threads with
  | nil => rfl
  | cons st l ih =>
    simp only [List.map_cons, List.sum_cons, ih]
    have : st.countP p = st.countP (fun f => p f && q f) + st.countP (fun f => p f && !q f) := by
      induction st with
      | nil => rfl
      | cons f st ih2 =>
        simp only [List.countP_cons, ih2]
        cases p f <;> cases q f <;> simp <;> omega
    omega

/-- The invariant is established in every state in which admission is closed and the send of `m`
has not performed its first step (its id is not allocated yet, or its frame is parked at
`send.status`). -/
theorem shutInv_of_closed (m : Nat) (g : G) (hI : IdInv m g) (hc : g.sh.word.closed = true)
    (hnot : g.sh.nextId ≤ m ∨ ∃ stack ∈ g.threads, ∃ f ∈ stack, f.pc = .sStatus ∧ f.id = m) :
    ShutInv m g := by
  have h1 := hI.one
  have h2 := hI.oks
  -- in both cases one token is accounted for outside the escaped positions
  have key : cnt (fun f => Frame.pre m f && !(f.pc == .sStatus)) g = 0 ∧ g.sh.enq.count (.msg m) = 0
      ∧ cnt (Frame.errPend m) g = 0 ∧ g.sh.rets.countP (Ret.errFor m) = 0 := by
    rcases hnot with h | ⟨stack, hs, f, hf, hpc, hid⟩
    · rw [if_pos h] at h1
      have := cnt_split (Frame.pre m) (fun f => f.pc == .sStatus) g
      omega
    · have hpos : 0 < cnt (fun f => Frame.pre m f && (f.pc == .sStatus)) g :=
        cnt_pos_of_mem _ g stack f hs hf (by simp [Frame.pre, hpc, hid])
      have := cnt_split (Frame.pre m) (fun f => f.pc == .sStatus) g
      omega
  obtain ⟨k1, k2, k3, k4⟩ := key
  have hO : cnt (Frame.okPend m) g = 0 ∧ g.sh.rets.countP (Ret.okFor m) = 0 := by omega
  refine ⟨hc, ?_, k2, ?_⟩
  · -- escaped ⊆ (pre ∧ not at send.status) ∪ okPend ∪ errPend
    have hle : cnt (Frame.escaped m) g ≤
        cnt (fun f => (Frame.pre m f && !(f.pc == .sStatus)) || Frame.okPend m f || Frame.errPend m f) g := by
      apply cnt_le_of_imp
      intro f hf
      obtain ⟨pc, id, late, ops, bf, sk⟩ := f
      simp only [Frame.escaped, Bool.and_eq_true, beq_iff_eq] at hf
      obtain ⟨rfl, hf⟩ := hf
      cases pc with
      | rel r => cases r <;> simp_all [Frame.pre, Frame.okPend, Frame.errPend]
      | mLoad ret =>
        cases ret with
        | none => simp_all [Frame.pre, Frame.okPend, Frame.errPend]
        | some r => cases r <;> simp_all [Frame.pre, Frame.okPend, Frame.errPend]
      | mCas seen ret =>
        cases ret with
        | none => simp_all [Frame.pre, Frame.okPend, Frame.errPend]
        | some r => cases r <;> simp_all [Frame.pre, Frame.okPend, Frame.errPend]
      | mEnq ret =>
        cases ret with
        | none => simp_all [Frame.pre, Frame.okPend, Frame.errPend]
        | some r => cases r <;> simp_all [Frame.pre, Frame.okPend, Frame.errPend]
      | _ => simp_all [Frame.pre, Frame.okPend, Frame.errPend]
    have hsum : cnt (fun f => (Frame.pre m f && !(f.pc == .sStatus)) || Frame.okPend m f || Frame.errPend m f) g
        ≤ cnt (fun f => Frame.pre m f && !(f.pc == .sStatus)) g + cnt (Frame.okPend m) g + cnt (Frame.errPend m) g := by
      unfold cnt
      induction g.threads with
      | nil => simp
      | cons st l ih =>
        simp only [List.map_cons, List.sum_cons]
        have : st.countP (fun f => (Frame.pre m f && !(f.pc == .sStatus)) || Frame.okPend m f || Frame.errPend m f)
            ≤ st.countP (fun f => Frame.pre m f && !(f.pc == .sStatus)) + st.countP (Frame.okPend m)
              + st.countP (Frame.errPend m) := by
          induction st with
          | nil => simp
          | cons f st ih2 =>
            simp only [List.countP_cons]
            cases (Frame.pre m f && !(f.pc == .sStatus)) <;> cases Frame.okPend m f <;>
              cases Frame.errPend m f <;> simp <;> omega
        omega
    omega
  · have hle : g.sh.rets.countP (Ret.notHandedBack m) ≤
        g.sh.rets.countP (Ret.okFor m) + g.sh.rets.countP (Ret.errFor m) := by
      induction g.sh.rets with
      | nil => simp
      | cons r l ih =>
        simp only [List.countP_cons]
        have : (if Ret.notHandedBack m r = true then 1 else 0)
            ≤ (if Ret.okFor m r = true then 1 else 0) + (if Ret.errFor m r = true then 1 else 0) := by
          unfold Ret.notHandedBack Ret.okFor Ret.errFor
          cases r.id == m <;> cases r.kind <;> cases r.res <;> simp
        omega
    omega

end Admission
