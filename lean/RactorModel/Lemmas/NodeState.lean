import RactorModel.Lemmas.TwoNode

/-! Lemmas about the `NodeServerState` bookkeeping model (C18, non-interference of
unauthenticated sessions and uniqueness on the accepting node). -/

namespace Election

/-- the state with one more (arbitrary) session `u` inserted at any position -/
def NS.insertAt (st : NS) (l1 l2 : List Session) (u : Session) : NS :=
  { st with sessions := l1 ++ u :: l2 }

theorem filter_insert {α : Type} (p : α → Bool) (l1 l2 : List α) (u : α) (hu : p u = false) :
    (l1 ++ u :: l2).filter p = (l1 ++ l2).filter p := by
  simp [List.filter_append, List.filter_cons, hu]

theorem candidatesFor_insert (thisName : String) (l1 l2 : List Session) (u : Session)
    (hu : u.auth = false) (peer : String) :
    (NS.mk thisName (l1 ++ u :: l2)).candidatesFor peer true =
      (NS.mk thisName (l1 ++ l2)).candidatesFor peer true := by
  unfold NS.candidatesFor
  simp only
  rw [filter_insert]
  simp [hu]

theorem find_insert (thisName : String) (l1 l2 : List Session) (u : Session) (id : Nat)
    (hid : u.id ≠ id) :
    (NS.mk thisName (l1 ++ u :: l2)).find id = (NS.mk thisName (l1 ++ l2)).find id := by
  unfold NS.find
  simp only [List.find?_append, List.find?_cons]
  have : (u.id == id) = false := by simpa using hid
  simp [this]

/-! ### idempotence of the pipeline: an elected set re-elects itself -/

theorem dirFilter_idem (o : Ordering) (cs : List Cand) :
    dirFilter o (dirFilter o cs) = dirFilter o cs := by
  by_cases hb : (cs.any (·.isServer) && cs.any (fun c => !c.isServer)) = true
  · cases o with
    | eq => unfold dirFilter; simp [hb]
    | lt =>
      have h1 : dirFilter .lt cs = cs.filter (fun c => c.isServer == false) := by
        unfold dirFilter; simp [hb]
      rw [h1]
      unfold dirFilter
      have : (cs.filter (fun c => c.isServer == false)).any (·.isServer) = false := by
        simp only [List.any_eq_false, List.mem_filter, beq_iff_eq, Bool.not_eq_true, and_imp]
        intro x _ hx; exact hx
      simp [this]
    | gt =>
      have h1 : dirFilter .gt cs = cs.filter (fun c => c.isServer == true) := by
        unfold dirFilter; simp [hb]
      rw [h1]
      unfold dirFilter
      have : (cs.filter (fun c => c.isServer == true)).any (fun c => !c.isServer) = false := by
        simp only [List.any_eq_false, List.mem_filter, beq_iff_eq, Bool.not_eq_true',
          Bool.not_eq_false, and_imp]
        intro x _ hx; exact hx
      simp [this]
  · have h1 : dirFilter o cs = cs := by unfold dirFilter; simp [hb]
    rw [h1, h1]

end Election

namespace Election

theorem checkCandidate_insert (thisName : String) (l1 l2 : List Session) (u : Session) (id : Nat)
    (hu : u.auth = false) (hid : u.id ≠ id) :
    (NS.mk thisName (l1 ++ u :: l2)).checkCandidate id =
      (NS.mk thisName (l1 ++ l2)).checkCandidate id := by
  unfold NS.checkCandidate
  rw [find_insert thisName l1 l2 u id hid]
  cases (NS.mk thisName (l1 ++ l2)).find id with
  | none => rfl
  | some s =>
    simp only
    cases s.peerName with
    | none => rfl
    | some peer =>
      simp only
      rw [candidatesFor_insert thisName l1 l2 u hu peer]

theorem isElected_insert (thisName : String) (l1 l2 : List Session) (u : Session) (id : Nat)
    (hu : u.auth = false) (hid : u.id ≠ id) :
    (NS.mk thisName (l1 ++ u :: l2)).isElected id = (NS.mk thisName (l1 ++ l2)).isElected id := by
  unfold NS.isElected
  rw [find_insert thisName l1 l2 u id hid]
  cases (NS.mk thisName (l1 ++ l2)).find id with
  | none => rfl
  | some s =>
    simp only
    cases s.peerName with
    | none => rfl
    | some peer =>
      simp only
      rw [candidatesFor_insert thisName l1 l2 u hu peer]

theorem commit_insert (thisName : String) (l1 l2 : List Session) (u : Session) (id : Nat)
    (hu : u.auth = false) (hid : u.id ≠ id) :
    ((NS.mk thisName (l1 ++ u :: l2)).commit id).map (fun r => (r.2.1, r.2.2)) =
      ((NS.mk thisName (l1 ++ l2)).commit id).map (fun r => (r.2.1, r.2.2)) := by
  unfold NS.commit
  rw [find_insert thisName l1 l2 u id hid]
  cases (NS.mk thisName (l1 ++ l2)).find id with
  | none => rfl
  | some s =>
    simp only
    cases s.peerName with
    | none => rfl
    | some peer =>
      have hne : (u.id == id) = false := by simpa using hid
      simp only [NS.markAuth, NS.losersOf, NS.deauth, List.map_append, List.map_cons, hne,
        Bool.false_eq_true, if_false, Option.map_some]
      rw [candidatesFor_insert thisName _ _ u hu peer]
      rw [filter_insert _ _ _ u (by simp [hu])]

end Election

namespace Election

def notBoth (l : List Cand) : Prop := (l.any (·.isServer) && l.any (fun c => !c.isServer)) = false

theorem notBoth_sublist {l l' : List Cand} (h : l'.Sublist l) (hl : notBoth l) : notBoth l' := by
  unfold notBoth at *
  simp only [Bool.and_eq_false_iff, List.any_eq_false] at hl ⊢
  rcases hl with h1 | h2
  · exact Or.inl fun x hx => h1 x (h.subset hx)
  · exact Or.inr fun x hx => h2 x (h.subset hx)

theorem dirFilter_of_notBoth (o : Ordering) {l : List Cand} (h : notBoth l) : dirFilter o l = l := by
  unfold dirFilter; unfold notBoth at h; simp [h]

theorem dirFilter_notBoth_or_eq (o : Ordering) (cs : List Cand) :
    notBoth (dirFilter o cs) ∨ dirFilter o cs = cs := by
  by_cases hb : (cs.any (·.isServer) && cs.any (fun c => !c.isServer)) = true
  · cases o with
    | eq => right; unfold dirFilter; simp [hb]
    | lt =>
      left
      have h1 : dirFilter .lt cs = cs.filter (fun c => c.isServer == false) := by
        unfold dirFilter; simp [hb]
      rw [h1]; unfold notBoth
      have : (cs.filter (fun c => c.isServer == false)).any (·.isServer) = false := by
        simp only [List.any_eq_false, List.mem_filter, beq_iff_eq, Bool.not_eq_true, and_imp]
        intro x _ hx; exact hx
      simp [this]
    | gt =>
      left
      have h1 : dirFilter .gt cs = cs.filter (fun c => c.isServer == true) := by
        unfold dirFilter; simp [hb]
      rw [h1]; unfold notBoth
      have : (cs.filter (fun c => c.isServer == true)).any (fun c => !c.isServer) = false := by
        simp only [List.any_eq_false, List.mem_filter, beq_iff_eq, Bool.not_eq_true',
          Bool.not_eq_false, and_imp]
        intro x _ hx; exact hx
      simp [this]
  · right; unfold dirFilter; simp [hb]

/-- all members carry the same nonce value -/
def sameConn (l : List Cand) : Prop := ∃ v, ∀ c ∈ l, c.conn = v

theorem nonceFilter_sameConn (cs : List Cand) : sameConn (nonceFilter cs) := by
  unfold nonceFilter
  cases hm : minConn cs with
  | some m =>
    exact ⟨some m, fun c hc => by simpa using (List.mem_filter.mp hc).2⟩
  | none =>
    refine ⟨none, fun c hc => ?_⟩
    unfold minConn at hm
    have := List.min?_eq_none_iff.mp hm
    simp only [List.filterMap_eq_nil_iff] at this
    exact this c hc

theorem nonceFilter_of_sameConn {l : List Cand} (h : sameConn l) : nonceFilter l = l := by
  obtain ⟨v, hv⟩ := h
  unfold nonceFilter
  cases hm : minConn l with
  | none => rfl
  | some m =>
    unfold minConn at hm
    have hmem := (List.min?_eq_some_iff.mp hm).1
    obtain ⟨c, hc, hcm⟩ := List.mem_filterMap.mp hmem
    have hvm : v = some m := by rw [← hv c hc]; exact hcm
    simp only [List.filter_eq_self, beq_iff_eq]
    intro x hx; rw [hv x hx, hvm]

theorem sameConn_sublist {l l' : List Cand} (h : l'.Sublist l) (hl : sameConn l) : sameConn l' := by
  obtain ⟨v, hv⟩ := hl
  exact ⟨v, fun c hc => hv c (h.subset hc)⟩

theorem tieBreak_idem (cs : List Cand) : tieBreak (tieBreak cs) = tieBreak cs := by
  by_cases hc : (decide (cs.length > 1) && cs.all (·.isServer)) = true
  · cases hm : (cs.map (·.id)).min? with
    | none =>
      have h1 : tieBreak cs = cs := by unfold tieBreak; simp [hc, hm]
      rw [h1, h1]
    | some w =>
      have h1 : tieBreak cs = cs.filter (fun c => c.id == w) := by unfold tieBreak; simp [hc, hm]
      rw [h1]
      -- every member of the filtered list has id `w`, so a second tie-break keeps all of it
      have hall : ∀ x ∈ cs.filter (fun c => c.id == w), x.id = w := by
        intro x hx; simpa using (List.mem_filter.mp hx).2
      unfold tieBreak
      split
      · cases hm2 : ((cs.filter (fun c => c.id == w)).map (·.id)).min? with
        | none => rfl
        | some w2 =>
          have hw2 := (List.min?_eq_some_iff.mp hm2).1
          obtain ⟨y, hy, hyw⟩ := List.mem_map.mp hw2
          have : w2 = w := by rw [← hyw]; exact hall y hy
          subst this
          simp only [List.filter_eq_self, beq_iff_eq]
          exact hall
      · rfl
  · have h1 : tieBreak cs = cs := by unfold tieBreak; simp [hc]
    rw [h1, h1]

/-- (idempotence) an elected set re-elects itself: nothing more is closed on a second pass. -/
theorem pipeline_idem (o : Ordering) (cs : List Cand) :
    pipeline o (pipeline o cs) = pipeline o cs := by
  have hsub : (pipeline o cs).Sublist (dirFilter o cs) := (tieBreak_sublist _).trans (nonceFilter_sublist _)
  have h1 : dirFilter o (pipeline o cs) = pipeline o cs := by
    rcases dirFilter_notBoth_or_eq o cs with hnb | heq
    · exact dirFilter_of_notBoth o (notBoth_sublist hsub hnb)
    · -- the direction stage was the identity on `cs` (no mixed directions or equal names)
      by_cases hb : (cs.any (·.isServer) && cs.any (fun c => !c.isServer)) = true
      · cases o with
        | eq => unfold dirFilter; split <;> rfl
        | lt =>
          -- identity filter on a mixed list is impossible
          exfalso
          have hd : dirFilter .lt cs = cs.filter (fun c => c.isServer == false) := by
            unfold dirFilter; simp [hb]
          rw [hd] at heq
          simp only [Bool.and_eq_true, List.any_eq_true] at hb
          obtain ⟨⟨s, hs, hs'⟩, _⟩ := hb
          have := (List.filter_eq_self.mp heq) s hs
          simp [hs'] at this
        | gt =>
          exfalso
          have hd : dirFilter .gt cs = cs.filter (fun c => c.isServer == true) := by
            unfold dirFilter; simp [hb]
          rw [hd] at heq
          simp only [Bool.and_eq_true, List.any_eq_true] at hb
          obtain ⟨_, ⟨c, hc, hc'⟩⟩ := hb
          have := (List.filter_eq_self.mp heq) c hc
          simp at hc'; simp [hc'] at this
      · have hnb : notBoth cs := by unfold notBoth; simpa using hb
        exact dirFilter_of_notBoth o (notBoth_sublist (hsub.trans (dirFilter_sublist o cs)) hnb)
  have h2 : nonceFilter (pipeline o cs) = pipeline o cs :=
    nonceFilter_of_sameConn (sameConn_sublist (tieBreak_sublist _) (nonceFilter_sameConn _))
  show tieBreak (nonceFilter (dirFilter o (pipeline o cs))) = pipeline o cs
  rw [h1, h2]
  exact tieBreak_idem _

/-- On the accepting node (every retained candidate is server-side) an elected set with
distinct actor ids has at most one member. -/
theorem pipeline_acceptor_unique (o : Ordering) (cs : List Cand)
    (hnd : (cs.map (·.id)).Nodup) (hall : ∀ c ∈ pipeline o cs, c.isServer = true) :
    (pipeline o cs).length ≤ 1 := by
  by_cases hne : pipeline o cs = []
  · simp [hne]
  · have hnd' : ((pipeline o cs).map (·.id)).Nodup := ((pipeline_sublist o cs).map _).nodup hnd
    obtain ⟨c, _, htb, _⟩ := tieBreak_allServer hne hall hnd'
    have : tieBreak (pipeline o cs) = pipeline o cs := by
      have := pipeline_idem o cs
      -- pipeline o X = tieBreak (nonceFilter (dirFilter o X)) and the first two stages fix X
      unfold pipeline at this ⊢
      exact tieBreak_idem _
    rw [this] at htb
    simp [htb]

end Election

namespace Election

theorem nodup_map_inj {α : Type} (f : α → Nat) {l : List α} (h : (l.map f).Nodup) {x y : α}
    (hx : x ∈ l) (hy : y ∈ l) (hxy : f x = f y) : x = y := by
  induction l with
  | nil => simp at hx
  | cons a t ih =>
    simp only [List.map_cons, List.nodup_cons, List.mem_map, not_exists, not_and] at h
    rcases List.mem_cons.mp hx with rfl | hx' <;> rcases List.mem_cons.mp hy with rfl | hy'
    · rfl
    · exact absurd hxy.symm (h.1 y hy')
    · exact absurd hxy (h.1 x hx')
    · exact ih h.2 hx' hy'

/-- on authenticated sessions of that peer, "is a loser" is exactly "not elected" -/
theorem losersOf_contains (st : NS) (peer : String) (E : List Nat)
    (hnd : (st.sessions.map (·.id)).Nodup) (x : Session) (hx : x ∈ st.sessions)
    (hxa : (x.auth && x.peerName == some peer) = true) :
    (st.losersOf peer E).contains x.id = !E.contains x.id := by
  unfold NS.losersOf
  cases hE : E.contains x.id
  · simp only [Bool.not_false, List.contains_eq_mem, List.mem_map, List.mem_filter,
      decide_eq_true_eq]
    have hE' : ¬ x.id ∈ E := by simpa using hE
    exact ⟨x, ⟨hx, by simp [hxa, hE']⟩, rfl⟩
  · simp only [Bool.not_true, List.contains_eq_mem, List.mem_map, List.mem_filter,
      decide_eq_false_iff_not, not_exists, not_and, and_imp]
    intro y hy hyc hid
    have hxy : y = x := nodup_map_inj (·.id) hnd hy hx hid
    subst hxy
    have hE' : y.id ∈ E := by simpa using hE
    simp [hE'] at hyc

theorem filter_map_same {α β : Type} (l : List α) (f : α → α) (p : α → Bool) (g : α → β)
    (hg : ∀ x, g (f x) = g x) : ((l.map f).filter p).map g = (l.filter (fun x => p (f x))).map g := by
  induction l with
  | nil => rfl
  | cons a t ih =>
    simp only [List.map_cons, List.filter_cons]
    split <;> simp_all

/-- After removing the losers, the authenticated candidates of that peer are exactly the
elected set (`pipeline`) of the authenticated candidates before. -/
theorem deauth_candidates (st : NS) (peer : String) (o : Ordering)
    (hnd : (st.sessions.map (·.id)).Nodup) :
    (st.deauth (st.losersOf peer (elect o (st.candidatesFor peer true)))).candidatesFor peer true =
      pipeline o (st.candidatesFor peer true) := by
  have hCnd : ((st.candidatesFor peer true).map (·.id)).Nodup := by
    have : (st.candidatesFor peer true).map (·.id) =
        (st.sessions.filter (fun s => s.peerName == some peer && (!true || s.auth))).map (·.id) := by
      simp [NS.candidatesFor, Session.toCand, Function.comp_def]
    rw [this]
    exact ((List.filter_sublist).map _).nodup hnd
  have h3 : (st.candidatesFor peer true).filter (fun c => (elect o (st.candidatesFor peer true)).contains c.id) =
      pipeline o (st.candidatesFor peer true) := by
    rw [elect_eq_pipeline]
    exact filter_keys_of_sublist (·.id) (pipeline_sublist _ _) hCnd
  rw [← h3]
  generalize elect o (st.candidatesFor peer true) = E
  unfold NS.deauth NS.candidatesFor
  simp only [Bool.not_true, Bool.false_or]
  rw [filter_map_same st.sessions _ _ Session.toCand (by intro x; split <;> rfl)]
  rw [List.filter_map]
  congr 1
  rw [List.filter_filter]
  apply List.filter_congr
  intro x hx
  by_cases hxa : (x.auth && x.peerName == some peer) = true
  · have hl := losersOf_contains st peer E hnd x hx hxa
    simp only [Bool.and_eq_true] at hxa
    cases hE : E.contains x.id <;> simp_all [Session.toCand]
  · have hxa' : (x.peerName == some peer && x.auth) = false := by
      rw [Bool.and_comm]; simpa using hxa
    split <;> simp_all [Session.toCand]

end Election

namespace Election

theorem find_some_mem {st : NS} {id : Nat} {s : Session} (h : st.find id = some s) :
    s ∈ st.sessions ∧ s.id = id := by
  unfold NS.find at h
  exact ⟨List.mem_of_find?_eq_some h, by simpa using List.find?_some h⟩

theorem find_of_mem_nodup {st : NS} (hnd : (st.sessions.map (·.id)).Nodup) {s : Session}
    (hs : s ∈ st.sessions) : st.find s.id = some s := by
  unfold NS.find
  cases hf : st.sessions.find? (fun x => x.id == s.id) with
  | none =>
    have := List.find?_eq_none.mp hf s hs
    simp at this
  | some t =>
    have ht := List.mem_of_find?_eq_some hf
    have hid : t.id = s.id := by simpa using List.find?_some hf
    rw [nodup_map_inj (·.id) hnd ht hs hid]

/-- wire nonce round trip: `NonZeroU64::new(conn.getD 0) = conn` for stored nonces (never `some 0`) -/
def wireOk (s : Session) : Prop := s.conn ≠ some 0

/-- An authenticated, elected session is never told to stop by its own post-authentication
`CheckSession`. -/
theorem elected_continues (st : NS) (hnd : (st.sessions.map (·.id)).Nodup)
    (hw : ∀ s ∈ st.sessions, wireOk s) (id : Nat) (hel : st.isElected id = true) :
    ∃ r, st.postAuthReply id = some r ∧ r.continues = true := by
  unfold NS.isElected at hel
  unfold NS.postAuthReply
  cases hf : st.find id with
  | none => simp [hf] at hel
  | some s =>
    simp only [hf] at hel ⊢
    obtain ⟨hmem, hid⟩ := find_some_mem hf
    cases hauth : s.auth with
    | false => simp [hauth] at hel
    | true =>
      simp only [hauth, Bool.not_true, Bool.false_eq_true, if_false] at hel
      cases hp : s.peerName with
      | none => simp [hp] at hel
      | some peer =>
        simp only [hp] at hel ⊢
        refine ⟨_, rfl, ?_⟩
        unfold NS.checkSession
        -- the session itself matches (peer, its own nonce)
        have hconn : (if (s.conn.getD 0 == 0) = true then none else some (s.conn.getD 0)) = s.conn := by
          have := hw s hmem
          unfold wireOk at this
          cases hc : s.conn with
          | none => simp
          | some n =>
            have hn : n ≠ 0 := by intro h0; apply this; rw [hc, h0]
            simp [hn]
        simp only [hconn]
        have hsm : s ∈ st.sessions.filter (fun x => x.peerName == some peer && x.conn == s.conn) := by
          simp [List.mem_filter, hmem, hp]
        cases hm : (st.sessions.filter (fun x => x.peerName == some peer && x.conn == s.conn)).map (·.id) with
        | nil =>
          have : s.id ∈ (st.sessions.filter (fun x => x.peerName == some peer && x.conn == s.conn)).map (·.id) :=
            List.mem_map.mpr ⟨s, hsm, rfl⟩
          rw [hm] at this; simp at this
        | cons i rest =>
          cases rest with
          | cons j rest' => rfl
          | nil =>
            -- the single match is the session itself
            have hi : s.id ∈ [i] := by
              rw [← hm]; exact List.mem_map.mpr ⟨s, hsm, rfl⟩
            have hi' : i = id := by
              have : s.id = i := by simpa using hi
              rw [← this, hid]
            subst hi'
            simp only
            unfold NS.checkCandidate
            simp only [hf, hp, hauth, if_true]
            cases hc : (elect (nameOrd peer st.thisName) (st.candidatesFor peer true)).contains i with
            | false => rw [hc] at hel; cases hel
            | true => split <;> simp_all [Reply.continues]

end Election
