//! C07 correspondence harness, part "requests that arrive before the actor has started":
//! `spawn_instant` / `spawn_linked_instant` hand out the `ActorRef` before the start task has
//! been polled once (status `Unstarted`). On a paused `current_thread` runtime the harness issues
//! casts, `drain()`, `stop()` and `kill()` in that window WITHOUT yielding, then lets the start
//! task run (`poll ok|err`: what pre_start returns) and goes on with more requests on the
//! running actor. After every op it records the request's own result and a snapshot
//! `h=[handled ids] st=<status> r=<exit reason seen by the supervisor|->`.
//!
//! Thread-local flavour (`case <l> tl`): the spawner's thread is held inside a blocker actor's
//! pre_start while the requests are issued, so the target's start request is still queued.
//!
//! ops: `case <linked 0|1> [tl]` · `cast` → `ok|err` · `drain` → `ok|err` · `stop` · `kill`
//!      · `poll ok|err` → `start=ok|err:<kind>`
//!
//! usage: early --seed S --cases N --out DIR [--replay-ops f1,f2] [--only-replay 1]

use std::sync::atomic::{AtomicU8, Ordering};
use std::sync::{Arc, Mutex};

use hutil::{Args, Log, Rng, Stats};
use ractor::thread_local::{ThreadLocalActor, ThreadLocalActorSpawner};
use ractor::verif::{self, ThreadCtl, ThreadPhase};
use ractor::{Actor, ActorProcessingErr, ActorRef, SpawnErr, SupervisionEvent};
use tokio::task::JoinHandle;

#[derive(Default)]
struct Shared {
    handled: Vec<u64>,
    reason: Option<String>,
}

/// The pre_start gate: with `mode` 1 pre_start parks at its await point until `open` is notified
/// (ops `enter` / `leave`); `me` is the actor's own reference as pre_start received it (the only
/// way to reach an actor spawned with the non-instant `spawn*` calls before they return — what a
/// pre_start that registers itself somewhere makes possible).
#[derive(Default)]
struct Gate {
    mode: AtomicU8,
    entered: AtomicU8,
    open: tokio::sync::Notify,
    me: Mutex<Option<ActorRef<u64>>>,
}

impl Gate {
    async fn pass(&self, myself: ActorRef<u64>) {
        *self.me.lock().unwrap() = Some(myself);
        if self.mode.load(Ordering::SeqCst) == 1 {
            self.entered.store(1, Ordering::SeqCst);
            self.open.notified().await;
        }
    }
}

struct Target {
    shared: Arc<Mutex<Shared>>,
    outcome: Arc<AtomicU8>, // what pre_start returns: 0 ok, 1 err
    gate: Arc<Gate>,
}

impl Actor for Target {
    type Msg = u64;
    type State = ();
    type Arguments = ();
    async fn pre_start(&self, myself: ActorRef<u64>, _: ()) -> Result<(), ActorProcessingErr> {
        self.gate.pass(myself).await;
        if self.outcome.load(Ordering::SeqCst) == 0 {
            Ok(())
        } else {
            Err("pre_start failed".into())
        }
    }
    async fn post_start(&self, _: ActorRef<u64>, _: &mut ()) -> Result<(), ActorProcessingErr> {
        // flavour `thr`: the start ran on a thread registered with a ThreadCtl; the actor's own
        // loop (same thread) is not stepped any more (a no-op on unregistered threads)
        verif::thread_unregister();
        Ok(())
    }
    async fn handle(&self, _: ActorRef<u64>, m: u64, _: &mut ()) -> Result<(), ActorProcessingErr> {
        self.shared.lock().unwrap().handled.push(m);
        Ok(())
    }
}


#[derive(Default)]
struct TargetTl;
struct TlArgs {
    shared: Arc<Mutex<Shared>>,
    outcome: Arc<AtomicU8>,
    gate: Arc<Gate>,
}
impl ThreadLocalActor for TargetTl {
    type Msg = u64;
    type State = Arc<Mutex<Shared>>;
    type Arguments = TlArgs;
    async fn pre_start(&self, myself: ActorRef<u64>, a: TlArgs) -> Result<Self::State, ActorProcessingErr> {
        a.gate.pass(myself).await;
        if a.outcome.load(Ordering::SeqCst) == 0 {
            Ok(a.shared)
        } else {
            Err("pre_start failed".into())
        }
    }
    async fn handle(&self, _: ActorRef<u64>, m: u64, st: &mut Self::State) -> Result<(), ActorProcessingErr> {
        st.lock().unwrap().handled.push(m);
        Ok(())
    }
}

/// its pre_start holds the spawner's thread until the harness sends on the channel
#[derive(Default)]
struct Blocker;
impl ThreadLocalActor for Blocker {
    type Msg = ();
    type State = ();
    type Arguments = (std::sync::mpsc::Receiver<()>, Arc<AtomicU8>);
    async fn pre_start(&self, _: ActorRef<()>, a: Self::Arguments) -> Result<(), ActorProcessingErr> {
        a.1.store(1, Ordering::SeqCst);
        let _ = a.0.recv();
        Ok(())
    }
}

struct Sup {
    shared: Arc<Mutex<Shared>>,
}
impl Actor for Sup {
    type Msg = ();
    type State = ();
    type Arguments = ();
    async fn pre_start(&self, _: ActorRef<()>, _: ()) -> Result<(), ActorProcessingErr> {
        Ok(())
    }
    async fn handle_supervisor_evt(&self, _: ActorRef<()>, evt: SupervisionEvent, _: &mut ()) -> Result<(), ActorProcessingErr> {
        let mut sh = self.shared.lock().unwrap();
        match evt {
            SupervisionEvent::ActorTerminated(_, _, r) => sh.reason = Some(format!("T:{}", r.unwrap_or_else(|| "none".into()))),
            SupervisionEvent::ActorFailed(_, _) => sh.reason = Some("F".into()),
            _ => {}
        }
        Ok(())
    }
}

async fn quiesce() {
    for _ in 0..80 {
        tokio::task::yield_now().await;
    }
}

struct World {
    shared: Arc<Mutex<Shared>>,
    outcome: Arc<AtomicU8>,
    gate: Arc<Gate>,
    /// instant spawns hand the reference out at once; the plain `spawn*` calls only through pre_start
    target: Option<ActorRef<u64>>,
    start: Option<JoinHandle<Result<JoinHandle<()>, SpawnErr>>>,
    /// the start task has been let run (`enter` / `poll`): later ops are followed by a settle
    begun: bool,
    sup: Option<ActorRef<()>>,
    next: u64,
    /// thread-local flavour: the spawner and the channel that releases its thread
    spawner: Option<ThreadLocalActorSpawner>,
    release: Option<std::sync::mpsc::Sender<()>>,
    blocker: Option<JoinHandle<()>>,
    /// a `drain()` running on its own OS thread, parked at its schedule points (`dbegin` / `dstep`)
    fine: Option<FineDrain>,
}

/// One `drain()` call executed step by step: the thread is registered with a `ThreadCtl`, so it
/// parks at `drain.close`, `drain.status`, `marker.load`, `marker.cas`, `marker.enqueue`.
struct FineDrain {
    ctl: Arc<ThreadCtl>,
    result: Arc<Mutex<Option<bool>>>,
    thread: Option<std::thread::JoinHandle<()>>,
}

impl FineDrain {
    fn begin(t: ActorRef<u64>) -> Self {
        let ctl = ThreadCtl::new();
        let result: Arc<Mutex<Option<bool>>> = Default::default();
        let (c2, r2) = (ctl.clone(), result.clone());
        let thread = std::thread::spawn(move || {
            verif::thread_register(c2.clone());
            let r = t.drain().is_ok();
            verif::thread_unregister();
            *r2.lock().unwrap() = Some(r);
            c2.finish();
        });
        FineDrain { ctl, result, thread: Some(thread) }
    }
    fn wait(&self) -> ThreadPhase {
        self.ctl
            .wait_parked_timeout(std::time::Duration::from_secs(20))
            .expect("drain thread neither parked nor done after 20 s")
    }
    fn show(&mut self, ph: ThreadPhase) -> String {
        match ph {
            ThreadPhase::AtPoint(p) => format!("at={p}"),
            ThreadPhase::Done => {
                if let Some(t) = self.thread.take() {
                    let _ = t.join();
                }
                format!("done={}", if self.result.lock().unwrap().unwrap_or(false) { "ok" } else { "err" })
            }
            ThreadPhase::Running => "running".into(),
        }
    }
    /// one model step: the CAS that sets the marker bit and the enqueue of the marker go together
    fn step(&mut self) -> String {
        let at_cas = self.ctl.phase() == ThreadPhase::AtPoint("marker.cas");
        self.ctl.grant();
        let mut ph = self.wait();
        if at_cas && ph == ThreadPhase::AtPoint("marker.enqueue") {
            self.ctl.grant();
            ph = self.wait();
        }
        self.show(ph)
    }
    fn finish(&mut self) {
        self.ctl.release();
        if let Some(t) = self.thread.take() {
            let _ = t.join();
        }
    }
}

impl World {
    /// `ni`: the non-instant calls `spawn` / `spawn_linked`, awaited by a task of the harness
    async fn new(linked: bool, tl: bool, ni: bool) -> Self {
        let shared: Arc<Mutex<Shared>> = Default::default();
        let outcome = Arc::new(AtomicU8::new(0));
        let gate: Arc<Gate> = Default::default();
        let sup = if linked {
            let (s, _) = Actor::spawn(None, Sup { shared: shared.clone() }, ()).await.expect("sup");
            quiesce().await;
            Some(s)
        } else {
            None
        };
        if tl {
            let spawner = ThreadLocalActorSpawner::new();
            let (tx, rx) = std::sync::mpsc::channel();
            let parked = Arc::new(AtomicU8::new(0));
            let (sp2, pk2) = (spawner.clone(), parked.clone());
            let blocker = tokio::spawn(async move {
                if let Ok((b, _)) = Blocker::spawn(None, (rx, pk2), sp2).await {
                    b.stop(None);
                }
            });
            while parked.load(Ordering::SeqCst) == 0 {
                tokio::task::yield_now().await;
                std::thread::yield_now();
            }
            // the spawner's thread stands still inside the blocker's pre_start: the target's
            // start request stays queued until `poll`
            let args = TlArgs { shared: shared.clone(), outcome: outcome.clone(), gate: gate.clone() };
            let (target, start) = if ni {
                let (sp, s2) = (spawner.clone(), sup.clone());
                let h = tokio::spawn(async move {
                    let (_, h) = match s2 {
                        Some(s) => TargetTl::spawn_linked(None, args, s.get_cell(), sp).await?,
                        None => TargetTl::spawn(None, args, sp).await?,
                    };
                    Ok(h)
                });
                (None, h)
            } else {
                let (t, h) = match &sup {
                    Some(s) => TargetTl::spawn_linked_instant(None, args, s.get_cell(), spawner.clone()).expect("instant"),
                    None => TargetTl::spawn_instant(None, args, spawner.clone()).expect("instant"),
                };
                (Some(t), h)
            };
            return World { shared, outcome, gate, target, start: Some(start), begun: false, sup, next: 0, spawner: Some(spawner), release: Some(tx), blocker: Some(blocker), fine: None };
        }
        let t = Target { shared: shared.clone(), outcome: outcome.clone(), gate: gate.clone() };
        // no yield between this call and the ops that follow: the start task has not been polled
        let (target, start) = if ni {
            let s2 = sup.clone();
            let h = tokio::spawn(async move {
                let (_, h) = match s2 {
                    Some(s) => Actor::spawn_linked(None, t, (), s.get_cell()).await?,
                    None => Actor::spawn(None, t, ()).await?,
                };
                Ok(h)
            });
            (None, h)
        } else {
            let (r, h) = match &sup {
                Some(s) => ractor::ActorRuntime::<Target>::spawn_linked_instant(None, t, (), s.get_cell()).expect("instant"),
                None => ractor::ActorRuntime::<Target>::spawn_instant(None, t, ()).expect("instant"),
            };
            (Some(r), h)
        };
        World { shared, outcome, gate, target, start: Some(start), begun: false, sup, next: 0, spawner: None, release: None, blocker: None, fine: None }
    }

    fn target(&self) -> Option<ActorRef<u64>> {
        self.target.clone().or_else(|| self.gate.me.lock().unwrap().clone())
    }

    fn snap(&self) -> String {
        let sh = self.shared.lock().unwrap();
        let h: Vec<String> = sh.handled.iter().map(|x| x.to_string()).collect();
        format!(
            "h=[{}] st={} r={}",
            h.join(","),
            self.target().map(|t| format!("{:?}", t.get_status())).unwrap_or_else(|| "NoRef".into()),
            if self.sup.is_some() { sh.reason.clone().unwrap_or_else(|| "-".into()) } else { "-".into() }
        )
    }

    async fn settle(&self) {
        match &self.spawner {
            None => quiesce().await,
            Some(sp) => {
                for _ in 0..5 {
                    quiesce().await;
                    if self.release.is_none() {
                        sp.verif_barrier(40).await;
                    }
                }
                quiesce().await;
            }
        }
    }

    async fn join_start(&mut self) -> String {
        match self.start.take() {
            None => "start=already".into(),
            Some(jh) => match jh.await {
                Ok(Ok(_)) => "start=ok".into(),
                Ok(Err(SpawnErr::ActorAlreadyStarted)) => "start=err:already-started".into(),
                Ok(Err(SpawnErr::StartupFailed(_))) => "start=err:startup-failed".into(),
                Ok(Err(_)) => "start=err:other".into(),
                Err(_) => "start=err:join".into(),
            },
        }
    }

    /// ops issued before `poll` / `enter` never yield; afterwards the world is run to quiescence
    async fn exec(&mut self, line: &str) -> String {
        let w: Vec<&str> = line.split_whitespace().collect();
        let t = self.target();
        let r = match (w.as_slice(), &t) {
            (["cast"], Some(t)) => {
                let id = self.next;
                self.next += 1;
                if t.cast(id).is_ok() { "ok" } else { "err" }.to_string()
            }
            // cluster builds: the same cast as a serialized message (`ActorCell::send_serialized`,
            // the path a NodeSession uses for messages from a peer)
            #[cfg(feature = "cluster")]
            (["scast"], Some(t)) => {
                let id = self.next;
                self.next += 1;
                let m = ractor::message::SerializedMessage::Cast {
                    variant: String::new(),
                    args: ractor::BytesConvertable::into_bytes(id),
                    metadata: None,
                };
                if t.get_cell().send_serialized(m).is_ok() { "ok" } else { "err" }.to_string()
            }
            (["drain"], Some(t)) => if t.drain().is_ok() { "ok" } else { "err" }.to_string(),
            (["stop"], Some(t)) => {
                t.stop(None);
                "ok".into()
            }
            (["kill"], Some(t)) => {
                t.kill();
                "ok".into()
            }
            // a drain() of its own OS thread, advanced one atomic operation at a time
            (["dbegin"], Some(t)) => {
                if self.fine.is_some() {
                    "dbegin=busy".into()
                } else {
                    let mut f = FineDrain::begin(t.clone());
                    let ph = f.wait();
                    let r = f.show(ph);
                    self.fine = Some(f);
                    r
                }
            }
            (["dstep"], _) => match self.fine.as_mut() {
                None => "dstep=none".into(),
                Some(f) => {
                    let r = f.step();
                    if r.starts_with("done") {
                        self.fine = None;
                    }
                    r
                }
            },
            (["cast" | "scast" | "drain" | "stop" | "kill" | "dbegin"], None) => "noref".into(),
            (["poll", o], _) => {
                self.outcome.store(if *o == "ok" { 0 } else { 1 }, Ordering::SeqCst);
                if let Some(tx) = self.release.take() {
                    let _ = tx.send(());
                }
                self.begun = true;
                // a start parked at the gate (`enter`) is let go as by `leave`
                self.gate.mode.store(0, Ordering::SeqCst);
                self.gate.open.notify_one();
                self.join_start().await
            }
            // the start task runs until pre_start is parked at its await point
            (["enter"], _) => {
                if self.begun {
                    "enter=already".into()
                } else {
                    self.gate.mode.store(1, Ordering::SeqCst);
                    if let Some(tx) = self.release.take() {
                        let _ = tx.send(());
                    }
                    self.begun = true;
                    let mut n = 0;
                    while self.gate.entered.load(Ordering::SeqCst) == 0
                        && !self.start.as_ref().is_some_and(|h| h.is_finished())
                        && n < 2000
                    {
                        tokio::task::yield_now().await;
                        if self.spawner.is_some() {
                            std::thread::yield_now();
                        }
                        n += 1;
                    }
                    self.settle().await;
                    if self.start.as_ref().is_some_and(|h| h.is_finished()) {
                        // a kill that was already pending won the select before pre_start ran
                        "start-over"
                    } else if self.gate.entered.load(Ordering::SeqCst) == 1 {
                        "entered"
                    } else {
                        "not-entered"
                    }
                    .into()
                }
            }
            // pre_start returns
            (["leave", o], _) => {
                self.begun = true;
                self.outcome.store(if *o == "ok" { 0 } else { 1 }, Ordering::SeqCst);
                self.gate.mode.store(0, Ordering::SeqCst);
                self.gate.open.notify_one();
                self.join_start().await
            }
            _ => "bad-op".into(),
        };
        if self.begun {
            self.settle().await;
        }
        format!("{r} {}", self.snap())
    }

    async fn finish(mut self) {
        if let Some(mut f) = self.fine.take() {
            f.finish();
        }
        let rel = self.release.take();
        if let Some(tx) = &rel {
            let _ = tx.send(());
        }
        self.gate.mode.store(0, Ordering::SeqCst);
        self.gate.open.notify_one();
        if let Some(t) = self.target() {
            t.kill();
        }
        if let Some(s) = &self.sup {
            s.kill();
        }
        if let Some(tx) = &self.release {
            let _ = tx.send(());
        }
        if let Some(h) = &self.start {
            h.abort();
        }
        if let Some(b) = &self.blocker {
            b.abort();
        }
        self.settle().await;
    }
}

/// Flavour `thr`: `spawn_instant` / `spawn_linked_instant` (Send or thread-local) is called, and its start
/// task polled, on an OS thread of its own that is registered with a `ThreadCtl`; `tbegin` lets it run to
/// its first `status.publish` (the status check of `start` is done, `Starting` not yet published),
/// `sstep` to the next of `status.publish` / `tree.link` (thread-local: the early link right after the
/// publication; Send: the link after pre_start returned) — the positions of the start thread that have no
/// await point. Casts and drains are issued from the harness thread while it is parked. The `sstep` that
/// completes the start also ends the case: an actor nobody drained is drained, the actor is awaited.
async fn run_thr_case(log: &mut Log, st: &mut Stats, ops: &[String], linked: bool, tl: bool) {
    st.bump("case_thr");
    log.rec(format!("case {}{} thr", linked as u8, if tl { " tl" } else { "" }), "ok");
    let shared: Arc<Mutex<Shared>> = Default::default();
    let sup = if linked {
        let (s, _) = Actor::spawn(None, Sup { shared: shared.clone() }, ()).await.expect("sup");
        quiesce().await;
        Some(s)
    } else {
        None
    };
    let iref: Arc<Mutex<Option<ActorRef<u64>>>> = Default::default();
    let result: Arc<Mutex<Option<String>>> = Default::default();
    let mut ctl: Option<Arc<ThreadCtl>> = None;
    let mut thread: Option<std::thread::JoinHandle<()>> = None;
    let spawner = if tl { Some(ThreadLocalActorSpawner::new()) } else { None };
    let (mut next, mut drained, mut over) = (0u64, false, false);
    // `status.publish` is a stop only for `tbegin` (the publication of `Starting`); later ones (the
    // guard's cleanup of a start that failed) are passed, so that a failing start reports its result
    let advance = |ctl: &Arc<ThreadCtl>, result: &Arc<Mutex<Option<String>>>, grant: bool| -> String {
        let first = !grant;
        if grant {
            ctl.grant();
        }
        let t0 = std::time::Instant::now();
        loop {
            if let Some(r) = result.lock().unwrap().clone() {
                return format!("done={r}");
            }
            if t0.elapsed() > std::time::Duration::from_secs(30) {
                return "hang".into();
            }
            match ctl.wait_parked_timeout(std::time::Duration::from_millis(2)) {
                Some(ThreadPhase::AtPoint(p)) if (first && p == "status.publish") || p == "tree.link" => return format!("at={p}"),
                Some(ThreadPhase::AtPoint(_)) => ctl.grant(),
                Some(ThreadPhase::Done) => return format!("done={}", result.lock().unwrap().clone().unwrap_or_else(|| "?".into())),
                _ => {}
            }
        }
    };
    for op in ops {
        st.bump(op.split_whitespace().next().unwrap_or("?"));
        let t = iref.lock().unwrap().clone();
        let mut r: String = match (op.as_str(), &t) {
            ("tbegin", _) if ctl.is_none() => {
                let c = ThreadCtl::new();
                ctl = Some(c.clone());
                let (sh, ir, rs, sp) = (shared.clone(), iref.clone(), result.clone(), spawner.clone());
                let supc = sup.as_ref().map(|s| s.get_cell());
                thread = Some(std::thread::spawn(move || {
                    verif::thread_register(c.clone());
                    let rt = tokio::runtime::Builder::new_current_thread().enable_all().build().expect("rt");
                    rt.block_on(async move {
                        let outcome = Arc::new(AtomicU8::new(0));
                        let gate: Arc<Gate> = Default::default();
                        let spawned = match sp {
                            Some(sp) => {
                                let args = TlArgs { shared: sh, outcome, gate };
                                match supc {
                                    Some(p) => TargetTl::spawn_linked_instant(None, args, p, sp),
                                    None => TargetTl::spawn_instant(None, args, sp),
                                }
                            }
                            None => {
                                let t = Target { shared: sh, outcome, gate };
                                match supc {
                                    Some(p) => ractor::ActorRuntime::<Target>::spawn_linked_instant(None, t, (), p),
                                    None => ractor::ActorRuntime::<Target>::spawn_instant(None, t, ()),
                                }
                            }
                        };
                        let (aref, jh) = spawned.expect("instant");
                        *ir.lock().unwrap() = Some(aref);
                        let res = jh.await;
                        verif::thread_unregister();
                        let (txt, handle) = match res {
                            Ok(Ok(h)) => ("start=ok", Some(h)),
                            Ok(Err(SpawnErr::ActorAlreadyStarted)) => ("start=err:already-started", None),
                            Ok(Err(SpawnErr::StartupFailed(_))) => ("start=err:startup-failed", None),
                            Ok(Err(_)) => ("start=err:other", None),
                            Err(_) => ("start=err:join", None),
                        };
                        *rs.lock().unwrap() = Some(txt.to_string());
                        if let Some(h) = handle {
                            let _ = h.await;
                        }
                    });
                    c.finish();
                }));
                advance(ctl.as_ref().unwrap(), &result, false)
            }
            ("sstep", _) if ctl.is_some() && !over => advance(ctl.as_ref().unwrap(), &result, true),
            ("cast", Some(t)) if !over => {
                let id = next;
                next += 1;
                if t.cast(id).is_ok() { "ok" } else { "err" }.to_string()
            }
            ("drain", Some(t)) if !over => {
                drained = true;
                if t.drain().is_ok() { "ok" } else { "err" }.to_string()
            }
            _ => "bad-op".into(),
        };
        if r.starts_with("done=") && !over {
            over = true;
            // the start is over: an actor nobody drained is drained now (so that it ends by itself,
            // deterministically, after its backlog); then the actor is awaited
            if let (false, Some(t)) = (drained, iref.lock().unwrap().clone()) {
                let _ = t.drain();
            }
            let mut n = 0;
            while thread.as_ref().is_some_and(|h| !h.is_finished()) && n < 5000 {
                std::thread::sleep(std::time::Duration::from_millis(1));
                tokio::task::yield_now().await;
                n += 1;
            }
            if thread.as_ref().is_some_and(|h| !h.is_finished()) {
                r.push_str("+hang");
            }
            quiesce().await;
        }
        let snap = {
            let sh = shared.lock().unwrap();
            let h: Vec<String> = sh.handled.iter().map(|x| x.to_string()).collect();
            format!(
                "h=[{}] st={} r={}",
                h.join(","),
                iref.lock().unwrap().as_ref().map(|t| format!("{:?}", t.get_status())).unwrap_or_else(|| "NoRef".into()),
                if sup.is_some() { sh.reason.clone().unwrap_or_else(|| "-".into()) } else { "-".into() }
            )
        };
        log.rec(op.clone(), format!("{r} {snap}"));
    }
    if let Some(c) = &ctl {
        c.release();
    }
    if let Some(t) = iref.lock().unwrap().clone() {
        t.kill();
    }
    if let Some(h) = thread.take() {
        let mut n = 0;
        while !h.is_finished() && n < 5000 {
            std::thread::sleep(std::time::Duration::from_millis(1));
            n += 1;
        }
        if h.is_finished() {
            let _ = h.join();
        }
    }
    if let Some(s) = &sup {
        s.kill();
    }
    quiesce().await;
}

fn gen_thr_ops(rng: &mut Rng, linked: bool) -> Vec<String> {
    let mut ops = vec!["tbegin".to_string()];
    for _ in 0..(1 + linked as u64) {
        for _ in 0..rng.range(0, 2) {
            ops.push(if rng.chance(11, 20) { "cast" } else { "drain" }.to_string());
        }
        ops.push("sstep".to_string());
    }
    ops
}

async fn run_case(log: &mut Log, st: &mut Stats, ops: &[String], linked: bool, tl: bool, ni: bool) {
    let mut w = World::new(linked, tl, ni).await;
    st.bump(if tl { "case_tl" } else { "case_send" });
    st.bump(if ni { "case_plain_spawn" } else { "case_instant" });
    log.rec(format!("case {}{}{}", linked as u8, if tl { " tl" } else { "" }, if ni { " ni" } else { "" }), "ok");
    for op in ops {
        let r = w.exec(op).await;
        st.bump(op.split_whitespace().next().unwrap_or("?"));
        log.rec(op.clone(), r);
    }
    w.finish().await;
}

fn cast_op(rng: &mut Rng) -> &'static str {
    if cfg!(feature = "cluster") && rng.chance(1, 2) {
        "scast"
    } else {
        "cast"
    }
}

/// `ni`: nobody holds a reference before pre_start runs, so no requests before the start
fn gen_ops(rng: &mut Rng, st: &mut Stats, ni: bool) -> Vec<String> {
    let mut ops = Vec::new();
    let pre = if ni { 0 } else { rng.range(0, 6) };
    let mut drained = false;
    for _ in 0..pre {
        let k = rng.below(100);
        ops.push(
            match k {
                0..=54 => cast_op(rng),
                55..=84 => {
                    drained = true;
                    "drain"
                }
                85..=93 => "stop",
                _ => "kill",
            }
            .to_string(),
        );
    }
    if drained {
        st.bump("case_drain_before_start");
    }
    if ni || rng.chance(1, 2) {
        // the start is let run up to pre_start's await point; requests arrive while it is parked
        ops.push("enter".to_string());
        let mid = rng.range(0, 4);
        let mut d = false;
        for _ in 0..mid {
            let k = rng.below(100);
            ops.push(
                match k {
                    0..=49 => cast_op(rng),
                    50..=87 => {
                        d = true;
                        "drain"
                    }
                    88..=94 => "stop",
                    _ => "kill",
                }
                .to_string(),
            );
        }
        if d {
            st.bump("case_drain_during_pre_start");
        }
        ops.push(if rng.chance(5, 6) { "leave ok" } else { "leave err" }.to_string());
    } else {
        ops.push(if rng.chance(5, 6) { "poll ok" } else { "poll err" }.to_string());
    }
    let post = rng.range(0, 5);
    for _ in 0..post {
        let k = rng.below(100);
        ops.push(
            match k {
                0..=59 => cast_op(rng),
                60..=84 => "drain",
                85..=94 => "stop",
                _ => "kill",
            }
            .to_string(),
        );
    }
    ops
}

/// `--fine 1`: one of the case's drains runs on its own OS thread and is advanced one atomic
/// operation at a time (`dbegin`, then up to 4 `dstep`s) between the other ops of the case —
/// before the start task is polled, while pre_start is suspended, after the start
fn add_fine(rng: &mut Rng, st: &mut Stats, ops: &mut Vec<String>, ni: bool) {
    let lo = if ni { ops.iter().position(|o| o == "enter").map(|i| i + 1).unwrap_or(ops.len()) } else { 0 };
    let mut pos = rng.range(lo as u64, ops.len() as u64) as usize;
    ops.insert(pos, "dbegin".to_string());
    let n = rng.range(1, 4);
    for _ in 0..n {
        pos = rng.range(pos as u64 + 1, ops.len() as u64) as usize;
        ops.insert(pos, "dstep".to_string());
    }
    st.bump("case_fine_drain");
}

async fn replay_ops(log: &mut Log, st: &mut Stats, path: &str) {
    let text = std::fs::read_to_string(path).unwrap_or_default();
    let mut cur: Option<(bool, bool, bool, Vec<String>)> = None;
    for line in text.lines() {
        let line = line.trim();
        if line.is_empty() {
            continue;
        }
        if let Some(rest) = line.strip_prefix("case") {
            if let Some((l, t, n, ops)) = cur.take() {
                if ops.first().is_some_and(|o| o == "tbegin") {
                    run_thr_case(log, st, &ops, l, t).await;
                } else {
                    run_case(log, st, &ops, l, t, n).await;
                }
            }
            let f: Vec<&str> = rest.split_whitespace().collect();
            cur = Some((f.first() == Some(&"1"), f.contains(&"tl"), f.contains(&"ni"), vec![]));
        } else if let Some((_, _, _, ops)) = cur.as_mut() {
            ops.push(line.to_string());
        }
    }
    if let Some((l, t, n, ops)) = cur.take() {
        if ops.first().is_some_and(|o| o == "tbegin") {
            run_thr_case(log, st, &ops, l, t).await;
        } else {
            run_case(log, st, &ops, l, t, n).await;
        }
    }
}

#[tokio::main(flavor = "current_thread", start_paused = true)]
async fn main() {
    let args = Args::parse();
    let seed = args.u64("seed", 1);
    let cases = args.u64("cases", 400);
    let out = args.str("out", "/tmp/early");
    let mut rng = Rng::new(seed);
    let mut log = Log::create(std::path::Path::new(&out)).unwrap();
    let mut st = Stats::default();
    for f in args.str("replay-ops", "").split(',').filter(|f| !f.is_empty()) {
        replay_ops(&mut log, &mut st, f).await;
    }
    if args.u64("only-replay", 0) != 1 {
        // fixed boundary cases first
        let fixed: [&[&str]; 12] = [
            &["cast", "enter", "cast", "drain", "cast", "leave ok"],
            &["enter", "drain", "leave ok", "cast"],
            &["enter", "cast", "drain", "leave err"],
            &["enter", "cast", "drain", "stop", "leave ok"],
            &["cast", "cast", "drain", "cast", "poll ok"],
            &["drain", "poll ok", "cast"],
            &["cast", "drain", "drain", "poll ok"],
            &["cast", "drain", "stop", "poll ok"],
            &["cast", "drain", "poll err"],
            &["cast", "stop", "poll ok"],
            &["cast", "kill", "poll ok"],
            &["cast", "poll ok", "cast", "drain", "cast", "drain"],
        ];
        for (i, f) in fixed.iter().enumerate() {
            let ops: Vec<String> = f.iter().map(|s| s.to_string()).collect();
            if i < 4 {
                // drain while pre_start is suspended: plain/linked x instant/non-instant x Send/thread-local
                let ni_ops: Vec<String> = ops.iter().skip_while(|o| *o != "enter").cloned().collect();
                for linked in [false, true] {
                    for tl in [false, true] {
                        run_case(&mut log, &mut st, &ops, linked, tl, false).await;
                        run_case(&mut log, &mut st, &ni_ops, linked, tl, true).await;
                    }
                }
                continue;
            }
            run_case(&mut log, &mut st, &ops, i % 2 == 0, false, false).await;
            run_case(&mut log, &mut st, &ops, i % 2 == 1, true, false).await;
        }
        let fine = args.u64("fine", 0) == 1;
        if fine {
            // the drain's own steps at every position of the start: close before the start task
            // is polled / status while pre_start is suspended / marker after the start, etc.
            let shapes: [&[&str]; 6] = [
                &["cast", "dbegin", "dstep", "enter", "dstep", "cast", "leave ok", "dstep", "dstep"],
                &["dbegin", "enter", "dstep", "cast", "dstep", "dstep", "dstep", "leave ok"],
                &["cast", "dbegin", "dstep", "dstep", "enter", "leave ok", "dstep", "dstep"],
                &["enter", "cast", "dbegin", "dstep", "dstep", "dstep", "drain", "dstep", "leave ok"],
                &["enter", "dbegin", "dstep", "leave ok", "cast", "dstep", "dstep", "dstep"],
                &["dbegin", "dstep", "dstep", "dstep", "poll ok", "dstep"],
            ];
            for f in shapes.iter() {
                let ops: Vec<String> = f.iter().map(|s| s.to_string()).collect();
                for linked in [false, true] {
                    for tl in [false, true] {
                        run_case(&mut log, &mut st, &ops, linked, tl, false).await;
                        if ops[0] == "enter" {
                            run_case(&mut log, &mut st, &ops, linked, tl, true).await;
                        }
                    }
                }
            }
        }
        if fine {
            // the start thread parked where `start` has no await point (flavour `thr`)
            let shapes: [&[&str]; 4] = [
                &["tbegin", "drain", "sstep", "sstep"],
                &["tbegin", "cast", "sstep", "drain", "sstep"],
                &["tbegin", "sstep", "cast", "drain", "cast", "sstep"],
                &["tbegin", "cast", "sstep", "cast", "sstep"],
            ];
            for f in shapes.iter() {
                for linked in [false, true] {
                    for tl in [false, true] {
                        let mut ops: Vec<String> = f.iter().map(|s| s.to_string()).collect();
                        if !linked {
                            // an unlinked start parks once only: its first `sstep` completes it
                            let i = ops.iter().position(|o| o == "sstep").unwrap();
                            ops.truncate(i + 1);
                        }
                        run_thr_case(&mut log, &mut st, &ops, linked, tl).await;
                    }
                }
            }
            for _ in 0..(cases / 4) {
                let (linked, tl) = (rng.chance(2, 3), rng.chance(1, 2));
                let ops = gen_thr_ops(&mut rng, linked);
                run_thr_case(&mut log, &mut st, &ops, linked, tl).await;
            }
        }
        for _ in 0..cases {
            let ni = rng.chance(1, 4);
            let mut ops = gen_ops(&mut rng, &mut st, ni);
            if fine && rng.chance(2, 3) {
                add_fine(&mut rng, &mut st, &mut ops, ni);
            }
            let linked = rng.chance(1, 2);
            let tl = rng.chance(1, 3);
            run_case(&mut log, &mut st, &ops, linked, tl, ni).await;
        }
    }
    st.add("lines", log.lines);
    st.write_json(&std::path::Path::new(&out).join("stats.json"));
    log.finish();
}
