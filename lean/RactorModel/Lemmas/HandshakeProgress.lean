import RactorModel.Lemmas.Handshake

/-! Progress of the two-node handshake: every step that does anything strictly decreases a
measure, a state that is not at rest always has a step that does something. -/

namespace Election

/-- what is left to do on one connection -/
def Link.mu (l : Link) : Nat :=
  (if l.openA then 3 else 0) + (if l.openB then 3 else 0) +
  (if l.openA && !l.authA then 1 else 0) + (if l.openB && !l.authB then 1 else 0)

def hsMu (w : List Link) : Nat := (w.map Link.mu).sum

/-- the step does something -/
def hsEnabled (o : Ordering) (w : List Link) : HOp → Bool
  | .authA a => pendingA w a
  | .authB b => pendingB w b
  | .preA a => pendingA w a && !(electA o (candA w a)).contains a
  | .preB b => pendingB w b && !(electB o (candB w b)).contains b
  | .seeA a => w.any (fun l => l.c.idA == a && !l.openB && l.openA)
  | .seeB b => w.any (fun l => l.c.idB == b && !l.openA && l.openB)

theorem sum_map_le {f : Link → Link} (w : List Link) (h : ∀ l ∈ w, (f l).mu ≤ l.mu) :
    hsMu (w.map f) ≤ hsMu w := by
  unfold hsMu
  induction w with
  | nil => simp
  | cons x t ih =>
    simp only [List.map_cons, List.sum_cons]
    have := h x (by simp)
    have := ih (fun l hl => h l (by simp [hl]))
    omega

theorem sum_map_lt {f : Link → Link} (w : List Link) (h : ∀ l ∈ w, (f l).mu ≤ l.mu)
    (hs : ∃ l ∈ w, (f l).mu < l.mu) : hsMu (w.map f) < hsMu w := by
  induction w with
  | nil => obtain ⟨l, hl, _⟩ := hs; simp at hl
  | cons x t ih =>
    obtain ⟨l, hl, hlt⟩ := hs
    have hx := h x (by simp)
    have ht : hsMu (t.map f) ≤ hsMu t := sum_map_le t (fun l hl => h l (by simp [hl]))
    unfold hsMu at *
    simp only [List.map_cons, List.sum_cons]
    rcases List.mem_cons.mp hl with rfl | hl'
    · omega
    · have := ih (fun l hl => h l (by simp [hl])) ⟨l, hl', hlt⟩
      omega

theorem mu_mkA_le (a : Nat) (l : Link) : (mkA a l).mu ≤ l.mu := by
  unfold mkA Link.mu; split <;> (cases l.openA <;> cases l.authA <;> simp)
theorem mu_mkB_le (b : Nat) (l : Link) : (mkB b l).mu ≤ l.mu := by
  unfold mkB Link.mu; split <;> (cases l.openB <;> cases l.authB <;> simp)
theorem mu_clA_le (el : List Nat) (l : Link) : (clA el l).mu ≤ l.mu := by
  unfold clA Link.mu; split <;> (cases l.openA <;> cases l.authA <;> simp) <;> omega
theorem mu_clB_le (el : List Nat) (l : Link) : (clB el l).mu ≤ l.mu := by
  unfold clB Link.mu; split <;> (cases l.openB <;> cases l.authB <;> simp) <;> omega
theorem mu_dropA_le (a : Nat) (l : Link) : (dropA a l).mu ≤ l.mu := by
  unfold dropA Link.mu; split <;> (cases l.openA <;> cases l.authA <;> simp) <;> omega
theorem mu_dropB_le (b : Nat) (l : Link) : (dropB b l).mu ≤ l.mu := by
  unfold dropB Link.mu; split <;> (cases l.openB <;> cases l.authB <;> simp) <;> omega
theorem mu_seeAf_le (a : Nat) (l : Link) : (seeAf a l).mu ≤ l.mu := by
  unfold seeAf Link.mu; split <;> (cases l.openA <;> cases l.authA <;> simp) <;> omega
theorem mu_seeBf_le (b : Nat) (l : Link) : (seeBf b l).mu ≤ l.mu := by
  unfold seeBf Link.mu; split <;> (cases l.openB <;> cases l.authB <;> simp) <;> omega


theorem stepAuthA_eq (o : Ordering) (w : List Link) (a : Nat) (h : pendingA w a = true) :
    stepAuthA o w a = w.map (fun l => clA (electA o (activeA (markA w a))) (mkA a l)) := by
  unfold stepAuthA; rw [if_pos h, closeLosersA_eq, markA_eq, List.map_map]; rfl
theorem stepAuthB_eq (o : Ordering) (w : List Link) (b : Nat) (h : pendingB w b = true) :
    stepAuthB o w b = w.map (fun l => clB (electB o (activeB (markB w b))) (mkB b l)) := by
  unfold stepAuthB; rw [if_pos h, closeLosersB_eq, markB_eq, List.map_map]; rfl

theorem map_eq_self {f : Link → Link} (w : List Link) (h : ∀ l ∈ w, f l = l) : w.map f = w := by
  induction w with
  | nil => rfl
  | cons x t ih => simp only [List.map_cons, h x (by simp), ih (fun l hl => h l (by simp [hl]))]

/-- a step that is not enabled leaves the state alone -/
theorem hsStep_of_not_enabled (o : Ordering) (w : List Link) (op : HOp) (h : hsEnabled o w op = false) :
    hsStep o w op = w := by
  cases op with
  | authA a => simp only [hsEnabled] at h; simp [hsStep, stepAuthA, h]
  | authB b => simp only [hsEnabled] at h; simp [hsStep, stepAuthB, h]
  | preA a =>
    simp only [hsEnabled] at h
    show stepPreA o w a = w
    unfold stepPreA; rw [if_neg (by rw [h]; simp)]
  | preB b =>
    simp only [hsEnabled] at h
    show stepPreB o w b = w
    unfold stepPreB; rw [if_neg (by rw [h]; simp)]
  | seeA a =>
    simp only [hsEnabled, List.any_eq_false] at h
    show w.map (seeAf a) = w
    apply map_eq_self
    intro l hl
    have := h l hl
    unfold seeAf
    split
    next hc =>
      have ho : l.openA = false := by
        cases hoa : l.openA
        · rfl
        · rw [hoa] at this; simp only [Bool.and_true] at this; exact absurd hc this
      cases l; simp_all
    next => rfl
  | seeB b =>
    simp only [hsEnabled, List.any_eq_false] at h
    show w.map (seeBf b) = w
    apply map_eq_self
    intro l hl
    have := h l hl
    unfold seeBf
    split
    next hc =>
      have ho : l.openB = false := by
        cases hob : l.openB
        · rfl
        · rw [hob] at this; simp only [Bool.and_true] at this; exact absurd hc this
      cases l; simp_all
    next => rfl

/-- an enabled step strictly decreases the measure -/
theorem hsStep_decreases (o : Ordering) (w : List Link) (op : HOp) (h : hsEnabled o w op = true) :
    hsMu (hsStep o w op) < hsMu w := by
  cases op with
  | authA a =>
    simp only [hsEnabled] at h
    show hsMu (stepAuthA o w a) < hsMu w
    rw [stepAuthA_eq o w a h]
    apply sum_map_lt
    · intro l _; exact Nat.le_trans (mu_clA_le _ _) (mu_mkA_le a l)
    · unfold pendingA at h; rw [List.any_eq_true] at h
      obtain ⟨l, hl, hc⟩ := h
      simp only [Bool.and_eq_true, Bool.not_eq_true'] at hc
      refine ⟨l, hl, Nat.lt_of_le_of_lt (mu_clA_le _ _) ?_⟩
      unfold mkA Link.mu; rw [if_pos hc.1.1]; simp [hc.1.2, hc.2]
  | authB b =>
    simp only [hsEnabled] at h
    show hsMu (stepAuthB o w b) < hsMu w
    rw [stepAuthB_eq o w b h]
    apply sum_map_lt
    · intro l _; exact Nat.le_trans (mu_clB_le _ _) (mu_mkB_le b l)
    · unfold pendingB at h; rw [List.any_eq_true] at h
      obtain ⟨l, hl, hc⟩ := h
      simp only [Bool.and_eq_true, Bool.not_eq_true'] at hc
      refine ⟨l, hl, Nat.lt_of_le_of_lt (mu_clB_le _ _) ?_⟩
      unfold mkB Link.mu; rw [if_pos hc.1.1]; simp [hc.1.2, hc.2]
  | preA a =>
    simp only [hsEnabled] at h
    show hsMu (stepPreA o w a) < hsMu w
    unfold stepPreA; rw [if_pos h]
    show hsMu (w.map (dropA a)) < hsMu w
    apply sum_map_lt
    · intro l _; exact mu_dropA_le a l
    · simp only [Bool.and_eq_true] at h
      have hp := h.1
      unfold pendingA at hp; rw [List.any_eq_true] at hp
      obtain ⟨l, hl, hc⟩ := hp
      simp only [Bool.and_eq_true, Bool.not_eq_true'] at hc
      refine ⟨l, hl, ?_⟩
      unfold dropA Link.mu; rw [if_pos hc.1.1]; simp [hc.1.2, hc.2]; omega
  | preB b =>
    simp only [hsEnabled] at h
    show hsMu (stepPreB o w b) < hsMu w
    unfold stepPreB; rw [if_pos h]
    show hsMu (w.map (dropB b)) < hsMu w
    apply sum_map_lt
    · intro l _; exact mu_dropB_le b l
    · simp only [Bool.and_eq_true] at h
      have hp := h.1
      unfold pendingB at hp; rw [List.any_eq_true] at hp
      obtain ⟨l, hl, hc⟩ := hp
      simp only [Bool.and_eq_true, Bool.not_eq_true'] at hc
      refine ⟨l, hl, ?_⟩
      unfold dropB Link.mu; rw [if_pos hc.1.1]; simp [hc.1.2, hc.2]; omega
  | seeA a =>
    simp only [hsEnabled, List.any_eq_true] at h
    show hsMu (w.map (seeAf a)) < hsMu w
    apply sum_map_lt
    · intro l _; exact mu_seeAf_le a l
    · obtain ⟨l, hl, hc⟩ := h
      simp only [Bool.and_eq_true, Bool.not_eq_true'] at hc
      refine ⟨l, hl, ?_⟩
      have h1 : (l.c.idA == a && !l.openB) = true := by simp [hc.1.1, hc.1.2]
      unfold seeAf Link.mu; rw [if_pos h1]
      cases l.authA <;> simp [hc.2, hc.1.2]
  | seeB b =>
    simp only [hsEnabled, List.any_eq_true] at h
    show hsMu (w.map (seeBf b)) < hsMu w
    apply sum_map_lt
    · intro l _; exact mu_seeBf_le b l
    · obtain ⟨l, hl, hc⟩ := h
      simp only [Bool.and_eq_true, Bool.not_eq_true'] at hc
      refine ⟨l, hl, ?_⟩
      have h1 : (l.c.idB == b && !l.openA) = true := by simp [hc.1.1, hc.1.2]
      unfold seeBf Link.mu; rw [if_pos h1]
      cases l.authB <;> simp [hc.2, hc.1.2]

/-- a state that is not at rest has an enabled step -/
theorem enabled_of_not_quiescent (o : Ordering) (w : List Link) (h : hsQuiescent w = false) :
    ∃ op, hsEnabled o w op = true := by
  unfold hsQuiescent at h
  rw [List.all_eq_false] at h
  obtain ⟨l, hl, hc⟩ := h
  cases hoa : l.openA <;> cases hob : l.openB
  · rw [hoa, hob] at hc; simp at hc
  · exact ⟨.seeB l.c.idB, by simp only [hsEnabled, List.any_eq_true]; exact ⟨l, hl, by simp [hoa, hob]⟩⟩
  · exact ⟨.seeA l.c.idA, by simp only [hsEnabled, List.any_eq_true]; exact ⟨l, hl, by simp [hoa, hob]⟩⟩
  · rw [hoa, hob] at hc
    cases haa : l.authA
    · exact ⟨.authA l.c.idA, by simp only [hsEnabled, pendingA, List.any_eq_true]; exact ⟨l, hl, by simp [hoa, haa]⟩⟩
    · cases hab : l.authB
      · exact ⟨.authB l.c.idB, by simp only [hsEnabled, pendingB, List.any_eq_true]; exact ⟨l, hl, by simp [hob, hab]⟩⟩
      · rw [haa, hab] at hc; simp at hc

/-- number of steps of a run that did something -/
def hsEffective (o : Ordering) : List Link → List HOp → Nat
  | _, [] => 0
  | w, op :: t => (if hsEnabled o w op then 1 else 0) + hsEffective o (hsStep o w op) t

theorem effective_bound (o : Ordering) (ops : List HOp) :
    ∀ w, hsEffective o w ops + hsMu (ops.foldl (hsStep o) w) ≤ hsMu w := by
  induction ops with
  | nil => intro w; simp [hsEffective]
  | cons op t ih =>
    intro w
    simp only [hsEffective, List.foldl_cons]
    have := ih (hsStep o w op)
    cases he : hsEnabled o w op
    · rw [hsStep_of_not_enabled o w op he] at this ⊢; simp; exact this
    · have := hsStep_decreases o w op he
      simp; omega

theorem hsMu_init (cs : List Conn) : hsMu (hsInit cs) = 8 * cs.length := by
  unfold hsMu hsInit
  induction cs with
  | nil => rfl
  | cons c t ih =>
    simp only [List.map_cons, List.sum_cons, List.length_cons] at ih ⊢
    rw [ih]; simp [Link.mu]; omega

end Election
