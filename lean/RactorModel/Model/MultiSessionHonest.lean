import RactorModel.Model.MultiSession

/-!
# MultiSessionHonest — honest peers AND an adversary on the same node (C17, round 4, wave 2)

`Model/MultiSession.lean` has ONE kind of peer: everything the node ever sent (`Node.seen`) may be
copied by the adversary, so a run that contains an honest peer (whose session legitimately
receives digests of the real cookie) lets the adversary copy THOSE — a threat model that is too
strong to say anything positive, which is why the only positive theorem there
(`no_relay_never_authenticated_partial`) is about runs without any honest peer.

THREAT MODEL of this file (explicit).  The sessions of the node are split by `adv : Nat → Bool`
(session index = order of opening, as in `Multi.step`):

* `adv k = false` — session `k` is with an HONEST peer, i.e. a party that knows the cookie. Nothing
  at all is assumed about its inputs (any frame, any digest, any order), and the number of honest
  sessions, their direction and their interleaving with everything else are arbitrary.
* `adv k = true`  — session `k` is terminated by the ADVERSARY, which does NOT know the cookie. It
  sees every frame the node sends on the sessions it terminates and can replay any of it, at any
  later time, on any of its sessions. It does NOT see (and hence cannot copy) the traffic of the
  honest peers' sessions: the adversary is an end point, not a wire-tapper (a wire-tapper that
  reads an honest handshake can replay nothing useful either only if challenges never repeat —
  a probabilistic statement about `rand`, not made here).  A digest the adversary sends is
  therefore either in its VIEW (`advView`: the digests the node emitted on adversary sessions so
  far, tagged with the session) or computed with a cookie of its own (`H cookie' c`).

The step function, `Node`, `Op` are those of `Model/MultiSession.lean`, unchanged.

Core Lean only.
-/

namespace Multi
open Auth Session

/-- the authentication state is the server-side machine (`is_server = true` at creation) -/
def _root_.Session.AuthSt.isSrv {D : Type} : AuthSt D → Bool
  | .server _ => true
  | .client _ => false

section
variable {C D : Type} [DecidableEq D] (H : C → Nat → D)

/-- What the adversary learns from one step: the digests the node put on the wire on a session the
adversary terminates (tagged with that session). Steps of honest sessions teach it nothing. -/
def advLearns (adv : Nat → Bool) : Op D → List (Effect D) → List (Nat × D)
  | .input k _ _, eff => if adv k then (eff.filterMap sentDigest).map (fun d => (k, d)) else []
  | _, _ => []

/-- The adversary's view after a run, starting from `view`. -/
def advView (adv : Nat → Bool) : Node C D → List (Nat × D) → List (Op D) → List (Nat × D)
  | _, view, [] => view
  | n, view, op :: rest =>
    advView adv (step H n op).1 (view ++ advLearns adv op (step H n op).2) rest

/-- Runs the adversary can produce: on ITS sessions a digest is one it has seen on one of its
sessions or one computed with its own cookie; inputs of honest sessions are unconstrained. -/
def advLegal (adv : Nat → Bool) (cookie' : C) : Node C D → List (Nat × D) → List (Op D) → Prop
  | _, _, [] => True
  | n, view, op :: rest =>
    (match op with
      | .input k _ i => adv k = true →
          ∀ d, digestOf i = some d → (∃ j, (j, d) ∈ view) ∨ ∃ c, d = H cookie' c
      | _ => True) ∧
    advLegal adv cookie' (step H n op).1 (view ++ advLearns adv op (step H n op).2) rest

end

/-- The classifier of finding F11: the input carries a digest that is in the adversary's view,
i.e. one the node itself emitted on one of the adversary's sessions. -/
def hasReflectedDigest {D : Type} [DecidableEq D] (view : List (Nat × D)) (i : In D) : Bool :=
  match digestOf i with
  | some d => view.any (fun p => p.2 == d)
  | none => false

/-- "The node never DIALS the adversary": every session of the adversary is inbound (server-side on
the node). `len` = number of sessions open before the first op (the next session index). -/
def advInbound {D : Type} (adv : Nat → Bool) : Nat → List (Op D) → Bool
  | _, [] => true
  | len, .open isServer _ _ _ _ :: rest => (!adv len || isServer) && advInbound adv (len + 1) rest
  | len, .input _ _ _ :: rest => advInbound adv len rest
  | len, .deauth _ :: rest => advInbound adv len rest

end Multi
