//! C13 / C14 / C15 correspondence harness (E-LTS at quiescent points): the REAL
//! `ractor::factory::Factory` actor on a paused `current_thread` runtime with gated workers,
//! a logging discard handler, acceptance ports, TTLs, logging lifecycle hooks, a leaky-bucket
//! rate limiter and a gated `WorkerCapacityController` (to hold the factory busy).
//!
//! usage: factory --seed S --cases N --out DIR [--replay-ops f1,f2,...] [--only-replay 1] [--maxops K]
//!
//! One fresh runtime (fresh virtual clock) and one fresh factory per case.  Times are ns
//! since the case's runtime start.  Every op line ends with `t=<t0>,<tq>,<te>`: executed at
//! t0, the three queries were sent at tq, observations collected at te (run to quiescence by
//! `sleep(1ms)` on the paused clock before tq and before te).
//!
//! ops (aid = actor number in build order; wid = worker slot):
//!   case r=<kp|q|sq|rr|cu> q=<def|prio> n=<workers> disc=<none|newest:L|oldest:L> dh=<0|1>
//!        rl=<none|refill:interval_ns:max:initial> hash=<v,v,..|-> cc=<0|1>
//!   dispatch <id> <key> <hash64> <ttl_ms|-> <acc 0|1>
//!   finish <aid> <ok|err|panic>      kill <aid>
//!   resize <n>                       settings <disc> <n|->        drain
//!   advance <ms>                     block          release <n>       nop
//!   ping <limit>                     (FactoryMessage::DoPings; `dyn=1` cases: the DynamicDiscardController answers <limit>)
//!   sethandler <hid|none>   (UpdateSettings: a NEW discard handler with identity hid, or none)
//! observation:
//!   build=[wid.aid,..] start=[aid:id:key,..] disc=[Reason:id@hid,..] hook=[..] acc=[id:a|b|x,..]
//!   up=<0|1> q=<n|x> act=<n|x> cap=<n|x> live=[aid,..] wq=<[wid:len,..] after the step's last route_message | ->

use hutil::{Args, Log, Rng, Stats};
use ractor::factory::queues::{DefaultQueue, PriorityManager, PriorityQueue, Queue, StandardPriority};
use ractor::factory::ratelim::{LeakyBucketRateLimiter, RateLimitedRouter, RateLimiter};
use ractor::factory::routing::{
    CustomHashFunction, CustomRouting, KeyPersistentRouting, QueuerRouting, RoundRobinRouting, Router,
    StickyQueuerRouting,
};
use ractor::factory::{
    DiscardHandler, DiscardMode, DiscardReason, DiscardSettings, DynamicDiscardController, Factory, FactoryArguments, FactoryLifecycleHooks,
    FactoryMessage, Job, JobOptions, UpdateSettingsRequest, Worker, WorkerBuilder, WorkerCapacityController, WorkerId,
};
use ractor::rpc::CallResult;
use ractor::{Actor, ActorProcessingErr, ActorRef, ActorStatus, RpcReplyPort};
use std::collections::{BTreeMap, HashMap};
use std::hash::{Hash, Hasher};
use std::sync::{Arc, Mutex};
use std::time::Duration;
use tokio::sync::oneshot;
use tokio::time::Instant;

type K = u64;
type M = u64;
type FMsg = FactoryMessage<K, M>;

#[derive(Clone, Copy, Debug)]
enum Outcome {
    Ok,
    Err,
    Panic,
}

#[derive(Default)]
struct Shared {
    builds: Vec<String>,
    starts: Vec<(u64, u64, u64)>, // aid, id, key
    discs: Vec<String>,
    hooks: Vec<String>,
    gates: HashMap<u64, oneshot::Sender<Outcome>>,
    running: BTreeMap<u64, (u64, u64)>, // aid -> (id, key)
    next_aid: u64,
    cc_armed: bool,
    cc_entered: bool,
    cc_gate: Option<oneshot::Sender<usize>>,
    /// worker queue lengths right after the last `route_message` of this step
    wq: Option<Vec<(usize, usize)>>,
    /// what the `DynamicDiscardController` of this case answers next (set by `ping <limit>` and by every settings update)
    dyn_next: usize,
}
type Sh = Arc<Mutex<Shared>>;

// ---------------------------------------------------------------- worker
struct GW {
    aid: u64,
    sh: Sh,
}

impl Worker for GW {
    type Key = K;
    type Message = M;
    type Arguments = ();
    type State = ();

    async fn pre_start(&self, _wid: WorkerId, _f: &ActorRef<FMsg>, _a: ()) -> Result<(), ActorProcessingErr> {
        Ok(())
    }

    async fn handle(&self, _wid: WorkerId, _f: &ActorRef<FMsg>, job: Job<K, M>, _s: &mut ()) -> Result<K, ActorProcessingErr> {
        let (tx, rx) = oneshot::channel();
        {
            let mut s = self.sh.lock().unwrap();
            s.starts.push((self.aid, job.msg, job.key));
            s.gates.insert(self.aid, tx);
            s.running.insert(self.aid, (job.msg, job.key));
        }
        let out = rx.await;
        self.sh.lock().unwrap().running.remove(&self.aid);
        match out {
            Ok(Outcome::Ok) => Ok(job.key),
            Ok(Outcome::Err) => Err("job failed".into()),
            Ok(Outcome::Panic) => panic!("job panicked"),
            Err(_) => std::future::pending().await,
        }
    }
}

struct GB {
    sh: Sh,
}
impl WorkerBuilder<GW, ()> for GB {
    fn build(&mut self, wid: WorkerId) -> (GW, ()) {
        let mut s = self.sh.lock().unwrap();
        let aid = s.next_aid;
        s.next_aid += 1;
        s.builds.push(format!("{wid}.{aid}"));
        (GW { aid, sh: self.sh.clone() }, ())
    }
}

// ---------------------------------------------------------------- plug-ins
/// A discard handler with an identity: handler 0 is the one the factory starts with, every
/// `sethandler` op installs a new one through `UpdateSettings`. Each call records who was called.
struct Disc {
    sh: Sh,
    hid: u64,
}
impl DiscardHandler<K, M> for Disc {
    fn discard(&self, reason: DiscardReason, job: &mut Job<K, M>) {
        self.sh.lock().unwrap().discs.push(format!("{reason:?}:{}@{}", job.msg, self.hid));
    }
}

struct Hooks {
    sh: Sh,
}
impl FactoryLifecycleHooks<K, M> for Hooks {
    fn on_factory_started(&self, _f: ActorRef<FMsg>) -> futures_like::BoxFut<'_> {
        self.sh.lock().unwrap().hooks.push("started".into());
        Box::pin(async { Ok(()) })
    }
    fn on_factory_stopped(&self) -> futures_like::BoxFut<'_> {
        self.sh.lock().unwrap().hooks.push("stopped".into());
        Box::pin(async { Ok(()) })
    }
    fn on_factory_draining(&self, _f: ActorRef<FMsg>) -> futures_like::BoxFut<'_> {
        self.sh.lock().unwrap().hooks.push("draining".into());
        Box::pin(async { Ok(()) })
    }
}
mod futures_like {
    pub type BoxFut<'a> =
        std::pin::Pin<Box<dyn std::future::Future<Output = Result<(), ractor::ActorProcessingErr>> + Send + 'a>>;
}

struct CC {
    sh: Sh,
}
impl WorkerCapacityController for CC {
    fn get_pool_size(&mut self, current: usize) -> std::pin::Pin<Box<dyn std::future::Future<Output = usize> + Send + '_>> {
        let rx = {
            let mut s = self.sh.lock().unwrap();
            if s.cc_armed {
                s.cc_armed = false;
                s.cc_entered = true;
                let (tx, rx) = oneshot::channel();
                s.cc_gate = Some(tx);
                Some(rx)
            } else {
                None
            }
        };
        Box::pin(async move {
            match rx {
                Some(rx) => rx.await.unwrap_or(current),
                None => current,
            }
        })
    }
}

enum Lim {
    Off,
    On(LeakyBucketRateLimiter),
}
impl RateLimiter for Lim {
    fn check(&mut self) -> bool {
        match self {
            Lim::Off => true,
            Lim::On(l) => l.check(),
        }
    }
    fn bump(&mut self) {
        if let Lim::On(l) = self {
            l.bump()
        }
    }
}

/// Transparent router wrapper: records every worker's queue length right after each
/// `route_message` (the point "after a dispatch has been processed").
struct Spy<R> {
    inner: R,
    sh: Sh,
}
impl<R: Router<K, M>> Router<K, M> for Spy<R> {
    fn route_message(
        &mut self,
        job: Job<K, M>,
        pool_size: usize,
        worker_hint: Option<WorkerId>,
        worker_pool: &mut HashMap<WorkerId, ractor::factory::WorkerProperties<K, M>>,
    ) -> Result<ractor::factory::routing::RouteResult<K, M>, ActorProcessingErr> {
        let r = self.inner.route_message(job, pool_size, worker_hint, worker_pool);
        let mut v: Vec<(usize, usize)> = worker_pool.iter().map(|(w, p)| (*w, p.verif_queued_job_count())).collect();
        v.sort();
        self.sh.lock().unwrap().wq = Some(v);
        r
    }
    fn choose_target_worker(
        &mut self,
        job: &Job<K, M>,
        pool_size: usize,
        worker_hint: Option<WorkerId>,
        worker_pool: &HashMap<WorkerId, ractor::factory::WorkerProperties<K, M>>,
    ) -> Option<WorkerId> {
        self.inner.choose_target_worker(job, pool_size, worker_hint, worker_pool)
    }
    fn is_factory_queueing(&self) -> bool {
        self.inner.is_factory_queueing()
    }
    fn on_worker_availability_change(&mut self, wid: WorkerId, available: bool) {
        self.inner.on_worker_availability_change(wid, available)
    }
}

struct TableHash(Vec<usize>);
impl CustomHashFunction<K> for TableHash {
    fn hash(&self, key: &K, worker_count: usize) -> usize {
        if self.0.is_empty() {
            return *key as usize;
        }
        self.0[((*key as usize).wrapping_add(worker_count)) % self.0.len()]
    }
}

/// priority = key % 7 (5, 6 -> default Normal), non-discardable iff key % 4 == 3
struct PM;
impl PriorityManager<K, StandardPriority> for PM {
    fn is_discardable(&self, job: &K) -> bool {
        job % 4 != 3
    }
    fn get_priority(&self, job: &K) -> Option<StandardPriority> {
        let r = (job % 7) as usize;
        if r == 6 {
            None
        } else {
            Some(StandardPriority::from(r))
        }
    }
}
type PQ = PriorityQueue<K, M, StandardPriority, PM, 5>;

fn default_hash(key: K) -> u64 {
    let mut dh = std::collections::hash_map::DefaultHasher::new();
    key.hash(&mut dh);
    dh.finish()
}

// ---------------------------------------------------------------- case config
#[derive(Clone, Debug)]
struct CaseCfg {
    router: String,
    queue: String,
    n: usize,
    disc: String,
    dh: bool,
    rl: String,
    hash: Vec<usize>,
    cc: bool,
    /// `DiscardSettings::Dynamic` (limit set by the controller at every `DoPings`) instead of `Static`
    dynamic: bool,
}

impl CaseCfg {
    fn line(&self) -> String {
        let h = if self.hash.is_empty() { "-".to_string() } else { self.hash.iter().map(|v| v.to_string()).collect::<Vec<_>>().join(",") };
        format!(
            "case r={} q={} n={} disc={} dh={} rl={} hash={} cc={} dyn={}",
            self.router, self.queue, self.n, self.disc, self.dh as u8, self.rl, h, self.cc as u8, self.dynamic as u8
        )
    }
    fn parse(line: &str) -> Option<CaseCfg> {
        let mut c = CaseCfg { router: "q".into(), queue: "def".into(), n: 1, disc: "none".into(), dh: true, rl: "none".into(), hash: vec![], cc: false, dynamic: false };
        let mut it = line.split_whitespace();
        if it.next()? != "case" {
            return None;
        }
        for kv in it {
            let (k, v) = kv.split_once('=')?;
            match k {
                "r" => c.router = v.into(),
                "q" => c.queue = v.into(),
                "n" => c.n = v.parse().ok()?,
                "disc" => c.disc = v.into(),
                "dh" => c.dh = v == "1",
                "rl" => c.rl = v.into(),
                "hash" => c.hash = if v == "-" { vec![] } else { v.split(',').filter_map(|x| x.parse().ok()).collect() },
                "cc" => c.cc = v == "1",
                "dyn" => c.dynamic = v == "1",
                "t" => {}
                _ => return None,
            }
        }
        Some(c)
    }
}

/// the case's `DynamicDiscardController`: answers whatever the script set last
struct DynCtl {
    sh: Sh,
}
impl DynamicDiscardController for DynCtl {
    fn compute(&mut self, _current_threshold: usize) -> std::pin::Pin<Box<dyn std::future::Future<Output = usize> + Send + '_>> {
        let v = self.sh.lock().unwrap().dyn_next;
        Box::pin(async move { v })
    }
}

fn parse_disc(s: &str, dynamic: bool, sh: &Sh) -> DiscardSettings {
    let (limit, mode) = match s.split_once(':') {
        Some(("newest", l)) => (l.parse().unwrap(), DiscardMode::Newest),
        Some(("oldest", l)) => (l.parse().unwrap(), DiscardMode::Oldest),
        _ => return DiscardSettings::None,
    };
    if dynamic {
        // a timer-driven `DoPings` must find the limit it already has
        sh.lock().unwrap().dyn_next = limit;
        DiscardSettings::Dynamic { limit, mode, updater: Box::new(DynCtl { sh: sh.clone() }) }
    } else {
        DiscardSettings::Static { limit, mode }
    }
}

// ---------------------------------------------------------------- the driver of one case
struct H {
    factory: ActorRef<FMsg>,
    fid: u64,
    sh: Sh,
    t0: Instant,
    acc: Vec<(u64, oneshot::Receiver<Option<Job<K, M>>>)>,
    blocked: bool,
    live: Vec<u64>,
    /// steps in which the factory was still up at quiescence and was stopped only by the observer's own
    /// query message (a draining factory whose last busy worker died: `handle_supervisor_evt` has no
    /// `is_drained()` check, the next message of any kind stops it)
    stop_by_query: u64,
    /// discard-handler calls with reason RateLimited
    rl_refused: u64,
    /// talk to the factory through the `factory_ref` convenience API (dispatch_job, adjust_worker_pool,
    /// update_settings, drain_requests, queue_depth, active_workers, available_capacity) instead of raw messages
    via_ref: bool,
    dynamic: bool,
    pings: u64,
}

impl H {
    fn now(&self) -> u128 {
        Instant::now().saturating_duration_since(self.t0).as_nanos()
    }
    /// `sleep(1ms)` on the paused clock returns when every other task is idle (the clock only
    /// auto-advances then); timers that fire at the very same instant (the factory's own
    /// `Calculate`) get their turn through the trailing yields.
    async fn quiesce(&self) {
        tokio::time::sleep(Duration::from_millis(1)).await;
        for _ in 0..40 {
            tokio::task::yield_now().await;
        }
    }

    async fn query(&self, which: u8) -> String {
        if self.via_ref {
            let r = match which {
                0 => self.factory.queue_depth(None).await,
                1 => self.factory.active_workers(None).await,
                _ => self.factory.available_capacity(None).await,
            };
            return match r {
                Ok(CallResult::Success(v)) => v.to_string(),
                _ => "x".into(),
            };
        }
        let r = match which {
            0 => self.factory.call(FactoryMessage::GetQueueDepth, None).await,
            1 => self.factory.call(FactoryMessage::GetNumActiveWorkers, None).await,
            _ => self.factory.call(FactoryMessage::GetAvailableCapacity, None).await,
        };
        match r {
            Ok(CallResult::Success(v)) => v.to_string(),
            _ => "x".into(),
        }
    }

    /// run to quiescence, query, run to quiescence, collect; returns (times, observation)
    async fn observe(&mut self, t_op: u128) -> (String, String) {
        self.quiesce().await;
        let up0 = self.factory.get_status() != ActorStatus::Stopped;
        let tq = self.now();
        let (q, act, cap) = if self.blocked {
            ("?".to_string(), "?".to_string(), "?".to_string())
        } else {
            let q = self.query(0).await;
            let a = self.query(1).await;
            let c = self.query(2).await;
            self.quiesce().await;
            (q, a, c)
        };
        let te = self.now();
        let mut s = self.sh.lock().unwrap();
        let builds = std::mem::take(&mut s.builds);
        let mut starts = std::mem::take(&mut s.starts);
        starts.sort();
        let discs = std::mem::take(&mut s.discs);
        self.rl_refused += discs.iter().filter(|d| d.starts_with("RateLimited")).count() as u64;
        let hooks = std::mem::take(&mut s.hooks);
        let wq = s.wq.take();
        let nbuilt = s.next_aid;
        drop(s);
        // acceptance replies
        let mut accs = vec![];
        let mut keep = vec![];
        for (id, mut rx) in std::mem::take(&mut self.acc) {
            match rx.try_recv() {
                Ok(None) => accs.push(format!("{id}:a")),
                Ok(Some(_)) => accs.push(format!("{id}:b")),
                Err(oneshot::error::TryRecvError::Closed) => accs.push(format!("{id}:x")),
                Err(oneshot::error::TryRecvError::Empty) => keep.push((id, rx)),
            }
        }
        self.acc = keep;
        // live workers = children of the factory actor
        let mut live: Vec<u64> = vec![];
        let mut mapfail = false;
        for c in self.factory.get_cell().get_children() {
            let pid = c.get_id().pid();
            if pid > self.fid && pid <= self.fid + nbuilt {
                live.push(pid - self.fid - 1);
            } else {
                mapfail = true;
            }
        }
        live.sort();
        self.live = live.clone();
        let up = if self.factory.get_status() == ActorStatus::Stopped { 0 } else { 1 };
        if up0 && up == 0 && !self.blocked {
            self.stop_by_query += 1;
        }
        let j = |v: &[String]| v.join(",");
        let obs = format!(
            "build=[{}] start=[{}] disc=[{}] hook=[{}] acc=[{}] up={} q={} act={} cap={} live=[{}] wq={}{}",
            j(&builds),
            j(&starts.iter().map(|(a, i, k)| format!("{a}:{i}:{k}")).collect::<Vec<_>>()),
            j(&discs),
            j(&hooks),
            j(&accs),
            up,
            q,
            act,
            cap,
            j(&live.iter().map(|v| v.to_string()).collect::<Vec<_>>()),
            match wq {
                Some(v) => format!("[{}]", j(&v.iter().map(|(w, l)| format!("{w}:{l}")).collect::<Vec<_>>())),
                None => "-".to_string(),
            },
            if mapfail { " MAPFAIL" } else { "" }
        );
        (format!("t={t_op},{tq},{te}"), obs)
    }

    fn child(&self, aid: u64) -> Option<ractor::ActorCell> {
        self.factory.get_cell().get_children().into_iter().find(|c| c.get_id().pid() == self.fid + 1 + aid)
    }

    /// executes one op (without the `t=` suffix); returns (full op line, observation)
    async fn exec(&mut self, op: &str) -> (String, String) {
        let t_op = self.now();
        let w: Vec<&str> = op.split_whitespace().collect();
        let mut note = String::new();
        match w.as_slice() {
            ["dispatch", id, key, _h, ttl, acc] => {
                let id: u64 = id.parse().unwrap();
                let key: u64 = key.parse().unwrap();
                let ttl = if *ttl == "-" { None } else { Some(Duration::from_millis(ttl.parse().unwrap())) };
                let mut job = Job::with_options(key, id, JobOptions::new(ttl));
                if *acc == "1" {
                    let (tx, rx) = oneshot::channel();
                    job.accepted = Some(RpcReplyPort::from(tx));
                    self.acc.push((id, rx));
                }
                let failed = if self.via_ref { self.factory.dispatch_job(job).is_err() } else { self.factory.cast(FactoryMessage::Dispatch(job)).is_err() };
                if failed {
                    note = " sendfail".into();
                    if *acc == "1" {
                        self.acc.pop();
                    }
                }
            }
            ["finish", aid, how] => {
                let aid: u64 = aid.parse().unwrap();
                let g = self.sh.lock().unwrap().gates.remove(&aid);
                let o = match *how {
                    "ok" => Outcome::Ok,
                    "err" => Outcome::Err,
                    _ => Outcome::Panic,
                };
                match g {
                    Some(tx) => {
                        if tx.send(o).is_err() {
                            note = " nogate".into();
                        }
                    }
                    None => note = " nogate".into(),
                }
            }
            ["kill", aid] => {
                let aid: u64 = aid.parse().unwrap();
                match self.child(aid) {
                    Some(c) => {
                        c.kill();
                        let mut s = self.sh.lock().unwrap();
                        s.gates.remove(&aid);
                        s.running.remove(&aid);
                    }
                    None => note = " nochild".into(),
                }
            }
            ["resize", n] => {
                let n: usize = n.parse().unwrap();
                let failed = if self.via_ref { self.factory.adjust_worker_pool(n).is_err() } else { self.factory.cast(FactoryMessage::AdjustWorkerPool(n)).is_err() };
                if failed {
                    note = " sendfail".into();
                }
            }
            ["settings", disc, n] => {
                let req = UpdateSettingsRequest::builder()
                    .maybe_discard_settings(if *disc == "-" { None } else { Some(parse_disc(disc, self.dynamic, &self.sh)) })
                    .maybe_worker_count(n.parse().ok())
                    .build();
                let failed = if self.via_ref { self.factory.update_settings(req).is_err() } else { self.factory.cast(FactoryMessage::UpdateSettings(req)).is_err() };
                if failed {
                    note = " sendfail".into();
                }
            }
            ["sethandler", h] => {
                let nh: Option<Arc<dyn DiscardHandler<K, M>>> = match h.parse::<u64>() {
                    Ok(hid) => Some(Arc::new(Disc { sh: self.sh.clone(), hid })),
                    Err(_) => None,
                };
                let req = UpdateSettingsRequest::builder().discard_handler(nh).build();
                let failed = if self.via_ref { self.factory.update_settings(req).is_err() } else { self.factory.cast(FactoryMessage::UpdateSettings(req)).is_err() };
                if failed {
                    note = " sendfail".into();
                }
            }
            ["ping", nl] => {
                // the factory's own ping tick (normally a 10 s timer): with `DiscardSettings::Dynamic` the controller is
                // asked for the new limit; the workers are pinged
                if self.blocked {
                    // what a ping does depends on the settings in force when the factory gets to it; behind a held-busy
                    // factory that is not known when the op is issued, so the op is not performed
                    note = " noping".into();
                } else {
                    self.sh.lock().unwrap().dyn_next = nl.parse().unwrap();
                    self.pings += 1;
                    if self.factory.cast(FactoryMessage::DoPings(ractor::concurrency::Instant::now())).is_err() {
                        note = " sendfail".into();
                    }
                }
            }
            ["drain"] => {
                let failed = if self.via_ref { self.factory.drain_requests().is_err() } else { self.factory.cast(FactoryMessage::DrainRequests).is_err() };
                if failed {
                    note = " sendfail".into();
                }
            }
            ["advance", ms] => {
                tokio::time::sleep(Duration::from_millis(ms.parse().unwrap())).await;
            }
            ["block"] => {
                self.sh.lock().unwrap().cc_armed = true;
                // wait for the next Calculate to enter the controller (at most one period)
                for _ in 0..105 {
                    if self.sh.lock().unwrap().cc_entered {
                        break;
                    }
                    self.quiesce().await;
                }
                if self.sh.lock().unwrap().cc_entered {
                    self.blocked = true;
                } else {
                    self.sh.lock().unwrap().cc_armed = false;
                    note = " noblock".into();
                }
            }
            ["release", n] => {
                let g = {
                    let mut s = self.sh.lock().unwrap();
                    s.cc_entered = false;
                    s.cc_gate.take()
                };
                match g {
                    Some(tx) => {
                        let _ = tx.send(n.parse().unwrap());
                    }
                    None => note = " nogate".into(),
                }
                self.blocked = false;
            }
            ["nop"] => {}
            _ => note = " badop".into(),
        }
        let (times, obs) = self.observe(t_op).await;
        (format!("{op} {times}"), format!("{obs}{note}"))
    }
}

enum Script {
    Fixed(Vec<String>),
    Random(Rng, usize),
}

async fn run_case<R, Q>(cfg: CaseCfg, router: R, queue: Q, script: Script, out: Arc<Mutex<Vec<(String, String)>>>, st: Arc<Mutex<Stats>>)
where
    R: Router<K, M>,
    Q: Queue<K, M>,
{
    let t0 = Instant::now();
    let rname = cfg.router.clone();
    let via_ref = cfg.line().bytes().fold(0u32, |a, b| a.wrapping_mul(31).wrapping_add(b as u32)) % 2 == 0;
    let sh: Sh = Arc::new(Mutex::new(Shared::default()));
    let lim = match cfg.rl.as_str() {
        "none" => Lim::Off,
        s => {
            let p: Vec<u128> = s.split(':').map(|x| x.parse().unwrap()).collect();
            Lim::On(
                LeakyBucketRateLimiter::builder()
                    .refill(p[0] as usize)
                    .interval(Duration::new((p[1] / 1_000_000_000) as u64, (p[1] % 1_000_000_000) as u32))
                    .max(p[2] as usize)
                    .initial(p[3] as usize)
                    .build(),
            )
        }
    };
    let args = FactoryArguments::builder()
        .num_initial_workers(cfg.n)
        .queue(queue)
        .router(Spy { inner: RateLimitedRouter::builder().router(router).rate_limiter(lim).build(), sh: sh.clone() })
        .worker_builder(Box::new(GB { sh: sh.clone() }))
        .maybe_discard_handler(if cfg.dh { Some(Arc::new(Disc { sh: sh.clone(), hid: 0 }) as Arc<dyn DiscardHandler<K, M>>) } else { None })
        .discard_settings(parse_disc(&cfg.disc, cfg.dynamic, &sh))
        .lifecycle_hooks(Box::new(Hooks { sh: sh.clone() }))
        .maybe_capacity_controller(if cfg.cc { Some(Box::new(CC { sh: sh.clone() }) as Box<dyn WorkerCapacityController>) } else { None })
        .build();
    let def = Factory::<K, M, (), GW, Spy<RateLimitedRouter<R, Lim>>, Q>::default();
    let (factory, _handle) = Actor::spawn(None, def, args).await.expect("factory spawn");
    let fid = factory.get_id().pid();
    let mut h = H { factory, fid, sh: sh.clone(), t0, acc: vec![], blocked: false, live: vec![], stop_by_query: 0, rl_refused: 0, via_ref, dynamic: cfg.dynamic, pings: 0 };
    // half a millisecond off the grid of the factory's own timers
    tokio::time::sleep(Duration::from_micros(500)).await;
    let (times, obs) = h.observe(0).await;
    out.lock().unwrap().push((format!("{} {times}", cfg.line()), obs));
    match script {
        Script::Fixed(ops) => {
            for op in ops {
                let r = h.exec(&op).await;
                out.lock().unwrap().push(r);
            }
        }
        Script::Random(mut rng, maxops) => {
            let mut next_id = 1u64;
            let nops = rng.range(maxops as u64 / 3, maxops as u64);
            let nkeys = *rng.pick(&[1u64, 2, 3, 5, 8, 40]);
            let mut drained = false;
            let mut size = cfg.n;
            let mut next_hid = 1u64;
            // directed openings (then the random walk continues from there)
            let profile = rng.below(10);
            let mut opening: Vec<String> = vec![];
            if profile == 7 {
                // jobs parked behind a busy worker / in the queue with a short TTL, the discard handler
                // replaced meanwhile, then time passes and the worker finishes
                let key = rng.below(nkeys);
                for _ in 0..rng.range(1, 3) {
                    opening.push(gen_dispatch_with(&mut next_id, key, "-", 0));
                }
                if rng.chance(1, 2) {
                    opening.push(format!("sethandler {next_hid}"));
                    next_hid += 1;
                }
                for _ in 0..rng.range(1, 4) {
                    let k = if rng.chance(3, 4) { key } else { rng.below(nkeys) };
                    opening.push(gen_dispatch_with(&mut next_id, k, *rng.pick(&["1", "3", "5", "-"]), 0));
                }
                opening.push(format!("sethandler {next_hid}"));
                next_hid += 1;
                opening.push(format!("advance {}", rng.pick(&[2u64, 10, 120])));
            } else if profile == 8 {
                // a deep backlog, then the limit is lowered, then more jobs arrive
                for _ in 0..(cfg.n as u64 + rng.range(3, 8)) {
                    let k = rng.below(nkeys);
                    opening.push(gen_dispatch_with(&mut next_id, k, "-", 0));
                }
                opening.push(format!("settings {}:{} -", rng.pick(&["oldest", "oldest", "newest"]), rng.pick(&[0u64, 1, 2])));
                for _ in 0..rng.range(1, 3) {
                    let k = rng.below(nkeys);
                    opening.push(gen_dispatch_with(&mut next_id, k, "-", 0));
                }
            }
            if cfg.n == 0 && profile < 7 && rng.chance(1, 2) {
                // an empty pool: the jobs wait in the factory queue (whatever the router), then the pool gets
                // its first workers and the backlog is flushed through the router
                for _ in 0..rng.range(2, 9) {
                    let k = rng.below(nkeys.max(4));
                    opening.push(gen_dispatch_with(&mut next_id, k, "-", 0));
                }
                size = rng.range(2, 4) as usize;
                opening.push(format!("resize {size}"));
                st.lock().unwrap().bump("opening_backlog_then_first_workers");
            }
            if cfg.cc && cfg.n >= 2 && (cfg.router == "sq" || cfg.router == "q") && profile < 7 && rng.chance(1, 3) {
                // every worker busy, a backlog with repeated keys, two workers finish (sticky routing then leaves one
                // of them idle next to the backlog), the factory is held busy, an idle worker is killed, the release
                // grows the pool: the flush hands a job to the dead idle worker
                if cfg.disc != "none" {
                    opening.push("settings none -".into());
                }
                for w in 0..cfg.n as u64 {
                    opening.push(gen_dispatch_with(&mut next_id, 100 + w, "-", 0));
                }
                let (ka, kb) = (rng.below(nkeys.max(3)), rng.below(nkeys.max(3)) + 50);
                for k in [ka, ka, kb, kb] {
                    opening.push(gen_dispatch_with(&mut next_id, k, "-", 0));
                }
                opening.push("finish 0 ok".into());
                opening.push("finish 1 ok".into());
                opening.push("block".into());
                opening.push(format!("kill {}", rng.pick(&[0u64, 1, 1])));
                size = cfg.n + 1;
                opening.push(format!("release {size}"));
                st.lock().unwrap().bump("opening_kill_idle_worker_while_busy");
            }
            let first_disc = cfg.disc.clone();
            for op in opening {
                // a deep backlog needs room: lift the limit first
                if profile == 8 && first_disc != "none" && op.starts_with("dispatch 1 ") {
                    let r = h.exec("settings none -").await;
                    out.lock().unwrap().push(r);
                }
                st.lock().unwrap().bump(&format!("op_{}", op.split(' ').next().unwrap()));
                let r = h.exec(&op).await;
                out.lock().unwrap().push(r);
            }
            if profile == 9 {
                // a shrink retires high-index workers that are busy with a backlog (they stay in the pool,
                // flagged draining); the workers that remain go idle; then DrainRequests: the factory may
                // stop only after the retiring workers have worked off their queues
                if size < 2 {
                    size = rng.range(2, 4) as usize;
                    let r = h.exec(&format!("resize {size}")).await;
                    out.lock().unwrap().push(r);
                }
                for _ in 0..(2 * size as u64 + rng.range(0, 4)) {
                    let k = rng.below(nkeys.max(size as u64 + 1));
                    let op = gen_dispatch_with(&mut next_id, k, "-", 0);
                    let r = h.exec(&op).await;
                    out.lock().unwrap().push(r);
                }
                let m = rng.range(1, size as u64 - 1) as usize;
                size = m;
                let r = h.exec(&format!("resize {m}")).await;
                out.lock().unwrap().push(r);
                // no worker has died yet: actor id = slot id
                for _ in 0..12 {
                    let low: Vec<u64> = sh.lock().unwrap().running.keys().copied().filter(|a| (*a as usize) < m).collect();
                    if low.is_empty() {
                        break;
                    }
                    let r = h.exec(&format!("finish {} ok", low[0])).await;
                    out.lock().unwrap().push(r);
                }
                drained = true;
                let r = h.exec("drain").await;
                out.lock().unwrap().push(r);
                for _ in 0..rng.range(1, 10) {
                    let run: Vec<u64> = sh.lock().unwrap().running.keys().copied().collect();
                    if run.is_empty() {
                        break;
                    }
                    let r = h.exec(&format!("finish {} ok", rng.pick(&run))).await;
                    out.lock().unwrap().push(r);
                }
            }
            let mut after_resize = false;
            for i in 0..nops {
                let running: Vec<u64> = sh.lock().unwrap().running.keys().copied().collect();
                let live = h.live.clone();
                let op = if !h.blocked && after_resize && !drained && rng.chance(1, 5) {
                    // DrainRequests right after a pool resize (workers may be flagged draining)
                    drained = true;
                    "drain".to_string()
                } else if h.blocked {
                    match rng.below(12) {
                        0..=3 => gen_dispatch(&mut rng, &mut next_id, nkeys),
                        4..=5 if !running.is_empty() => format!("finish {} {}", rng.pick(&running), rng.pick(&["ok", "ok", "ok", "err", "panic"])),
                        6 if !live.is_empty() => format!("kill {}", rng.pick(&live)),
                        // messages that queue up behind the busy handler
                        7 => {
                            let n = rng.range(0, 4) as usize;
                            if n != 0 {
                                size = n;
                            }
                            format!("resize {n}")
                        }
                        8 => format!("settings {} -", gen_disc(&mut rng)),
                        9 if rng.chance(1, 3) && !drained => {
                            drained = true;
                            "drain".to_string()
                        }
                        10 => format!("advance {}", rng.pick(&[1u64, 3, 50, 120])),
                        11 if cfg.dynamic => format!("ping {}", rng.pick(&[0u64, 1, 2, 3, 5])),
                        _ => {
                            let n = if rng.chance(1, 2) { size } else { rng.range(0, 4) as usize };
                            if n != 0 {
                                size = n;
                            }
                            format!("release {n}")
                        }
                    }
                } else {
                    match rng.below(100) {
                        0..=44 => gen_dispatch(&mut rng, &mut next_id, nkeys),
                        45..=69 if !running.is_empty() => {
                            format!("finish {} {}", rng.pick(&running), rng.pick(&["ok", "ok", "ok", "ok", "ok", "ok", "err", "panic"]))
                        }
                        70..=73 if !live.is_empty() => format!("kill {}", rng.pick(&live)),
                        74..=80 => {
                            let n = rng.range(0, 4) as usize;
                            if n != 0 {
                                size = n;
                            }
                            format!("resize {n}")
                        }
                        81..=85 => {
                            let d = gen_disc(&mut rng);
                            let n = if rng.chance(1, 4) { rng.range(1, 4).to_string() } else { "-".to_string() };
                            if let Ok(v) = n.parse::<usize>() {
                                size = v;
                            }
                            format!("settings {d} {n}")
                        }
                        86..=91 => format!("advance {}", rng.pick(&[1u64, 2, 3, 10, 48, 49, 50, 97, 100, 150, 250])),
                        92 => {
                            if rng.chance(1, 6) {
                                "sethandler none".to_string()
                            } else {
                                next_hid += 1;
                                format!("sethandler {}", next_hid - 1)
                            }
                        }
                        93..=94 if i > nops / 2 && !drained => {
                            drained = true;
                            "drain".to_string()
                        }
                        95..=97 if cfg.cc => "block".to_string(),
                        98 => format!("ping {}", rng.pick(&[0u64, 1, 2, 3, 5])),
                        _ => gen_dispatch(&mut rng, &mut next_id, nkeys),
                    }
                };
                st.lock().unwrap().bump(&format!("op_{}", op.split(' ').next().unwrap()));
                after_resize = op.starts_with("resize ") || (op.starts_with("settings ") && !op.ends_with(" -"));
                let r = h.exec(&op).await;
                out.lock().unwrap().push(r);
                if h.now() > 8_000_000_000 {
                    break; // stay below the 10 s ping period
                }
            }
            if h.blocked {
                let r = h.exec(&format!("release {size}")).await;
                out.lock().unwrap().push(r);
            }
        }
    }
    // tear down: stop the factory (post_stop stops the workers)
    st.lock().unwrap().add("drained_factory_stopped_only_by_next_message", h.stop_by_query);
    st.lock().unwrap().add("ratelimited_refusals", h.rl_refused);
    st.lock().unwrap().add("ping_ops", h.pings);
    if h.dynamic {
        st.lock().unwrap().add("ping_ops_with_dynamic_discard_settings", h.pings);
    }
    if h.via_ref {
        st.lock().unwrap().bump("case_via_factory_ref_api");
    }
    if rname == "q" {
        st.lock().unwrap().add("queuer_ratelimited_refusals", h.rl_refused);
    }
    h.factory.stop(None);
    for (_, tx) in h.sh.lock().unwrap().gates.drain() {
        let _ = tx.send(Outcome::Ok);
    }
    if let Some(tx) = h.sh.lock().unwrap().cc_gate.take() {
        let _ = tx.send(0);
    }
    for _ in 0..5 {
        h.quiesce().await;
    }
}

fn gen_dispatch(rng: &mut Rng, next_id: &mut u64, nkeys: u64) -> String {
    let id = *next_id;
    *next_id += 1;
    let key = rng.below(nkeys);
    let ttl = if rng.chance(1, 5) { rng.pick(&[0u64, 1, 3, 5, 50, 120, 300]).to_string() } else { "-".to_string() };
    let acc = rng.chance(1, 3) as u8;
    format!("dispatch {id} {key} {} {ttl} {acc}", default_hash(key))
}

fn gen_dispatch_with(next_id: &mut u64, key: u64, ttl: &str, acc: u8) -> String {
    let id = *next_id;
    *next_id += 1;
    format!("dispatch {id} {key} {} {ttl} {acc}", default_hash(key))
}

fn gen_disc(rng: &mut Rng) -> String {
    match rng.below(3) {
        0 => "none".into(),
        1 => format!("newest:{}", rng.pick(&[0u64, 1, 2, 3, 5])),
        _ => format!("oldest:{}", rng.pick(&[0u64, 1, 2, 3, 5])),
    }
}

fn gen_cfg(rng: &mut Rng, k: u64) -> CaseCfg {
    let routers = ["kp", "q", "sq", "rr", "cu"];
    let router = routers[(k % 5) as usize].to_string();
    let queue = if (k / 5) % 2 == 0 { "def" } else { "prio" }.to_string();
    let disc = match (k / 10) % 3 {
        0 => "none".to_string(),
        1 => format!("newest:{}", rng.pick(&[0u64, 1, 2, 3])),
        _ => format!("oldest:{}", rng.pick(&[0u64, 1, 2, 3])),
    };
    let rl = if rng.chance(1, 6) {
        format!("{}:{}:{}:{}", rng.pick(&[0u64, 1, 2]), rng.pick(&[0u64, 500_000, 5_000_000, 100_000_000]), rng.pick(&[1u64, 2, 5]), rng.pick(&[0u64, 1, 3]))
    } else {
        "none".to_string()
    };
    let hash = if router == "cu" {
        (0..rng.range(1, 6)).map(|_| *rng.pick(&[0usize, 1, 2, 3, 4, 5, 17, 1000, usize::MAX, usize::MAX - 1, usize::MAX / 2])).collect()
    } else {
        vec![]
    };
    // `Dynamic` settings only with the routers that queue at the factory: there the worker side of a ping (the pong
    // carries the new limit to the worker's own settings) has nothing to update
    let dynamic = (router == "q" || router == "sq") && disc != "none" && rng.chance(1, 2);
    CaseCfg { router, queue, n: *rng.pick(&[0usize, 1, 1, 2, 2, 3, 4]), disc, dh: !rng.chance(1, 8), rl, hash, cc: rng.chance(1, 3), dynamic }
}

fn run_one(cfg: CaseCfg, script: Script, st: Arc<Mutex<Stats>>) -> Vec<(String, String)> {
    let out = Arc::new(Mutex::new(vec![]));
    let out2 = out.clone();
    let cfg2 = cfg.clone();
    let res = std::panic::catch_unwind(std::panic::AssertUnwindSafe(move || {
        let rt = tokio::runtime::Builder::new_current_thread().enable_time().start_paused(true).build().unwrap();
        rt.block_on(async move {
            macro_rules! go {
                ($r:expr) => {
                    if cfg.queue == "prio" {
                        run_case(cfg.clone(), $r, PQ::new(PM), script, out2, st).await
                    } else {
                        run_case(cfg.clone(), $r, DefaultQueue::<K, M>::default(), script, out2, st).await
                    }
                };
            }
            match cfg.router.as_str() {
                "kp" => go!(KeyPersistentRouting::<K, M>::default()),
                "q" => go!(QueuerRouting::<K, M>::default()),
                "sq" => go!(StickyQueuerRouting::<K, M>::default()),
                "rr" => go!(RoundRobinRouting::<K, M>::default()),
                _ => go!(CustomRouting::<K, M, TableHash>::new(TableHash(cfg.hash.clone()))),
            }
        });
    }));
    let mut v = std::mem::take(&mut *out.lock().unwrap());
    if res.is_err() {
        if v.is_empty() {
            v.push((cfg2.line() + " t=0,0,0", "HARNESS-PANIC".into()));
        } else {
            v.push(("nop t=0,0,0".into(), "HARNESS-PANIC".into()));
        }
    }
    v
}

fn main() {
    let args = Args::parse();
    let seed = args.u64("seed", 1);
    let cases = if args.u64("only-replay", 0) == 1 { 0 } else { args.u64("cases", 100) };
    let maxops = args.u64("maxops", 40) as usize;
    let out = args.str("out", "/tmp/factory-out");
    let corpus = args.str("replay-ops", "");
    std::panic::set_hook(Box::new(|_| {}));
    let mut log = Log::create(std::path::Path::new(&out)).unwrap();
    let st = Arc::new(Mutex::new(Stats::default()));
    // corpus files first: `case …` line followed by op lines (any `t=` suffix is ignored)
    for f in corpus.split(',').filter(|s| !s.is_empty()) {
        let txt = std::fs::read_to_string(f).unwrap_or_default();
        let mut cur: Option<(CaseCfg, Vec<String>)> = None;
        let mut all = vec![];
        for line in txt.lines() {
            let line = line.trim();
            if line.is_empty() || line.starts_with('#') {
                continue;
            }
            let line = match line.rfind(" t=") {
                Some(i) => &line[..i],
                None => line,
            };
            if line.starts_with("case ") {
                if let Some(c) = cur.take() {
                    all.push(c);
                }
                cur = CaseCfg::parse(line).map(|c| (c, vec![]));
            } else if let Some(c) = cur.as_mut() {
                c.1.push(line.to_string());
            }
        }
        if let Some(c) = cur.take() {
            all.push(c);
        }
        for (cfg, ops) in all {
            st.lock().unwrap().bump("corpus_case");
            for (o, i) in run_one(cfg, Script::Fixed(ops), st.clone()) {
                log.rec(o, i);
            }
        }
    }
    let mut rng = Rng::new(seed);
    for k in 0..cases {
        let mut r = rng.fork();
        let cfg = gen_cfg(&mut r, k + seed);
        {
            let mut s = st.lock().unwrap();
            s.bump("case");
            if cfg.dynamic {
                s.bump("dynamic_discard_case");
            }
            s.bump(&format!("router_{}", cfg.router));
            s.bump(&format!("queue_{}", cfg.queue));
            s.bump(&format!("disc_{}", cfg.disc.split(':').next().unwrap()));
            if cfg.rl != "none" {
                s.bump("ratelimited_case");
            }
        }
        for (o, i) in run_one(cfg, Script::Random(r, maxops), st.clone()) {
            log.rec(o, i);
        }
    }
    st.lock().unwrap().write_json(&log.dir.join("stats.json"));
    log.finish();
}
