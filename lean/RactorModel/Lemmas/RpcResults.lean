import RactorModel.Lemmas.RpcGroups

/-! `multi_call` result vector (C09): the vector written through the threaded index (`results[slot] = r`,
in completion order) is, in every reachable state, the list of the members' results in REQUEST order. -/

namespace Rpc

def gq (g : Nat) (c : Call) : Bool := c.group == some g

/-- what the result vector shows of a member: nothing yet for a member still waiting — or never, when
its send failed (then `multi_call` returned `Err` and there is no vector) -/
def resView (c : Call) : Option Res := if failedRes c = true then none else c.res

def vecOf (l : List Call) (g : Nat) : List (Option Res) := (l.filter (gq g)).map resView
def slotsOf (l : List Call) (g : Nat) : List Nat := (l.filter (gq g)).map (·.slot)

structure MInv (s : S) : Prop where
  len : s.mresults.length = s.groups
  slots : ∀ g, slotsOf s.calls g = List.range (slotsOf s.calls g).length
  vec : ∀ (g : Nat) (v : List (Option Res)), s.mresults[g]? = some v → v = vecOf s.calls g

theorem minv_init : MInv init := by
  refine ⟨rfl, fun g => rfl, ?_⟩
  intro g v h; simp [init] at h

/-- filtering a group out of two lists that agree pointwise up to `R` -/
theorem filter_map_pointwise {β : Type} (R : Call → Call → Prop) (hR : ∀ c c', R c c' → c'.group = c.group)
    (φ : Call → β) (hφ : ∀ c c', R c c' → φ c' = φ c) (g : Nat) : ∀ (l l' : List Call), l'.length = l.length →
    (∀ (i : Nat) (c : Call), l[i]? = some c → ∃ c', l'[i]? = some c' ∧ R c c') →
    (l'.filter (gq g)).map φ = (l.filter (gq g)).map φ := by
  intro l
  induction l with
  | nil =>
    intro l' hlen _
    have : l' = [] := List.length_eq_zero_iff.mp hlen
    subst this; rfl
  | cons c rest ih =>
    intro l' hlen hpt
    cases l' with
    | nil => simp at hlen
    | cons c' rest' =>
      obtain ⟨c1, hc1, hr⟩ := hpt 0 c rfl
      simp only [List.getElem?_cons_zero, Option.some.injEq] at hc1
      subst hc1
      have hrest := ih rest' (by simpa using hlen) (fun i d hd => by
        have := hpt (i + 1) d (by simpa using hd)
        simpa using this)
      have hq : gq g c' = gq g c := by unfold gq; rw [hR c c' hr]
      simp only [List.filter_cons, hq]
      by_cases hqc : gq g c = true
      · simp only [hqc, if_true, List.map_cons, hφ c c' hr, hrest]
      · simp only [hqc, Bool.false_eq_true, if_false]; exact hrest

/-! ### every operation except `mcall` and `resolve` keeps group, slot and result of each record -/

def RelM (c c' : Call) : Prop := c'.group = c.group ∧ c'.slot = c.slot ∧ c'.res = c.res

theorem RelM.refl (c : Call) : RelM c c := ⟨rfl, rfl, rfl⟩

structure StepM (s s' : S) : Prop where
  ghost : s'.mresults = s.mresults ∧ s'.groups = s.groups
  le : s.calls.length ≤ s'.calls.length
  old : ∀ (i : Nat) (c : Call), s.calls[i]? = some c → ∃ c', s'.calls[i]? = some c' ∧ RelM c c'
  new : ∀ (i : Nat) (c' : Call), s.calls.length ≤ i → s'.calls[i]? = some c' → c'.group = none

theorem StepM.frame {s s' : S} (hc : s'.calls = s.calls) (hl : s'.mresults = s.mresults ∧ s'.groups = s.groups) :
    StepM s s' :=
  ⟨hl, by rw [hc]; exact Nat.le_refl _, fun i c hi => ⟨c, by rw [hc]; exact hi, RelM.refl c⟩,
   fun i c' hle hi => by
     rw [hc] at hi
     have := (List.getElem?_eq_some_iff.mp hi).1
     omega⟩

theorem StepM.refl (s : S) : StepM s s := StepM.frame rfl ⟨rfl, rfl⟩

theorem StepM.trans {s s' s'' : S} (h1 : StepM s s') (h2 : StepM s' s'') : StepM s s'' := by
  refine ⟨⟨h2.ghost.1.trans h1.ghost.1, h2.ghost.2.trans h1.ghost.2⟩, Nat.le_trans h1.le h2.le, ?_, ?_⟩
  · intro i c hi
    obtain ⟨c1, hc1, r1⟩ := h1.old i c hi
    obtain ⟨c2, hc2, r2⟩ := h2.old i c1 hc1
    exact ⟨c2, hc2, r2.1.trans r1.1, r2.2.1.trans r1.2.1, r2.2.2.trans r1.2.2⟩
  · intro i c'' hle hi
    by_cases hlt : i < s'.calls.length
    · obtain ⟨c2, hc2, r2⟩ := h2.old i s'.calls[i] (List.getElem?_eq_getElem hlt)
      rw [hi] at hc2; cases hc2
      rw [r2.1]
      exact h1.new i _ hle (List.getElem?_eq_getElem hlt)
    · exact h2.new i c'' (by omega) hi

theorem StepM.map {s s' : S} (f : Call → Call) (hc : s'.calls = s.calls.map f)
    (hl : s'.mresults = s.mresults ∧ s'.groups = s.groups) (hf : ∀ c, RelM c (f c)) : StepM s s' :=
  ⟨hl, by rw [hc, List.length_map]; exact Nat.le_refl _,
   fun i c hi => ⟨f c, by rw [hc, List.getElem?_map, hi]; rfl, hf c⟩,
   fun i c' hle hi => by
     rw [hc] at hi
     have := (List.getElem?_eq_some_iff.mp hi).1
     rw [List.length_map] at this; omega⟩

theorem StepM.setCall (s : S) (p : Nat) (l : Loc) : StepM s (setCall s p (fun c => { c with loc := l })) :=
  ⟨⟨rfl, rfl⟩, by simp [Rpc.setCall],
   fun i c hi => by
     refine ⟨if p = i then { c with loc := l } else c, ?_, ?_⟩
     · simp [Rpc.setCall, List.getElem?_modify, hi]
     · split
       · exact ⟨rfl, rfl, rfl⟩
       · exact RelM.refl c,
   fun i c' hle hi => by
     have := (List.getElem?_eq_some_iff.mp hi).1
     simp [Rpc.setCall] at this; omega⟩

theorem StepM.replyOn (s : S) (p v : Nat) : StepM s (replyOn s p v) :=
  (StepM.setCall s p (.replied v)).trans (StepM.frame rfl ⟨rfl, rfl⟩)

theorem StepM.append {s s' : S} (c : Call) (hc : s'.calls = s.calls ++ [c])
    (hl : s'.mresults = s.mresults ∧ s'.groups = s.groups) (hn : c.group = none) : StepM s s' :=
  ⟨hl, by rw [hc, List.length_append]; omega,
   fun i d hi => ⟨d, by rw [hc, List.getElem?_append_left (List.getElem?_eq_some_iff.mp hi).1]; exact hi, RelM.refl d⟩,
   fun i c' hle hi => by
     rw [hc, List.getElem?_append_right hle] at hi
     have := List.mem_of_getElem? hi
     simp only [List.mem_singleton] at this; subst this; exact hn⟩

theorem relM_dropPortsOf (a : Nat) (c : Call) : RelM c (dropPortsOf a c) := by
  unfold dropPortsOf; repeat (first | exact RelM.refl c | exact ⟨rfl, rfl, rfl⟩ | split)
theorem relM_toEvent (a : Nat) (c : Call) : RelM c (toEvent a c) := by
  unfold toEvent; repeat (first | exact RelM.refl c | exact ⟨rfl, rfl, rfl⟩ | split)
theorem relM_dropOrphan (U : List Sup) (c : Call) : RelM c (dropOrphan U c) := by
  unfold dropOrphan; repeat (first | exact RelM.refl c | exact ⟨rfl, rfl, rfl⟩ | split)

theorem stepM_exit (s : S) (a : Nat) : StepM s (exitActor s a) := by
  unfold exitActor
  cases s.actors[a]? with
  | none => exact StepM.refl s
  | some x =>
    simp only
    split
    · exact StepM.map (dropPortsOf a) rfl ⟨rfl, rfl⟩ (relM_dropPortsOf a)
    · exact StepM.refl s

theorem stepM_stop (s : S) (a : Nat) : StepM s (stopActor s a) := by
  unfold stopActor
  cases s.actors[a]? with
  | none => exact StepM.refl s
  | some x =>
    simp only
    split
    · cases x.sup with
      | none => exact stepM_exit s a
      | some u =>
        simp only
        split
        · have h1 : StepM s { s with sups := s.sups.modify u (fun y => { y with inbox := y.inbox ++ [a] }),
                                      calls := s.calls.map (toEvent a) } :=
            StepM.map (toEvent a) rfl ⟨rfl, rfl⟩ (relM_toEvent a)
          exact h1.trans (stepM_exit _ a)
        · exact stepM_exit s a
    · exact StepM.refl s

theorem stepM_sweep (s : S) (U : List Sup) : StepM s (sweep { s with sups := U }) :=
  StepM.map (dropOrphan U) rfl ⟨rfl, rfl⟩ (relM_dropOrphan U)

theorem stepM_killChildren (s : S) (u : Nat) : StepM s (killChildren s u) := by
  unfold killChildren
  generalize List.range s.actors.length = l
  suffices ∀ s0, StepM s s0 → StepM s (l.foldl (fun s a =>
      match s.actors[a]? with
      | some y => if y.sup == some u then exitActor s a else s
      | none => s) s0) from this s (StepM.refl s)
  induction l with
  | nil => intro s0 h; exact h
  | cons a rest ih =>
    intro s0 h
    simp only [List.foldl_cons]
    apply ih
    cases s0.actors[a]? with
    | none => exact h
    | some x =>
      simp only
      split
      · exact h.trans (stepM_exit s0 a)
      · exact h

theorem stepM_drainExits (s : S) : StepM s (drainExits s) := by
  unfold drainExits
  generalize List.range s.actors.length = l
  suffices ∀ s0, StepM s s0 → StepM s (l.foldl (fun s a =>
      match s.actors[a]? with
      | some x => if x.alive && x.draining && x.mailbox.isEmpty then stopActor s a else s
      | none => s) s0) from this s (StepM.refl s)
  induction l with
  | nil => intro s0 h; exact h
  | cons a rest ih =>
    intro s0 h
    simp only [List.foldl_cons]
    apply ih
    cases s0.actors[a]? with
    | none => exact h
    | some x =>
      simp only
      split
      · exact h.trans (stepM_stop s0 a)
      · exact h

theorem stepM_sendCall_none (s : S) (a : Nat) (t f : Option Nat) : StepM s (sendCall s a t none f).1 := by
  unfold sendCall
  simp only
  split
  · exact StepM.append _ rfl ⟨rfl, rfl⟩ rfl
  · exact StepM.append _ rfl ⟨rfl, rfl⟩ rfl

theorem stepM_handle (s : S) (a : Nat) (act : Act) : StepM s (handleCore s a act) := by
  unfold handleCore
  cases s.actors[a]? with
  | none => exact StepM.refl s
  | some x =>
    simp only
    split
    · exact StepM.refl s
    · cases x.mailbox with
      | nil => simp only; split; exact stepM_stop s a; exact StepM.refl s
      | cons it rest =>
        cases it with
        | fwd v => exact StepM.frame rfl ⟨rfl, rfl⟩
        | call p =>
          simp only
          have h1 : StepM s (setActor s a (fun y => { y with mailbox := y.mailbox.tail })) := StepM.frame rfl ⟨rfl, rfl⟩
          unfold applyAct
          cases act with
          | reply v => exact h1.trans (StepM.replyOn _ p v)
          | drop => exact h1.trans (StepM.setCall _ p _)
          | keep => exact h1.trans (StepM.setCall _ p _)
          | detach => exact h1.trans (StepM.setCall _ p _)

theorem stepM_later (s : S) (p : Nat) (act : Act) : StepM s (stepCore s (.later p act)) := by
  simp only [stepCore]
  cases s.calls[p]? with
  | none => exact StepM.refl s
  | some c =>
    simp only
    cases c.loc <;> cases act <;> simp only <;> first
      | exact StepM.refl s
      | exact StepM.replyOn s p _
      | exact StepM.setCall s p _
      | (split
         · first
           | exact StepM.replyOn s p _
           | exact StepM.setCall s p _
         · exact StepM.refl s)

/-- every operation other than `mcall` -/
theorem stepM_stepCore (s : S) (op : Op) (hop : ∀ as t, op ≠ .mcall as t) : StepM s (stepCore s op) := by
  cases op with
  | spawn => exact StepM.frame rfl ⟨rfl, rfl⟩
  | call a t => exact stepM_sendCall_none s a t none
  | mcall as t => exact absurd rfl (hop as t)
  | fcall a f t => exact stepM_sendCall_none s a t (some f)
  | handle a act => exact stepM_handle s a act
  | later p act => exact stepM_later s p act
  | exit a => exact stepM_exit s a
  | stop a act =>
    simp only [stepCore]
    exact (stepM_handle s a act).trans (stepM_stop _ a)
  | drain a => exact StepM.frame rfl ⟨rfl, rfl⟩
  | advance d => exact StepM.frame rfl ⟨rfl, rfl⟩
  | spawnSup => exact StepM.frame rfl ⟨rfl, rfl⟩
  | spawnl u =>
    simp only [stepCore]
    split
    · exact StepM.frame rfl ⟨rfl, rfl⟩
    · exact StepM.refl s
  | suphandle u keep =>
    simp only [stepCore]
    cases s.sups[u]? with
    | none => exact StepM.refl s
    | some x =>
      simp only
      split
      · exact StepM.refl s
      · cases x.inbox with
        | nil => exact StepM.refl s
        | cons a rest =>
          simp only
          split
          · exact StepM.frame rfl ⟨rfl, rfl⟩
          · exact stepM_sweep s _
  | supdrop u a =>
    simp only [stepCore]
    cases s.sups[u]? with
    | none => exact StepM.refl s
    | some x =>
      simp only
      split
      · exact stepM_sweep s _
      · exact StepM.refl s
  | supexit u =>
    simp only [stepCore]
    unfold supExit
    cases s.sups[u]? with
    | none => exact StepM.refl s
    | some x =>
      simp only
      split
      · exact (stepM_sweep s _).trans (stepM_killChildren _ u)
      · exact StepM.refl s
  | cast a v => exact StepM.frame rfl ⟨rfl, rfl⟩
  | fail a =>
    simp only [stepCore]
    cases s.actors[a]? with
    | none => exact StepM.refl s
    | some x =>
      simp only
      split
      · exact stepM_exit s a
      · exact StepM.refl s
  | handleAt a act d => exact (stepM_handle s a act).trans (StepM.frame rfl ⟨rfl, rfl⟩)

/-- under a `StepM` the members of every group keep (pointwise) group, slot and result -/
theorem stepM_filter {β : Type} {s s' : S} (st : StepM s s') (φ : Call → β)
    (hφ : ∀ c c', RelM c c' → φ c' = φ c) (g : Nat) :
    (s'.calls.filter (gq g)).map φ = (s.calls.filter (gq g)).map φ := by
  have hsplit : s'.calls = s'.calls.take s.calls.length ++ s'.calls.drop s.calls.length :=
    (List.take_append_drop _ _).symm
  have hdrop : (s'.calls.drop s.calls.length).filter (gq g) = [] := by
    rw [List.filter_eq_nil_iff]
    intro c hc
    obtain ⟨i, hi⟩ := List.mem_iff_getElem?.mp hc
    rw [List.getElem?_drop] at hi
    have := st.new (s.calls.length + i) c (by omega) hi
    simp [gq, this]
  rw [hsplit, List.filter_append, hdrop, List.append_nil]
  apply filter_map_pointwise RelM (fun c c' h => h.1) φ hφ g
  · rw [List.length_take]; exact Nat.min_eq_left st.le
  · intro i c hi
    obtain ⟨c', hc', hr⟩ := st.old i c hi
    refine ⟨c', ?_, hr⟩
    rw [List.getElem?_take]
    have := (List.getElem?_eq_some_iff.mp hi).1
    simp [this, hc']

theorem resView_relM {c c' : Call} (h : RelM c c') : resView c' = resView c := by
  unfold resView failedRes; rw [h.2.2]

theorem minv_stepM {s s' : S} (h : MInv s) (st : StepM s s') : MInv s' := by
  have hs : ∀ g, slotsOf s'.calls g = slotsOf s.calls g :=
    fun g => stepM_filter st (·.slot) (fun c c' hr => hr.2.1) g
  have hv : ∀ g, vecOf s'.calls g = vecOf s.calls g :=
    fun g => stepM_filter st resView (fun c c' hr => resView_relM hr) g
  refine ⟨by rw [st.ghost.1, st.ghost.2]; exact h.len, fun g => by rw [hs]; exact h.slots g, ?_⟩
  intro g v hg
  rw [st.ghost.1] at hg
  rw [hv]; exact h.vec g v hg

/-! ### the `multi_call` step: a fresh group, slots 0,1,2,… in send order, an all-`none` vector -/

def abandonMap (g0 : Nat) (c : Call) : Call :=
  if (c.group == some g0 && c.res == none) = true then { c with res := some .abandoned } else c

theorem abandonMap_group (g0 : Nat) (c : Call) : (abandonMap g0 c).group = c.group := by
  unfold abandonMap; split <;> rfl
theorem abandonMap_slot (g0 : Nat) (c : Call) : (abandonMap g0 c).slot = c.slot := by
  unfold abandonMap; split <;> rfl
theorem abandonMap_resView (g0 : Nat) (c : Call) (h : resView c = none) : resView (abandonMap g0 c) = none := by
  unfold abandonMap
  split
  · simp [resView, failedRes]
  · exact h
theorem abandonMap_other (g0 g : Nat) (hne : g ≠ g0) (c : Call) (hq : gq g c = true) : abandonMap g0 c = c := by
  unfold abandonMap
  have : c.group = some g := by simpa [gq] using hq
  have h2 : (c.group == some g0) = false := by rw [this]; simpa using hne
  simp [h2]

theorem filter_map_abandon_other (g0 g : Nat) (hne : g ≠ g0) (l : List Call) :
    (l.map (abandonMap g0)).filter (gq g) = l.filter (gq g) := by
  induction l with
  | nil => rfl
  | cons c rest ih =>
    simp only [List.map_cons, List.filter_cons]
    have hq : gq g (abandonMap g0 c) = gq g c := by unfold gq; rw [abandonMap_group]
    rw [hq, ih]
    by_cases hc : gq g c = true
    · simp only [hc, if_true, abandonMap_other g0 g hne c hc]
    · simp [hc]

theorem sendCall_member (s : S) (a : Nat) (t : Option Nat) (g0 : Nat) :
    ∃ c, (sendCall s a t (some g0) none).1.calls = s.calls ++ [c] ∧ c.group = some g0 ∧
      c.slot = (s.calls.filter (gq g0)).length ∧ resView c = none := by
  unfold sendCall; simp only
  split
  · exact ⟨_, rfl, rfl, rfl, by simp [resView, failedRes]⟩
  · exact ⟨_, rfl, rfl, rfl, by simp [resView, failedRes]⟩

theorem sendMulti_results (g0 : Nat) (t : Option Nat) : ∀ (as : List Nat) (s : S),
    (∀ g, g ≠ g0 → (sendMulti s g0 t as).calls.filter (gq g) = s.calls.filter (gq g)) ∧
    (slotsOf s.calls g0 = List.range (slotsOf s.calls g0).length →
      (∀ c ∈ s.calls.filter (gq g0), resView c = none) →
      slotsOf (sendMulti s g0 t as).calls g0 = List.range (slotsOf (sendMulti s g0 t as).calls g0).length ∧
      ∀ c ∈ (sendMulti s g0 t as).calls.filter (gq g0), resView c = none) := by
  intro as
  induction as with
  | nil => intro s; exact ⟨fun g _ => rfl, fun h1 h2 => ⟨h1, h2⟩⟩
  | cons a rest ih =>
    intro s
    obtain ⟨c, hc, hcg, hcs, hcr⟩ := sendCall_member s a t g0
    have hq0 : gq g0 c = true := by simp [gq, hcg]
    have hother1 : ∀ g, g ≠ g0 → (sendCall s a t (some g0) none).1.calls.filter (gq g) = s.calls.filter (gq g) := by
      intro g hne
      have : gq g c = false := by simp only [gq, hcg]; simpa using (Ne.symm hne)
      rw [hc, List.filter_append]; simp [this]
    have hslots1 : slotsOf s.calls g0 = List.range (slotsOf s.calls g0).length →
        slotsOf (sendCall s a t (some g0) none).1.calls g0 =
          List.range (slotsOf (sendCall s a t (some g0) none).1.calls g0).length := by
      intro h1
      unfold slotsOf at *
      rw [hc, List.filter_append]
      simp only [List.filter_cons, hq0, if_true, List.filter_nil, List.map_append, List.map_cons, List.map_nil,
        List.length_append, List.length_map, List.length_cons, List.length_nil]
      rw [List.range_succ, hcs]
      rw [List.length_map] at h1
      rw [← h1]
    have hres1 : (∀ d ∈ s.calls.filter (gq g0), resView d = none) →
        ∀ d ∈ (sendCall s a t (some g0) none).1.calls.filter (gq g0), resView d = none := by
      intro h2 d hd
      rw [hc, List.filter_append, List.mem_append] at hd
      rcases hd with hd | hd
      · exact h2 d hd
      · simp only [List.filter_cons, hq0, if_true, List.filter_nil, List.mem_singleton] at hd
        subst hd; exact hcr
    simp only [sendMulti]
    split
    · obtain ⟨ih1, ih2⟩ := ih (sendCall s a t (some g0) none).1
      refine ⟨fun g hne => (ih1 g hne).trans (hother1 g hne), fun h1 h2 => ih2 (hslots1 h1) (hres1 h2)⟩
    · -- refused: the group is abandoned (results, not slots, change)
      have hmap : ∀ l : List Call, (fun d : Call =>
          if (d.group == some g0 && d.res == none) = true then ({ d with res := some Res.abandoned } : Call) else d) = abandonMap g0 := by
        intro _; funext d; rfl
      show (∀ g, g ≠ g0 → List.filter (gq g) (List.map _ _) = _) ∧ _
      rw [hmap []]
      refine ⟨fun g hne => (filter_map_abandon_other g0 g hne _).trans (hother1 g hne), fun h1 h2 => ?_⟩
      have hs : slotsOf ((sendCall s a t (some g0) none).1.calls.map (abandonMap g0)) g0 =
          slotsOf (sendCall s a t (some g0) none).1.calls g0 := by
        unfold slotsOf
        apply filter_map_pointwise (fun c c' => c'.group = c.group ∧ c'.slot = c.slot) (fun _ _ h => h.1)
          (·.slot) (fun _ _ h => h.2) g0
        · rw [List.length_map]
        · intro i d hd
          exact ⟨abandonMap g0 d, by rw [List.getElem?_map, hd]; rfl, abandonMap_group g0 d, abandonMap_slot g0 d⟩
      refine ⟨by rw [hs]; exact hslots1 h1, ?_⟩
      intro d hd
      rw [List.mem_filter, List.mem_map] at hd
      obtain ⟨⟨d0, hd0, rfl⟩, hq⟩ := hd
      have hq' : gq g0 d0 = true := by unfold gq at *; rw [abandonMap_group] at hq; exact hq
      exact abandonMap_resView g0 d0 (hres1 h2 d0 (List.mem_filter.mpr ⟨hd0, hq'⟩))

theorem minv_mcall {s : S} (h : MInv s) (hg : GInv s) (as : List Nat) (t : Option Nat) :
    MInv (stepCore s (.mcall as t)) := by
  obtain ⟨hoth, hfresh⟩ := sendMulti_results s.groups t as s
  have hempty : s.calls.filter (gq s.groups) = [] := by
    rw [List.filter_eq_nil_iff]
    intro c hc hq
    have := hg.lt c hc s.groups (by simpa [gq] using hq)
    omega
  obtain ⟨hs0, hr0⟩ := hfresh (by simp [slotsOf, hempty]) (by rw [hempty]; intro c hc; cases hc)
  have hcalls : (stepCore s (.mcall as t)).calls = (sendMulti s s.groups t as).calls := rfl
  have hmres : (stepCore s (.mcall as t)).mresults = s.mresults ++
      [List.replicate ((sendMulti s s.groups t as).calls.filter (gq s.groups)).length none] := rfl
  refine ⟨by rw [hmres]; simp [h.len, stepCore], ?_, ?_⟩
  · intro g
    rw [hcalls]
    by_cases hgg : g = s.groups
    · subst hgg; exact hs0
    · have : slotsOf (sendMulti s s.groups t as).calls g = slotsOf s.calls g := by
        unfold slotsOf; rw [hoth g hgg]
      rw [this]; exact h.slots g
  · intro g v hv
    rw [hcalls]
    rw [hmres] at hv
    by_cases hlt : g < s.mresults.length
    · rw [List.getElem?_append_left hlt] at hv
      have hgg : g ≠ s.groups := by rw [← h.len]; omega
      have : vecOf (sendMulti s s.groups t as).calls g = vecOf s.calls g := by
        unfold vecOf; rw [hoth g hgg]
      rw [this]; exact h.vec g v hv
    · rw [List.getElem?_append_right (by omega)] at hv
      have hg0 : g = s.groups := by
        have := (List.getElem?_eq_some_iff.mp hv).1
        simp at this; rw [← h.len]; omega
      subst hg0
      rw [h.len, Nat.sub_self] at hv
      simp only [List.getElem?_cons_zero, Option.some.injEq] at hv
      subst hv
      unfold vecOf
      symm
      rw [List.eq_replicate_iff]
      refine ⟨by simp, ?_⟩
      intro x hx
      rw [List.mem_map] at hx
      obtain ⟨c, hc, rfl⟩ := hx
      exact hr0 c hc

/-! ### `resolve`: the members completing now write through their slots -/

theorem set_at_length {α : Type} (A B : List α) (y z : α) : (A ++ y :: B).set A.length z = A ++ z :: B := by
  induction A with
  | nil => rfl
  | cons a rest ih => simp [List.set, ih]

/-- `done` is already resolved (`f` applied), `todo` is not: processing `todo` brings every vector to the
state of the fully resolved list -/
theorem writeFrom_spec (f : Call → Call)
    (hfg : ∀ c, (f c).group = c.group) (hfs : ∀ c, (f c).slot = c.slot)
    (hfr : ∀ c r, c.res = some r → f c = c)
    (hfn : ∀ c, c.res = none → failedRes (f c) = false) :
    ∀ (todo done : List Call) (M : List (List (Option Res))),
      (∀ g, slotsOf (done ++ todo) g = List.range (slotsOf (done ++ todo) g).length) →
      (∀ (g : Nat) (v : List (Option Res)), M[g]? = some v → v = vecOf (done.map f ++ todo) g) →
      ∀ (g : Nat) (v : List (Option Res)), (writeFrom f M todo)[g]? = some v → v = vecOf ((done ++ todo).map f) g := by
  intro todo
  induction todo with
  | nil => intro done M _ hM g v hv; simpa [writeFrom] using hM g v (by simpa [writeFrom] using hv)
  | cons b rest ih =>
    intro done M hsl hM g v hv
    simp only [writeFrom] at hv
    have happ : done ++ b :: rest = (done ++ [b]) ++ rest := by simp
    have hgoal : vecOf ((done ++ b :: rest).map f) g = vecOf (((done ++ [b]) ++ rest).map f) g := by rw [happ]
    rw [hgoal]
    refine ih (done ++ [b]) _ (by rw [← happ]; exact hsl) ?_ g v hv
    -- the vectors after processing `b` describe the list with `b` resolved
    intro g' v' hv'
    have hlist : (done ++ [b]).map f ++ rest = done.map f ++ f b :: rest := by simp
    rw [hlist]
    -- filtered view of the two lists around `b`
    have hview : ∀ (x : Call), vecOf (done.map f ++ x :: rest) g' =
        vecOf (done.map f) g' ++ (if gq g' x = true then [resView x] else []) ++ vecOf rest g' := by
      intro x
      unfold vecOf
      rw [List.filter_append, List.filter_cons]
      by_cases hx : gq g' x = true <;> simp [hx]
    have hsame : resView (f b) = resView b ∨ gq g' b = false → vecOf (done.map f ++ f b :: rest) g' = vecOf (done.map f ++ b :: rest) g' := by
      intro hh
      rw [hview, hview]
      have hq : gq g' (f b) = gq g' b := by unfold gq; rw [hfg]
      rw [hq]
      rcases hh with hh | hh
      · rw [hh]
      · simp [hh]
    cases hbr : b.res with
    | some r0 =>
      -- already resolved: nothing is written, nothing changes
      have hM' : M[g']? = some v' := by simpa [hbr] using hv'
      rw [hfr b r0 hbr]; exact hM g' v' hM'
    | none =>
      cases hfr' : (f b).res with
      | none =>
        have hM' : M[g']? = some v' := by simpa [hbr, hfr'] using hv'
        rw [hsame (Or.inl (by simp [resView, failedRes, hbr, hfr']))]
        exact hM g' v' hM'
      | some r =>
        cases hbg : b.group with
        | none =>
          have hM' : M[g']? = some v' := by simpa [hbr, hfr', hbg] using hv'
          rw [hsame (Or.inr (by simp [gq, hbg]))]
          exact hM g' v' hM'
        | some gb =>
          simp only [hbr, hfr', hbg] at hv'
          by_cases hgg : gb = g'
          · subst hgg
            -- the vector of b's group: position b.slot is written
            rw [List.getElem?_modify_eq] at hv'
            cases hMg : M[gb]? with
            | none => rw [hMg] at hv'; cases hv'
            | some v0 =>
              rw [hMg] at hv'
              simp only [Functor.map, Option.map_some, Option.some.injEq] at hv'
              have hv0 := hM gb v0 hMg
              have hqb : gq gb b = true := by simp [gq, hbg]
              have hqfb : gq gb (f b) = true := by unfold gq; rw [hfg]; exact hqb
              rw [hview b] at hv0
              rw [hview (f b)]
              simp only [hqb, hqfb, if_true] at hv0 ⊢
              -- b's slot is its position among the members
              have hslot : b.slot = (vecOf (done.map f) gb).length := by
                have h1 := hsl gb
                unfold slotsOf at h1
                rw [List.filter_append, List.filter_cons] at h1
                simp only [hqb, if_true, List.map_append, List.map_cons] at h1
                have hk := congrArg (fun L => L[((done.filter (gq gb)).map (·.slot)).length]?) h1
                simp only [List.getElem?_append_right (Nat.le_refl _), Nat.sub_self, List.getElem?_cons_zero] at hk
                rw [List.getElem?_range (by simp)] at hk
                have hk' : b.slot = ((done.filter (gq gb)).map (·.slot)).length := Option.some.inj hk
                rw [hk']
                unfold vecOf
                simp only [List.length_map]
                -- `f` keeps the group: the same members are filtered out of `done.map f`
                have : ((done.map f).filter (gq gb)).map (fun _ => ()) = (done.filter (gq gb)).map (fun _ => ()) := by
                  apply filter_map_pointwise (fun c c' => c'.group = c.group) (fun _ _ h => h) (fun _ => ()) (fun _ _ _ => rfl) gb
                  · rw [List.length_map]
                  · intro i d hd
                    exact ⟨f d, by rw [List.getElem?_map, hd]; rfl, hfg d⟩
                have := congrArg List.length this
                simpa using this.symm
              have hrv : resView (f b) = some r := by
                unfold resView; rw [hfn b hbr]; simpa using hfr'
              rw [← hv', hv0, hslot, hrv]
              have := set_at_length (vecOf (done.map f) gb) (vecOf rest gb) (resView b) (some r)
              simpa [List.append_assoc] using this
          · -- another group: untouched, and b is not a member of it
            rw [List.getElem?_modify_ne _ _ hgg] at hv'
            rw [hsame (Or.inr (by simp only [gq, hbg]; simpa using hgg))]
            exact hM g' v' hv'

theorem resolveCall_not_failed (now : Nat) (c : Call) (hc : c.res = none) :
    failedRes (resolveCall now c) = false := by
  unfold resolveCall
  rw [hc]
  simp only
  cases hl : c.loc <;> simp only [] <;> (try split) <;> (try split) <;> simp [failedRes, hc]

theorem minv_resolveLocal {s : S} (h : MInv s) : MInv (resolveLocal s) := by
  have hcalls : (resolveLocal s).calls = s.calls.map (resolveCall s.now) := rfl
  have hgrp : ∀ c, (resolveCall s.now c).group = c.group := by
    intro c; unfold resolveCall; repeat (first | rfl | split)
  have hslot : ∀ c, (resolveCall s.now c).slot = c.slot := by
    intro c; unfold resolveCall; repeat (first | rfl | split)
  have hlenw : ∀ (l : List Call) (M : List (List (Option Res))), (writeFrom (resolveCall s.now) M l).length = M.length := by
    intro l
    induction l with
    | nil => intro M; rfl
    | cons b rest ih =>
      intro M
      simp only [writeFrom]
      rw [ih]
      split <;> simp
  refine ⟨?_, ?_, ?_⟩
  · show (writeFrom (resolveCall s.now) s.mresults s.calls).length = s.groups
    rw [hlenw]; exact h.len
  · intro g
    have : slotsOf (resolveLocal s).calls g = slotsOf s.calls g := by
      rw [hcalls]; unfold slotsOf
      apply filter_map_pointwise (fun c c' => c'.group = c.group ∧ c'.slot = c.slot) (fun _ _ h => h.1)
        (·.slot) (fun _ _ h => h.2) g
      · rw [List.length_map]
      · intro i d hd
        exact ⟨_, by rw [List.getElem?_map, hd]; rfl, hgrp d, hslot d⟩
    rw [this]; exact h.slots g
  · intro g v hv
    have := writeFrom_spec (resolveCall s.now) hgrp hslot
      (fun c r hr => resolveCall_of_resolved s.now c (by rw [hr]; exact fun hh => by cases hh))
      (fun c hc => resolveCall_not_failed s.now c hc)
      s.calls [] s.mresults (by simpa using h.slots) (by simpa using h.vec) g v hv
    simpa [hcalls] using this

theorem minv_run (ops : List Op) : MInv (run ops) := by
  unfold run
  suffices ∀ s, Inv s → Wire s → GInv s → MInv s → MInv (ops.foldl step s) from
    this init inv_init wire_init ginv_init minv_init
  induction ops with
  | nil => intro s _ _ _ h; exact h
  | cons op rest ih =>
    intro s hi hw hg hm
    have hs := inv_step hi hw op
    have hg' : GInv (step s op) := by
      rw [step_eq_local hi.toPre hw op]
      exact ginv_resolveLocal (ginv_drainExits (ginv_stepCore hg op))
    refine ih (step s op) hs.1 hs.2 hg' ?_
    rw [step_eq_local hi.toPre hw op]
    apply minv_resolveLocal
    apply minv_stepM _ (stepM_drainExits _)
    by_cases hop : ∃ as t, op = .mcall as t
    · obtain ⟨as, t, rfl⟩ := hop
      exact minv_mcall hm hg as t
    · exact minv_stepM hm (stepM_stepCore s op (fun as t heq => hop ⟨as, t, heq⟩))

end Rpc
