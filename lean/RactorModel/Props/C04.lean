import RactorModel.Extracted
import RactorModel.Lemmas.LifeC04
import RactorModel.Lemmas.LifeWorld
import RactorModel.Lemmas.LifeResidue

/-!
# C04 — Failures are contained and reported to the supervisor exactly once

`Life.C04.ok me tr` (defined in `Model/Life.lean`) is acceptance of actor `me`'s trace by the
automaton `Life.C04.next true me`:

* every supervision event about `me` is handed to the actor observed as `me`'s supervisor at that
  moment (`c04.target`), and is about `me` (`c04.who`);
* at most one terminal event (`ActorTerminated | ActorFailed`), nothing after it;
* its constructor and text are what the trace explains: `ActorFailed` with the text of the `Err` /
  panic of the last failed callback (not `pre_start`); `ActorTerminated(Some(state), reason)` only
  after `post_stop` returned ok, with the reason of the accepted stop or "Drained" after a drain;
  reason "killed" only after an accepted kill, **and without state**; "actor_task_cancelled"
  only after an abort, without state;
* `ActorStarted` at most once, immediately after `post_start` returned ok (before any handler),
  before the terminal event;
* after a `pre_start` failure / cancelled start-up: no event at all, and the spawner got `Err`;
* when the task ends (`join`) a supervised actor has reported its end; the join handle completes
  normally unless the task was aborted.

## Former finding `c04.kill-state` (repaired)

On the pinned commit the clause "kill ⇒ no state" was false: a kill observed *inside the message
loop* (idle, or racing a message / supervision handler) left through `ActorLoopResult::signal`,
`processing_loop` returned `Ok(Some("killed"))` and `start()` built
`ActorTerminated(cell, Some(state), Some("killed"))`, whereas a kill observed around
`post_start` / `post_stop` yields `ActorTerminated(cell, None, Some("killed"))`. The check
rediscovered it (witness `corpus/C04/e-lts-kill-idle-state.ops`, replayed on every run); the repo
commit `fix: report no state when an actor is killed inside its message loop` makes the loop-kill
path return `Err(ActorErr::Cancelled)` like the other two, the model follows the repaired code and
the statement below is proved at full strength. On a tree without the repair the oracle clause
`c04.kill-state` fails on the witness and the check reports a VIOLATION.
-/

namespace C04
open Life

/-- **C04, all schedules, full strength.** For every actor and every sequence of operations the
actor's trace is accepted by the supervision-event automaton. -/
theorem reported_once (id : Nat) (ops : List AOp) : Life.C04.ok id (trace id ops) = true := by
  obtain ⟨s', h, _⟩ := Life.C04.run_sim id ops (Actor.init id) {} (Life.C04.inv_init id)
  simp [Life.C04.ok, trace, h, Except.isOk, Except.toBool]

/-- **The same for the composed world** (what the driver replays): in every run of `World.step`
from the empty world (one harness case: any number of actors, supervision links, effects routed
between them), the trace projection of every actor `i` satisfies the property — because the world
changes actors only through `Actor.step` (`Life.world_actor_run`). -/
theorem reported_once_world (ops : List Op) (h : ∀ op ∈ ops, op ≠ .case) (i : Nat) :
    Life.C04.ok i (projEvs i (({} : World).run ops).2) = true := by
  obtain ⟨aops, e⟩ := world_actor_run ops h i
  have := reported_once i aops
  simp only [trace, e] at this
  exact this

/-- The op sequence that exhibited the former finding: a supervised child killed while idle. -/
def witness : List AOp :=
  [.spawn (some 0) none true false true, .resume ⟨[], .ok⟩, .pollSpawn true, .poll, .resume ⟨[], .ok⟩, .poll, .kill, .poll]

/-- The invariant behind it (see `Life.C04.Core`): while the actor lives no terminal event was
emitted and the guard is armed; `ActorStarted` was emitted only past `post_start`; a pending stop
reason / drain marker / kill is known to the automaton; the automaton's supervisor is the actor's. -/
theorem invariant (id : Nat) (ops : List AOp) :
    ∃ s, accepts (Life.C04.next id) {} (trace id ops) = .ok s ∧
      Life.C04.Inv id ((Actor.init id).run ops).1 s :=
  Life.C04.run_sim id ops (Actor.init id) {} (Life.C04.inv_init id)

/-- A failed start-up (`pre_start` Err / panic, kill during start-up, refused link) emits nothing
and the actor is done: `failSpawn` produces only the spawn result. -/
theorem prestart_failure_silent (a : Actor) (r : SpawnRet) :
    (failSpawn a r).1.phase = .done ∧ ∀ p e, Ev.emit p e ∉ evs (failSpawn a r).2 := by
  refine ⟨by simp [failSpawn, Actor.dropPorts], ?_⟩
  intro p e
  simp [failSpawn, (Life.C04.cleanup_none a).1]

/-- Clause (iv) in full, for all schedules: after a spawn that failed (`pre_start` Err / panic, kill
during start-up, refused link) or whose future was dropped — at any await point, after any side
effects — the trace is accepted by `Life.Residue.next`: no callback of that actor ever runs, no
supervision event is emitted for it, every later observable snapshot shows status `Stopped`, no
supervisor, no child-set membership, the name released, no group membership; sends are refused,
pending waiters are released, calls queued to it are resolved (never answered). (This is the
`Life`-level statement of what C08 demands; C08 itself is decided by its own check. The driver
model `life-residue` runs this automaton, plus the registry frame clauses, on the implementation's
traces.) -/
theorem failed_spawn_leaves_nothing (id : Nat) (ops : List AOp) : Life.Residue.ok (trace id ops) = true :=
  Life.Residue.residue_ok id ops

/-! ### E-SRC obligations -/

theorem src_cleanup_order : Extracted.cleanupOrder = Life.cleanupSteps := by decide
theorem src_terminate_condition : Extracted.terminateKillCondition = Life.terminateKillCondition := by decide
theorem src_status : Extracted.statusDiscriminants = Life.statusTable := by decide

/-! ### Non-vacuity and rejection examples -/

/-- Handler panic: exactly one `ActorFailed` with the panic text, after `ActorStarted`. -/
example : traceNoSnap 1 [.spawn (some 0) none true false true, .resume ⟨[], .ok⟩, .pollSpawn true, .poll, .resume ⟨[], .ok⟩, .poll,
      .send 5, .poll, .resume ⟨[], .panic 9⟩, .poll] =
    [.enter .preStart .none, .tick .preStart, .exit .preStart .ok, .spawnRet .ok, .supIs (some 0),
     .enter .postStart .none, .tick .postStart, .exit .postStart .ok, .emit 0 (.started 1),
     .sendRet false 5 true, .enter .handle (.msg 5), .tick .handle, .exit .handle (.panic 9),
     .emit 0 (.failed 1 true 9), .join .ok, .supIs none] := by decide

/-- Abort of a suspended handler: "actor_task_cancelled", no state. -/
example : traceNoSnap 1 [.spawn (some 0) none true false true, .resume ⟨[], .ok⟩, .pollSpawn true, .poll, .abort] =
    [.enter .preStart .none, .tick .preStart, .exit .preStart .ok, .spawnRet .ok, .supIs (some 0),
     .enter .postStart .none, .aborted, .cancelled .postStart,
     .emit 0 (.terminated 1 false .cancelled), .join .cancelled, .supIs none] := by decide

/-- A thread-local child: linked before `pre_start`, graceful stop reports NO state (it is not
`Send`), exactly once. -/
example : traceNoSnap 1 [.spawn (some 0) none true true true, .resume ⟨[], .ok⟩, .pollSpawn true, .poll,
      .resume ⟨[], .ok⟩, .poll, .stop (some "bye"), .poll, .resume ⟨[], .ok⟩, .poll] =
    [.isLocal, .enter .preStart .none, .supIs (some 0), .tick .preStart, .exit .preStart .ok, .spawnRet .ok,
     .enter .postStart .none, .tick .postStart, .exit .postStart .ok, .emit 0 (.started 1),
     .stopRet false (.text "bye") true, .enter .postStop .none, .tick .postStop, .exit .postStop .ok,
     .emit 0 (.terminated 1 false (.text "bye")), .join .ok, .supIs none] := by decide

/-- The witness of the former finding, spelled out: no state any more. -/
example : traceNoSnap 1 witness =
    [.enter .preStart .none, .tick .preStart, .exit .preStart .ok, .spawnRet .ok, .supIs (some 0),
     .enter .postStart .none, .tick .postStart, .exit .postStart .ok, .emit 0 (.started 1),
     .killRet false true, .emit 0 (.terminated 1 false .killed), .join .ok, .supIs none] := by decide

/-- what the unrepaired code produced on the witness is rejected (`c04.kill-state`) -/
example : Life.C04.ok 1 [.supIs (some 0), .exit .postStart .ok, .emit 0 (.started 1), .killRet false true,
    .emit 0 (.terminated 1 true .killed), .join .ok] = false := by decide
example : Life.C04.ok 1 [.supIs (some 0), .exit .postStart .ok, .emit 0 (.started 1), .emit 0 (.started 1)] = false := by decide
example : Life.C04.ok 1 [.supIs (some 0), .emit 0 (.started 1)] = false := by decide
example : Life.C04.ok 1 [.supIs (some 0), .exit .handle (.err 3), .emit 0 (.failed 1 false 3),
    .emit 0 (.terminated 1 false .cancelled)] = false := by decide
example : Life.C04.ok 1 [.supIs (some 0), .exit .handle (.err 3), .emit 0 (.failed 1 true 3)] = false := by decide
example : Life.C04.ok 1 [.supIs (some 0), .exit .handle (.err 3), .emit 2 (.failed 1 false 3)] = false := by decide
example : Life.C04.ok 1 [.supIs (some 0), .exit .preStart (.err 3), .emit 0 (.failed 1 false 3)] = false := by decide
example : Life.C04.ok 1 [.supIs (some 0), .drainRet true, .exit .postStop .ok,
    .emit 0 (.terminated 1 true .drained), .join .ok] = true := by decide
example : Life.C04.ok 1 [.supIs (some 0), .drainRet true, .exit .postStop .ok, .join .ok] = false := by decide

/-! ### E-SRC, async-std backend (round 4)

`Life`'s `abort` op (the join handle's `abort()`: the task's future is dropped at its current await point, the
join handle reports `Cancelled`) is written after tokio. With `--features async-std` the handle is ractor's own
wrapper: `abort` only sets the `AbortHandle`; every spawn form (`spawn` = `spawn_named(None, ..)`) hands async-std a
task whose FIRST await is `Abortable::new(future, abort_registration)` (so the abort flag is looked at before every
poll of the actor's future and the future is dropped when the wrapper returns), sets the `is_done` flag after it, and
`JoinHandle::poll` maps an aborted task to `Err(())`. The `verif::controlled` hook wraps the future before the
`Abortable` wrapper, as it wraps the future handed to `tokio::spawn`. -/
theorem src_async_std_abort :
    Extracted.asyncStdAbortBody = "self.abort_handle.abort();"
    ∧ Extracted.asyncStdSpawnCalls = ["async_std::task::spawn_local", "async_std::task::Builder::new()", "async_std::task::spawn"]
    ∧ Extracted.asyncStdSpawnAwaits = List.replicate 3 "Abortable::new(future,abort_registration)"
    ∧ Extracted.asyncStdSpawnThen = List.replicate 3 "inner_signal.fetch_or(true,Ordering::Relaxed)"
    ∧ Extracted.asyncStdPlainSpawnBody = "spawn_named(None,future)"
    ∧ Extracted.asyncStdJoinPollArms =
        ["Poll::Pending=>Poll::Pending", "Poll::Ready(Ok(v))=>Poll::Ready(Ok(v))", "Poll::Ready(Err(_))=>Poll::Ready(Err(()))"] := by decide
theorem src_async_std_verif_hooks : Extracted.asyncStdVerifHooks = ["spawn_local", "spawn_named"] := by decide

end C04

#print axioms C04.reported_once
#print axioms C04.reported_once_world
#print axioms C04.invariant
#print axioms C04.prestart_failure_silent
#print axioms C04.failed_spawn_leaves_nothing
#print axioms C04.src_cleanup_order
#print axioms C04.src_terminate_condition
#print axioms C04.src_status
#print axioms C04.src_async_std_abort
#print axioms C04.src_async_std_verif_hooks
