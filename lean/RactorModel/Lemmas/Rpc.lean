import RactorModel.Model.Rpc

/-! Invariant for the RPC model (C09). -/

namespace Rpc

/-- `callOk` minus the "a waiting call is undecided" clause: what every call record
satisfies in the middle of a step, before `resolve` runs. -/
def callPre (now : Nat) (c : Call) : Bool :=
  match c.res with
  | some (.success v) => c.loc == .replied v
  | some .senderError => c.loc == .dropped
  | some .sendErr => c.loc == .dropped
  | some .timeout => (match c.deadline with | some d => decide (d ≤ now) | none => false)
  | some .abandoned => c.group.isSome
  | none => true

theorem callPre_of_callOk {now : Nat} {c : Call} (h : callOk now c = true) : callPre now c = true := by
  unfold callOk at h; unfold callPre
  cases hr : c.res with
  | none => rfl
  | some r => cases r <;> first | (rw [hr] at h; exact h) | simp_all

theorem callPre_mono {now now' : Nat} (hle : now ≤ now') {c : Call} (h : callPre now c = true) :
    callPre now' c = true := by
  unfold callPre at *
  cases hr : c.res with
  | none => rfl
  | some r =>
    cases r <;> simp_all
    cases hd : c.deadline with
    | none => simp_all
    | some d => simp_all; omega

/-- a call whose result does not pin its location: undecided, timed out or abandoned -/
def looseRes (c : Call) : Bool :=
  match c.res with
  | none => true
  | some .timeout => true
  | some .abandoned => true
  | _ => false

/-- If the port is still somewhere live, the result cannot be one that pins the location. -/
theorem looseRes_of_live {now : Nat} {c : Call} (h : callPre now c = true)
    (hl : (∀ v, c.loc ≠ .replied v) ∧ c.loc ≠ .dropped) : looseRes c = true := by
  unfold callPre at h; unfold looseRes
  cases hr : c.res with
  | none => rfl
  | some r =>
    cases r with
    | success v => simp_all
    | senderError => simp_all
    | sendErr => simp_all
    | timeout => rfl
    | abandoned => rfl

/-- changing the location of a call with a loose result keeps `callPre` -/
theorem callPre_setLoc {now : Nat} {c : Call} (h : callPre now c = true) (hl : looseRes c = true)
    (l : Loc) : callPre now { c with loc := l } = true := by
  unfold callPre at *; unfold looseRes at hl
  cases hr : c.res with
  | none => simp
  | some r => cases r <;> simp_all

theorem callOk_resolveCall {now : Nat} {c : Call} (h : callPre now c = true) :
    callOk now (resolveCall now c) = true := by
  unfold resolveCall
  cases hr : c.res with
  | some r =>
    simp only
    unfold callPre at h; unfold callOk
    cases r <;> first | (rw [hr] at h ⊢; exact h) | simp_all
  | none =>
    simp only
    cases hl : c.loc with
    | replied v => simp [callOk, hl]
    | dropped => simp [callOk, hl]
    | mailbox a =>
      cases hd : c.deadline with
      | none => simp [callOk, hr, hl, hd]
      | some d =>
        by_cases hle : d ≤ now
        · simp [callOk, hd, hle]
        · simp [callOk, hr, hl, hd, hle]; omega
    | actor a =>
      cases hd : c.deadline with
      | none => simp [callOk, hr, hl, hd]
      | some d =>
        by_cases hle : d ≤ now
        · simp [callOk, hd, hle]
        · simp [callOk, hr, hl, hd, hle]; omega
    | detached =>
      cases hd : c.deadline with
      | none => simp [callOk, hr, hl, hd]
      | some d =>
        by_cases hle : d ≤ now
        · simp [callOk, hd, hle]
        · simp [callOk, hr, hl, hd, hle]; omega
    | event a =>
      cases hd : c.deadline with
      | none => simp [callOk, hr, hl, hd]
      | some d =>
        by_cases hle : d ≤ now
        · simp [callOk, hd, hle]
        · simp [callOk, hr, hl, hd, hle]; omega

theorem resolveCall_loc (now : Nat) (c : Call) : (resolveCall now c).loc = c.loc := by
  unfold resolveCall
  repeat (first | rfl | split)

end Rpc

namespace Rpc

/-! ### forwarding only appends `fwd` items to mailboxes -/

def extend (x : Actor) (extra : List Nat) : Actor := { x with mailbox := x.mailbox ++ extra.map Item.fwd }

theorem extend_nil (x : Actor) : extend x [] = x := by simp [extend]

theorem extend_extend (x : Actor) (e1 e2 : List Nat) : extend (extend x e1) e2 = extend x (e1 ++ e2) := by
  simp [extend, List.append_assoc]

def Ext (A A' : List Actor) : Prop :=
  ∀ a : Nat, ∃ extra : List Nat, A'[a]? = (A[a]?).map (fun x => extend x extra)

theorem Ext.refl (A : List Actor) : Ext A A := fun a => ⟨[], by simp [extend_nil]⟩

theorem Ext.trans {A B C : List Actor} (h1 : Ext A B) (h2 : Ext B C) : Ext A C := by
  intro a
  obtain ⟨e1, h1⟩ := h1 a
  obtain ⟨e2, h2⟩ := h2 a
  refine ⟨e1 ++ e2, ?_⟩
  rw [h2, h1]
  cases A[a]? with
  | none => rfl
  | some x => simp [extend_extend]

theorem Ext.modify (A : List Actor) (f v : Nat) :
    Ext A (A.modify f (fun x => if x.alive && !x.draining then { x with mailbox := x.mailbox ++ [.fwd v] } else x)) := by
  intro a
  rw [List.getElem?_modify]
  by_cases hfa : f = a
  · subst hfa
    cases hA : A[f]? with
    | none => exact ⟨[], by simp⟩
    | some x =>
      by_cases hc : (x.alive && !x.draining) = true
      · refine ⟨[v], ?_⟩
        simp only [Option.map_some, Functor.map, if_true, hc, extend, List.map_cons, List.map_nil]
      · refine ⟨[], ?_⟩
        simp only [Functor.map, Option.map_some, if_true, extend_nil, Option.some.injEq]
        rw [if_neg hc]
  · refine ⟨[], ?_⟩
    cases hA : A[a]? with
    | none => simp
    | some x => simp [hfa, extend_nil]

theorem deliverForwards_ext (before after : List Call) (A : List Actor) :
    Ext A (deliverForwards before after A) := by
  unfold deliverForwards
  generalize (List.zip before after).filterMap _ = newly
  induction newly generalizing A with
  | nil => exact Ext.refl A
  | cons fv rest ih =>
    obtain ⟨f, v⟩ := fv
    simp only [List.foldl_cons]
    exact (Ext.modify A f v).trans (ih _)

theorem ext_alive {A A' : List Actor} (h : Ext A A') {a : Nat} {x' : Actor} (hx : A'[a]? = some x') :
    ∃ x extra, A[a]? = some x ∧ x' = extend x extra := by
  obtain ⟨e, he⟩ := h a
  rw [hx] at he
  cases hA : A[a]? with
  | none => rw [hA] at he; cases he
  | some x => rw [hA] at he; exact ⟨x, e, rfl, by simpa using he⟩

theorem mem_call_extend {x : Actor} {extra : List Nat} {p : Nat} :
    Item.call p ∈ (extend x extra).mailbox ↔ Item.call p ∈ x.mailbox := by
  simp [extend]

theorem count_call_extend (x : Actor) (extra : List Nat) (p : Nat) :
    (extend x extra).mailbox.count (Item.call p) = x.mailbox.count (Item.call p) := by
  have : (extra.map Item.fwd).count (Item.call p) = 0 := by
    rw [List.count_eq_zero]; simp
  simp [extend, List.count_append, this]

end Rpc

namespace Rpc

structure Pre (s : S) : Prop where
  pre : ∀ (p : Nat) (c : Call), s.calls[p]? = some c → callPre s.now c = true
  loc : ∀ (p : Nat) (c : Call), s.calls[p]? = some c → locOk s.actors s.sups c = true
  mb : ∀ (a : Nat) (x : Actor), s.actors[a]? = some x → ∀ p : Nat, Item.call p ∈ x.mailbox →
        ∃ c, s.calls[p]? = some c ∧ c.loc = .mailbox a
  nd : ∀ (a : Nat) (x : Actor) (p : Nat), s.actors[a]? = some x → x.mailbox.count (Item.call p) ≤ 1

structure Inv (s : S) : Prop extends Pre s where
  okc : ∀ (p : Nat) (c : Call), s.calls[p]? = some c → callOk s.now c = true

theorem inv_init : Inv init := by
  refine ⟨⟨?_, ?_, ?_, ?_⟩, ?_⟩ <;> intros <;> simp_all [init]

theorem locOk_ext {A A' : List Actor} {U : List Sup} (h : Ext A A') {c : Call} (hc : locOk A U c = true) :
    locOk A' U c = true := by
  unfold locOk at *
  cases hl : c.loc with
  | mailbox a =>
    simp only [hl] at hc ⊢
    obtain ⟨e, he⟩ := h a
    rw [he]
    cases hA : A[a]? with
    | none => simp [hA] at hc
    | some x => simp [hA] at hc; simp [extend, hc]
  | actor a =>
    simp only [hl] at hc ⊢
    obtain ⟨e, he⟩ := h a
    rw [he]
    cases hA : A[a]? with
    | none => simp [hA] at hc
    | some x => simp [hA] at hc; simp [extend, hc]
  | event a => simp only [hl] at hc ⊢; exact hc
  | detached => rfl
  | replied v => rfl
  | dropped => rfl

/-- appending plain (`fwd`) messages to mailboxes keeps `Pre` -/
theorem pre_ext {s : S} (h : Pre s) (A' : List Actor) (hext : Ext s.actors A') :
    Pre { s with actors := A' } := by
  refine ⟨h.pre, ?_, ?_, ?_⟩
  · intro p c hc
    exact locOk_ext hext (h.loc p c hc)
  · intro a x' hx' p hp
    obtain ⟨x, e, hx, rfl⟩ := ext_alive hext hx'
    exact h.mb a x hx p (mem_call_extend.mp hp)
  · intro a x' p hx'
    obtain ⟨x, e, hx, rfl⟩ := ext_alive hext hx'
    rw [count_call_extend]
    exact h.nd a x p hx

theorem resolveLocal_inv {s : S} (h : Pre s) : Inv (resolveLocal s) := by
  have hext : Ext s.actors (resolveLocal s).actors := deliverForwards_ext _ _ _
  have hcalls : ∀ (p : Nat) (c' : Call), (resolveLocal s).calls[p]? = some c' →
      ∃ c, s.calls[p]? = some c ∧ c' = resolveCall s.now c := by
    intro p c' hc'
    simp only [resolveLocal, List.getElem?_map] at hc'
    cases hs : s.calls[p]? with
    | none => rw [hs] at hc'; cases hc'
    | some c => rw [hs] at hc'; exact ⟨c, rfl, by simpa using hc'.symm⟩
  have hnow : (resolveLocal s).now = s.now := rfl
  refine ⟨⟨?_, ?_, ?_, ?_⟩, ?_⟩
  · intro p c' hc'
    obtain ⟨c, hc, rfl⟩ := hcalls p c' hc'
    rw [hnow]
    exact callPre_of_callOk (callOk_resolveCall (h.pre p c hc))
  · intro p c' hc'
    obtain ⟨c, hc, rfl⟩ := hcalls p c' hc'
    have := locOk_ext hext (h.loc p c hc)
    unfold locOk at this ⊢
    rw [resolveCall_loc]; exact this
  · intro a x' hx' p hp
    obtain ⟨x, e, hx, rfl⟩ := ext_alive hext hx'
    obtain ⟨c, hc, hl⟩ := h.mb a x hx p (mem_call_extend.mp hp)
    refine ⟨resolveCall s.now c, ?_, by rw [resolveCall_loc]; exact hl⟩
    simp [resolveLocal, List.getElem?_map, hc]
  · intro a x' p hx'
    obtain ⟨x, e, hx, rfl⟩ := ext_alive hext hx'
    rw [count_call_extend]
    exact h.nd a x p hx
  · intro p c' hc'
    obtain ⟨c, hc, rfl⟩ := hcalls p c' hc'
    rw [hnow]
    exact callOk_resolveCall (h.pre p c hc)

end Rpc

namespace Rpc

theorem locOk_congr {A A' : List Actor} {U : List Sup} (h : ∀ a : Nat, (A'[a]?).map (·.alive) = (A[a]?).map (·.alive))
    {c : Call} (hc : locOk A U c = true) : locOk A' U c = true := by
  unfold locOk at *
  cases hl : c.loc with
  | mailbox a =>
    simp only [hl] at hc ⊢
    have := h a
    cases hA : A[a]? with
    | none => simp [hA] at hc
    | some x =>
      simp [hA] at hc this
      obtain ⟨x', hx', ha⟩ := this
      simp [hx', ha, hc]
  | actor a =>
    simp only [hl] at hc ⊢
    have := h a
    cases hA : A[a]? with
    | none => simp [hA] at hc
    | some x =>
      simp [hA] at hc this
      obtain ⟨x', hx', ha⟩ := this
      simp [hx', ha, hc]
  | event a => simp only [hl] at hc ⊢; exact hc
  | detached => rfl
  | replied v => rfl
  | dropped => rfl

/-- Replacing one actor's record by one with the same liveness and a sub-list mailbox keeps `Pre`. -/
theorem pre_shrink_mailbox {s : S} (h : Pre s) (a : Nat) (f : Actor → Actor)
    (halive : ∀ x, (f x).alive = x.alive) (hsub : ∀ x, (f x).mailbox.Sublist x.mailbox) :
    Pre (setActor s a f) := by
  have hget : ∀ b : Nat, (setActor s a f).actors[b]? = (s.actors[b]?).map (fun x => if a = b then f x else x) := by
    intro b; simp [setActor, List.getElem?_modify, Functor.map]
  refine ⟨h.pre, ?_, ?_, ?_⟩
  · intro p c hc
    apply locOk_congr _ (h.loc p c hc)
    intro b
    rw [hget]
    cases s.actors[b]? with
    | none => rfl
    | some x => by_cases hab : a = b <;> simp [hab, halive]
  · intro b x' hx' p hp
    rw [hget] at hx'
    cases hb : s.actors[b]? with
    | none => rw [hb] at hx'; cases hx'
    | some x =>
      rw [hb] at hx'
      simp only [Option.map_some, Option.some.injEq] at hx'
      subst hx'
      by_cases hab : a = b
      · simp only [hab, if_true] at hp
        exact h.mb b x hb p ((hsub x).subset hp)
      · simp only [hab, if_false] at hp
        exact h.mb b x hb p hp
  · intro b x' p hx'
    rw [hget] at hx'
    cases hb : s.actors[b]? with
    | none => rw [hb] at hx'; cases hx'
    | some x =>
      rw [hb] at hx'
      simp only [Option.map_some, Option.some.injEq] at hx'
      subst hx'
      by_cases hab : a = b
      · simp only [hab, if_true]
        exact Nat.le_trans ((hsub x).count_le _) (h.nd b x p hb)
      · simp only [hab, if_false]
        exact h.nd b x p hb

/-- Moving a port whose result is still loose, and which sits in no mailbox, keeps `Pre`. -/
theorem pre_setLoc {s : S} (h : Pre s) (p : Nat) (c : Call) (hc : s.calls[p]? = some c)
    (hloose : looseRes c = true) (l : Loc)
    (hnot : ∀ (a : Nat) (x : Actor), s.actors[a]? = some x → Item.call p ∉ x.mailbox)
    (hl : locOk s.actors s.sups { c with loc := l } = true) :
    Pre (setCall s p (fun c => { c with loc := l })) := by
  have hget : ∀ q : Nat, (setCall s p (fun c => { c with loc := l })).calls[q]? =
      (s.calls[q]?).map (fun c => if p = q then { c with loc := l } else c) := by
    intro q; simp [setCall, List.getElem?_modify, Functor.map]
  refine ⟨?_, ?_, ?_, h.nd⟩
  · intro q c' hc'
    rw [hget] at hc'
    cases hq : s.calls[q]? with
    | none => rw [hq] at hc'; cases hc'
    | some c0 =>
      rw [hq] at hc'
      simp only [Option.map_some, Option.some.injEq] at hc'
      subst hc'
      by_cases hpq : p = q
      · subst hpq
        rw [hc] at hq; cases hq
        simp only [if_true]
        exact callPre_setLoc (h.pre p c hc) hloose l
      · simp only [hpq, if_false]; exact h.pre q c0 hq
  · intro q c' hc'
    rw [hget] at hc'
    cases hq : s.calls[q]? with
    | none => rw [hq] at hc'; cases hc'
    | some c0 =>
      rw [hq] at hc'
      simp only [Option.map_some, Option.some.injEq] at hc'
      subst hc'
      by_cases hpq : p = q
      · subst hpq
        rw [hc] at hq; cases hq
        simp only [if_true]; exact hl
      · simp only [hpq, if_false]; exact h.loc q c0 hq
  · intro a x hx q hqm
    obtain ⟨c0, hc0, hl0⟩ := h.mb a x hx q hqm
    have hpq : p ≠ q := by
      intro heq; subst heq; exact hnot a x hx hqm
    refine ⟨c0, ?_, hl0⟩
    rw [hget, hc0]; simp [hpq]

end Rpc

namespace Rpc

theorem looseRes_of_loc_live {s : S} (h : Pre s) {p : Nat} {c : Call} (hc : s.calls[p]? = some c)
    (hl : (∀ v, c.loc ≠ .replied v) ∧ c.loc ≠ .dropped) : looseRes c = true :=
  looseRes_of_live (h.pre p c hc) hl

theorem pre_exit {s : S} (h : Pre s) (a : Nat) : Pre (exitActor s a) := by
  unfold exitActor
  cases ha : s.actors[a]? with
  | none => exact h
  | some x =>
    simp only
    cases halive : x.alive with
    | false => simpa using h
    | true =>
      simp only [if_true]
      refine ⟨?_, ?_, ?_, ?_⟩
      · intro p c' hc'
        simp only [List.getElem?_map] at hc'
        cases hq : s.calls[p]? with
        | none => rw [hq] at hc'; cases hc'
        | some c0 =>
          rw [hq] at hc'; simp only [Option.map_some, Option.some.injEq] at hc'; subst hc'
          unfold dropPortsOf
          cases hl0 : c0.loc with
          | mailbox b =>
            simp only
            split
            · exact callPre_setLoc (h.pre p c0 hq) (looseRes_of_loc_live h hq (by simp [hl0])) _
            · exact h.pre p c0 hq
          | actor b =>
            simp only
            split
            · exact callPre_setLoc (h.pre p c0 hq) (looseRes_of_loc_live h hq (by simp [hl0])) _
            · exact h.pre p c0 hq
          | event b => exact h.pre p c0 hq
          | detached => exact h.pre p c0 hq
          | replied v => exact h.pre p c0 hq
          | dropped => exact h.pre p c0 hq
      · intro p c' hc'
        simp only [List.getElem?_map] at hc'
        cases hq : s.calls[p]? with
        | none => rw [hq] at hc'; cases hc'
        | some c0 =>
          rw [hq] at hc'; simp only [Option.map_some, Option.some.injEq] at hc'; subst hc'
          have h0 := h.loc p c0 hq
          unfold dropPortsOf locOk at *
          cases hl0 : c0.loc with
          | mailbox b =>
            simp only [hl0] at h0 ⊢
            by_cases hba : b = a
            · simp [hba]
            · have : (b == a) = false := by simpa using hba
              simp only [this, Bool.false_eq_true, if_false, hl0]
              rw [List.getElem?_modify_ne _ _ (Ne.symm hba)]; exact h0
          | actor b =>
            simp only [hl0] at h0 ⊢
            by_cases hba : b = a
            · simp [hba]
            · have : (b == a) = false := by simpa using hba
              simp only [this, Bool.false_eq_true, if_false, hl0]
              rw [List.getElem?_modify_ne _ _ (Ne.symm hba)]; exact h0
          | event b => simp only [hl0] at h0 ⊢; exact h0
          | detached => simp [hl0]
          | replied v => simp [hl0]
          | dropped => simp [hl0]
      · intro b x' hx' p hp
        by_cases hab : a = b
        · subst hab
          simp only [List.getElem?_modify_eq, ha, Functor.map, Option.map_some, Option.some.injEq] at hx'
          subst hx'; simp at hp
        · rw [List.getElem?_modify_ne _ _ hab] at hx'
          obtain ⟨c0, hc0, hl0⟩ := h.mb b x' hx' p hp
          refine ⟨dropPortsOf a c0, by simp [List.getElem?_map, hc0], ?_⟩
          unfold dropPortsOf
          have : (b == a) = false := by simpa using (Ne.symm hab)
          simp [hl0, this]
      · intro b x' p hx'
        by_cases hab : a = b
        · subst hab
          simp only [List.getElem?_modify_eq, ha, Functor.map, Option.map_some, Option.some.injEq] at hx'
          subst hx'; simp
        · rw [List.getElem?_modify_ne _ _ hab] at hx'
          exact h.nd b x' p hx'

end Rpc


/-! ### supervisors: termination events holding the last state -/

namespace Rpc

theorem supHolds_modify {U : List Sup} {u : Nat} {f : Sup → Sup} {b : Nat}
    (hf : ∀ y : Sup, (y.alive && (y.inbox.contains b || y.stash.contains b)) = true →
      ((f y).alive && ((f y).inbox.contains b || (f y).stash.contains b)) = true)
    (h : supHolds U b = true) : supHolds (U.modify u f) b = true := by
  unfold supHolds at *
  rw [List.any_eq_true] at h ⊢
  obtain ⟨x, hx, hxb⟩ := h
  obtain ⟨i, hi⟩ := List.mem_iff_getElem?.mp hx
  by_cases hiu : u = i
  · subst hiu
    refine ⟨f x, ?_, hf x hxb⟩
    apply List.mem_iff_getElem?.mpr
    exact ⟨u, by rw [List.getElem?_modify_eq, hi]; rfl⟩
  · refine ⟨x, ?_, hxb⟩
    apply List.mem_iff_getElem?.mpr
    exact ⟨i, by rw [List.getElem?_modify_ne _ _ hiu]; exact hi⟩

theorem supHolds_iff {U : List Sup} {a : Nat} :
    supHolds U a = true ↔ ∃ (u : Nat) (y : Sup), U[u]? = some y ∧ y.alive = true ∧ (a ∈ y.inbox ∨ a ∈ y.stash) := by
  unfold supHolds
  rw [List.any_eq_true]
  constructor
  · rintro ⟨y, hy, h⟩
    obtain ⟨u, hu⟩ := List.mem_iff_getElem?.mp hy
    simp only [Bool.and_eq_true, Bool.or_eq_true, List.contains_eq_mem, decide_eq_true_eq] at h
    exact ⟨u, y, hu, h.1, h.2⟩
  · rintro ⟨u, y, hu, h1, h2⟩
    refine ⟨y, List.mem_iff_getElem?.mpr ⟨u, hu⟩, ?_⟩
    simp only [Bool.and_eq_true, Bool.or_eq_true, List.contains_eq_mem, decide_eq_true_eq]
    exact ⟨h1, h2⟩

theorem sweep_orphan (s : S) (p : Nat) (c : Call) (a : Nat)
    (hc : s.calls[p]? = some c) (hl : c.loc = .event a) (hno : supHolds s.sups a = false) :
    (sweep s).calls[p]? = some { c with loc := .dropped } := by
  simp only [sweep, List.getElem?_map, hc, Option.map_some, Option.some.injEq]
  unfold dropOrphan
  simp [hl, hno]

/-- replacing the supervisors by ones that hold at least the same events keeps `Pre` -/
theorem pre_sups_mono {s : S} (h : Pre s) (U : List Sup)
    (hm : ∀ b, supHolds s.sups b = true → supHolds U b = true) : Pre { s with sups := U } := by
  refine ⟨h.pre, ?_, h.mb, h.nd⟩
  intro p c hc
  have h0 := h.loc p c hc
  unfold locOk at *
  cases hl : c.loc with
  | event b => simp only [hl] at h0 ⊢; exact hm b h0
  | mailbox b => simp only [hl] at h0 ⊢; exact h0
  | actor b => simp only [hl] at h0 ⊢; exact h0
  | detached => rfl
  | replied v => rfl
  | dropped => rfl

/-- moving the ports of `a`'s state into `a`'s event, once a live supervisor holds that event -/
theorem pre_toEvent {s : S} (h : Pre s) (a : Nat) (ha : supHolds s.sups a = true) :
    Pre { s with calls := s.calls.map (toEvent a) } := by
  refine ⟨?_, ?_, ?_, h.nd⟩
  · intro p c' hc'
    simp only [List.getElem?_map] at hc'
    cases hq : s.calls[p]? with
    | none => rw [hq] at hc'; cases hc'
    | some c0 =>
      rw [hq] at hc'; simp only [Option.map_some, Option.some.injEq] at hc'; subst hc'
      unfold toEvent
      cases hl0 : c0.loc with
      | actor b =>
        simp only
        split
        · exact callPre_setLoc (h.pre p c0 hq) (looseRes_of_live (h.pre p c0 hq) (by simp [hl0])) _
        · exact h.pre p c0 hq
      | mailbox b => exact h.pre p c0 hq
      | event b => exact h.pre p c0 hq
      | detached => exact h.pre p c0 hq
      | replied v => exact h.pre p c0 hq
      | dropped => exact h.pre p c0 hq
  · intro p c' hc'
    simp only [List.getElem?_map] at hc'
    cases hq : s.calls[p]? with
    | none => rw [hq] at hc'; cases hc'
    | some c0 =>
      rw [hq] at hc'; simp only [Option.map_some, Option.some.injEq] at hc'; subst hc'
      have h0 := h.loc p c0 hq
      unfold toEvent
      cases hl0 : c0.loc with
      | actor b =>
        simp only
        split
        · simp only [locOk]; exact ha
        · exact h0
      | mailbox b => exact h0
      | event b => exact h0
      | detached => exact h0
      | replied v => exact h0
      | dropped => exact h0
  · intro b x hx q hqm
    obtain ⟨c0, hc0, hl0⟩ := h.mb b x hx q hqm
    refine ⟨toEvent a c0, by simp [List.getElem?_map, hc0], ?_⟩
    unfold toEvent; simp [hl0]

theorem supHolds_enqueue {U : List Sup} {u a : Nat} {x : Sup} (hx : U[u]? = some x) (halive : x.alive = true) :
    supHolds (U.modify u (fun y => { y with inbox := y.inbox ++ [a] })) a = true := by
  unfold supHolds
  rw [List.any_eq_true]
  refine ⟨{ x with inbox := x.inbox ++ [a] }, ?_, by simp [halive]⟩
  apply List.mem_iff_getElem?.mpr
  exact ⟨u, by rw [List.getElem?_modify_eq, hx]; rfl⟩

theorem pre_stop {s : S} (h : Pre s) (a : Nat) : Pre (stopActor s a) := by
  unfold stopActor
  cases ha : s.actors[a]? with
  | none => exact h
  | some x =>
    simp only
    split
    · cases hs : x.sup with
      | none => exact pre_exit h a
      | some u =>
        simp only
        split
        · rename_i hu
          unfold supAlive at hu
          cases hU : s.sups[u]? with
          | none => simp [hU] at hu
          | some y =>
            simp only [hU] at hu
            have h1 : Pre { s with sups := s.sups.modify u (fun y => { y with inbox := y.inbox ++ [a] }) } :=
              pre_sups_mono h _ (fun b hb => supHolds_modify (fun y hy => by
                simp only [Bool.and_eq_true, Bool.or_eq_true, List.contains_eq_mem, decide_eq_true_eq,
                  List.mem_append] at hy ⊢
                exact ⟨hy.1, hy.2.elim (fun h => Or.inl (Or.inl h)) Or.inr⟩) hb)
            exact pre_exit (pre_toEvent h1 a (supHolds_enqueue hU hu)) a
        · exact pre_exit h a
    · exact h

/-- dropping the ports whose event no live supervisor holds re-establishes `Pre` for ANY new
supervisor list (a supervisor handled, dropped or lost events) -/
theorem pre_sweep_sups {s : S} (h : Pre s) (U : List Sup) : Pre (sweep { s with sups := U }) := by
  refine ⟨?_, ?_, ?_, h.nd⟩
  · intro p c' hc'
    simp only [sweep, List.getElem?_map] at hc'
    cases hq : s.calls[p]? with
    | none => rw [hq] at hc'; cases hc'
    | some c0 =>
      rw [hq] at hc'; simp only [Option.map_some, Option.some.injEq] at hc'; subst hc'
      unfold dropOrphan
      cases hl0 : c0.loc with
      | event b =>
        simp only
        split
        · exact h.pre p c0 hq
        · exact callPre_setLoc (h.pre p c0 hq) (looseRes_of_live (h.pre p c0 hq) (by simp [hl0])) _
      | mailbox b => exact h.pre p c0 hq
      | actor b => exact h.pre p c0 hq
      | detached => exact h.pre p c0 hq
      | replied v => exact h.pre p c0 hq
      | dropped => exact h.pre p c0 hq
  · intro p c' hc'
    simp only [sweep, List.getElem?_map] at hc'
    cases hq : s.calls[p]? with
    | none => rw [hq] at hc'; cases hc'
    | some c0 =>
      rw [hq] at hc'; simp only [Option.map_some, Option.some.injEq] at hc'; subst hc'
      have h0 := h.loc p c0 hq
      simp only [sweep]
      cases hl0 : c0.loc with
      | event b =>
        have hd : dropOrphan U c0 = if supHolds U b = true then c0 else { c0 with loc := .dropped } := by
          unfold dropOrphan; simp only [hl0]
        rw [hd]
        by_cases hh : supHolds U b = true
        · rw [if_pos hh]; unfold locOk; simp only [hl0]; exact hh
        · rw [if_neg hh]; rfl
      | mailbox b =>
        have hd : dropOrphan U c0 = c0 := by unfold dropOrphan; simp only [hl0]
        rw [hd]; unfold locOk at h0 ⊢; simp only [hl0] at h0 ⊢; exact h0
      | actor b =>
        have hd : dropOrphan U c0 = c0 := by unfold dropOrphan; simp only [hl0]
        rw [hd]; unfold locOk at h0 ⊢; simp only [hl0] at h0 ⊢; exact h0
      | detached =>
        have hd : dropOrphan U c0 = c0 := by unfold dropOrphan; simp only [hl0]
        rw [hd]; unfold locOk; simp only [hl0]
      | replied v =>
        have hd : dropOrphan U c0 = c0 := by unfold dropOrphan; simp only [hl0]
        rw [hd]; unfold locOk; simp only [hl0]
      | dropped =>
        have hd : dropOrphan U c0 = c0 := by unfold dropOrphan; simp only [hl0]
        rw [hd]; unfold locOk; simp only [hl0]
  · intro b x hx q hqm
    obtain ⟨c0, hc0, hl0⟩ := h.mb b x hx q hqm
    refine ⟨dropOrphan U c0, by simp [sweep, List.getElem?_map, hc0], ?_⟩
    unfold dropOrphan; simp [hl0]

theorem pre_killChildren {s : S} (h : Pre s) (u : Nat) : Pre (killChildren s u) := by
  unfold killChildren
  generalize List.range s.actors.length = l
  induction l generalizing s with
  | nil => exact h
  | cons a rest ih =>
    simp only [List.foldl_cons]
    apply ih
    cases s.actors[a]? with
    | none => exact h
    | some x =>
      simp only
      split
      · exact pre_exit h a
      · exact h

theorem pre_supExit {s : S} (h : Pre s) (u : Nat) : Pre (supExit s u) := by
  unfold supExit
  cases s.sups[u]? with
  | none => exact h
  | some x =>
    simp only
    split
    · exact pre_killChildren (pre_sweep_sups h _) u
    · exact h

/-- appending an actor with an empty mailbox keeps `Pre` -/
theorem pre_addActor {s : S} (h : Pre s) (y : Actor) (hy : y.mailbox = []) :
    Pre { s with actors := s.actors ++ [y] } := by
  have hget : ∀ (a : Nat) (x : Actor), s.actors[a]? = some x → (s.actors ++ [y])[a]? = some x := by
    intro a x hx
    rw [List.getElem?_append_left (List.getElem?_eq_some_iff.mp hx).1]; exact hx
  have hinv : ∀ (a : Nat) (x : Actor), (s.actors ++ [y])[a]? = some x →
      s.actors[a]? = some x ∨ x.mailbox = [] := by
    intro a x hx
    rw [List.getElem?_append] at hx
    split at hx
    · exact Or.inl hx
    · right
      have := List.mem_of_getElem? hx
      simp at this; subst this; exact hy
  refine ⟨h.pre, ?_, ?_, ?_⟩
  · intro p c hc
    have h0 := h.loc p c hc
    unfold locOk at *
    cases hl : c.loc with
    | mailbox a =>
      simp only [hl] at h0 ⊢
      cases hA : s.actors[a]? with
      | none => simp [hA] at h0
      | some x => rw [hget a x hA]; simpa [hA] using h0
    | actor a =>
      simp only [hl] at h0 ⊢
      cases hA : s.actors[a]? with
      | none => simp [hA] at h0
      | some x => rw [hget a x hA]; simpa [hA] using h0
    | event a => simp only [hl] at h0 ⊢; exact h0
    | detached => rfl
    | replied v => rfl
    | dropped => rfl
  · intro a x hx p hp
    rcases hinv a x hx with h1 | h1
    · exact h.mb a x h1 p hp
    · rw [h1] at hp; simp at hp
  · intro a x p hx
    rcases hinv a x hx with h1 | h1
    · exact h.nd a x p h1
    · rw [h1]; simp

end Rpc

namespace Rpc

theorem pre_sent {s : S} (h : Pre s) (x : List (Nat × Nat)) : Pre { s with sent := x } :=
  ⟨h.pre, h.loc, h.mb, h.nd⟩

theorem locOk_loc_of_alive (A : List Actor) (U : List Sup) (c : Call) (l : Loc)
    (hl : match l with
      | .mailbox a => (match A[a]? with | some x => x.alive | none => false) = true
      | .actor a => (match A[a]? with | some x => x.alive | none => false) = true
      | .event a => supHolds U a = true
      | _ => True) : locOk A U { c with loc := l } = true := by
  unfold locOk
  cases l <;> first | exact hl | rfl

theorem pre_handle {s : S} (h : Pre s) (a : Nat) (act : Act) : Pre (handleCore s a act) := by
  unfold handleCore
  cases ha : s.actors[a]? with
  | none => exact h
  | some x =>
    simp only
    cases halive : x.alive with
    | false => simpa using h
    | true =>
      simp only [Bool.not_true, Bool.false_eq_true, if_false]
      cases hm : x.mailbox with
      | nil =>
        simp only
        split
        · exact pre_stop h a
        · exact h
      | cons it rest =>
        have hshrink : ∀ g : Actor → Actor, (∀ y, (g y).alive = y.alive) → (∀ y, (g y).mailbox = y.mailbox.tail) →
            Pre (setActor s a g) := fun g h1 h2 =>
          pre_shrink_mailbox h a g h1 (fun y => by rw [h2]; exact List.tail_sublist _)
        cases it with
        | fwd v =>
          simp only
          exact hshrink _ (fun _ => rfl) (fun _ => rfl)
        | call p =>
          simp only
          have h1 : Pre (setActor s a (fun y => { y with mailbox := y.mailbox.tail })) :=
            hshrink _ (fun _ => rfl) (fun _ => rfl)
          obtain ⟨c, hc, hlc⟩ := h.mb a x ha p (by rw [hm]; simp)
          -- after the dequeue `call p` is in no mailbox
          have hnot : ∀ (b : Nat) (y : Actor),
              (setActor s a (fun y => { y with mailbox := y.mailbox.tail })).actors[b]? = some y →
              Item.call p ∉ y.mailbox := by
            intro b y hy hmem
            simp only [setActor, List.getElem?_modify, Functor.map] at hy
            cases hb : s.actors[b]? with
            | none => rw [hb] at hy; cases hy
            | some y0 =>
              rw [hb] at hy
              simp only [Option.map_some, Option.some.injEq] at hy
              by_cases hab : a = b
              · subst hab
                rw [ha] at hb; cases hb
                simp only [if_true] at hy; subst hy
                simp only [hm, List.tail_cons] at hmem
                have hcnt := h.nd a x p ha
                rw [hm, List.count_cons] at hcnt
                have : rest.count (Item.call p) = 0 := by simp at hcnt; omega
                exact (List.count_eq_zero.mp this) hmem
              · simp only [hab, if_false] at hy; subst hy
                obtain ⟨c1, hc1, hl1⟩ := h.mb b y0 hb p hmem
                rw [hc] at hc1; cases hc1
                rw [hlc] at hl1; cases hl1; exact hab rfl
          have hc' : (setActor s a (fun y => { y with mailbox := y.mailbox.tail })).calls[p]? = some c := hc
          have hloose : looseRes c = true := looseRes_of_loc_live h hc (by simp [hlc])
          have halive' : (match (setActor s a (fun y => { y with mailbox := y.mailbox.tail })).actors[a]? with
              | some x => x.alive | none => false) = true := by
            simp [setActor, List.getElem?_modify_eq, ha, Functor.map, halive]
          unfold applyAct
          cases act with
          | reply v => exact pre_sent (pre_setLoc h1 p c hc' hloose _ hnot (locOk_loc_of_alive _ _ _ _ trivial)) _
          | drop => exact pre_setLoc h1 p c hc' hloose _ hnot (locOk_loc_of_alive _ _ _ _ trivial)
          | keep => exact pre_setLoc h1 p c hc' hloose _ hnot (locOk_loc_of_alive _ _ _ _ halive')
          | detach => exact pre_setLoc h1 p c hc' hloose _ hnot (locOk_loc_of_alive _ _ _ _ trivial)

theorem pre_later {s : S} (h : Pre s) (p : Nat) (act : Act) : Pre (stepCore s (.later p act)) := by
  simp only [stepCore]
  cases hc : s.calls[p]? with
  | none => exact h
  | some c =>
    simp only
    have hnot : (∀ a, c.loc ≠ .mailbox a) → ∀ (b : Nat) (y : Actor), s.actors[b]? = some y → Item.call p ∉ y.mailbox := by
      intro hne b y hy hmem
      obtain ⟨c1, hc1, hl1⟩ := h.mb b y hy p hmem
      rw [hc] at hc1; cases hc1
      exact hne b hl1
    cases hl : c.loc with
    | mailbox a => cases act <;> exact h
    | replied v => cases act <;> exact h
    | dropped => cases act <;> exact h
    | actor a =>
      have hloose : looseRes c = true := looseRes_of_loc_live h hc (by simp [hl])
      have hn := fun b y => hnot (by simp [hl]) b y
      cases act with
      | reply v => exact pre_sent (pre_setLoc h p c hc hloose _ hn (locOk_loc_of_alive _ _ _ _ trivial)) _
      | drop => exact pre_setLoc h p c hc hloose _ hn (locOk_loc_of_alive _ _ _ _ trivial)
      | keep => exact h
      | detach => exact h
    | detached =>
      have hloose : looseRes c = true := looseRes_of_loc_live h hc (by simp [hl])
      have hn := fun b y => hnot (by simp [hl]) b y
      cases act with
      | reply v => exact pre_sent (pre_setLoc h p c hc hloose _ hn (locOk_loc_of_alive _ _ _ _ trivial)) _
      | drop => exact pre_setLoc h p c hc hloose _ hn (locOk_loc_of_alive _ _ _ _ trivial)
      | keep => exact h
      | detach => exact h
    | event a =>
      have hloose : looseRes c = true := looseRes_of_loc_live h hc (by simp [hl])
      have hn := fun b y => hnot (by simp [hl]) b y
      cases act with
      | reply v =>
        simp only
        split
        · exact pre_sent (pre_setLoc h p c hc hloose _ hn (locOk_loc_of_alive _ _ _ _ trivial)) _
        · exact h
      | drop =>
        simp only
        split
        · exact pre_setLoc h p c hc hloose _ hn (locOk_loc_of_alive _ _ _ _ trivial)
        · exact h
      | keep => exact h
      | detach => exact h

end Rpc

namespace Rpc

theorem pre_sendCall {s : S} (h : Pre s) (a : Nat) (t g f : Option Nat) : Pre (sendCall s a t g f).1 := by
  unfold sendCall
  simp only
  have hlt : ∀ (q : Nat) (c : Call), s.calls[q]? = some c → q < s.calls.length := by
    intro q c hq
    exact (List.getElem?_eq_some_iff.mp hq).1
  split
  · rename_i hacc
    -- accepted: new call appended, `call p` appended to a's mailbox
    have hax : ∃ x, s.actors[a]? = some x ∧ x.alive = true := by
      unfold accepting at hacc
      cases ha : s.actors[a]? with
      | none => simp [ha] at hacc
      | some x => simp [ha] at hacc; exact ⟨x, rfl, hacc.1⟩
    obtain ⟨x, hax, hxalive⟩ := hax
    refine ⟨?_, ?_, ?_, ?_⟩
    · intro q c hq
      simp only [List.getElem?_append] at hq
      split at hq
      · exact h.pre q c hq
      · have hmem := List.mem_of_getElem? hq
        simp only [List.mem_singleton] at hmem
        subst hmem
        rfl
    · intro q c hq
      simp only [List.getElem?_append] at hq
      have hal : ∀ b : Nat, ((s.actors.modify a (fun x => { x with mailbox := x.mailbox ++ [Item.call s.calls.length] }))[b]?).map (·.alive)
          = (s.actors[b]?).map (·.alive) := by
        intro b
        rw [List.getElem?_modify]
        cases s.actors[b]? with
        | none => rfl
        | some y => by_cases hab : a = b <;> simp [hab]
      split at hq
      · exact locOk_congr hal (h.loc q c hq)
      · have hmem := List.mem_of_getElem? hq
        simp only [List.mem_singleton] at hmem
        subst hmem
        simp [locOk, List.getElem?_modify_eq, hax, Functor.map, hxalive]
    · intro b y hy q hqm
      rw [List.getElem?_modify] at hy
      cases hb : s.actors[b]? with
      | none => rw [hb] at hy; cases hy
      | some y0 =>
        rw [hb] at hy
        simp only [Functor.map, Option.map_some, Option.some.injEq] at hy
        by_cases hab : a = b
        · subst hab
          simp only [if_true] at hy; subst hy
          simp only [List.mem_append, List.mem_singleton] at hqm
          rcases hqm with hqm | hqm
          · obtain ⟨c0, hc0, hl0⟩ := h.mb a y0 hb q hqm
            exact ⟨c0, by rw [List.getElem?_append_left (hlt q c0 hc0)]; exact hc0, hl0⟩
          · cases hqm
            exact ⟨_, by rw [List.getElem?_append_right (Nat.le_refl _), Nat.sub_self]; rfl, rfl⟩
        · simp only [hab, if_false] at hy; subst hy
          obtain ⟨c0, hc0, hl0⟩ := h.mb b y0 hb q hqm
          exact ⟨c0, by rw [List.getElem?_append_left (hlt q c0 hc0)]; exact hc0, hl0⟩
    · intro b y q hy
      rw [List.getElem?_modify] at hy
      cases hb : s.actors[b]? with
      | none => rw [hb] at hy; cases hy
      | some y0 =>
        rw [hb] at hy
        simp only [Functor.map, Option.map_some, Option.some.injEq] at hy
        by_cases hab : a = b
        · subst hab
          simp only [if_true] at hy; subst hy
          simp only [List.count_append, List.count_cons, List.count_nil]
          have h0 := h.nd a y0 q hb
          by_cases hq : q = s.calls.length
          · subst hq
            -- the fresh port occurs in no mailbox yet
            have : y0.mailbox.count (Item.call s.calls.length) = 0 := by
              rw [List.count_eq_zero]
              intro hmem
              obtain ⟨c0, hc0, _⟩ := h.mb a y0 hb _ hmem
              exact Nat.lt_irrefl _ (hlt _ c0 hc0)
            simp [this]
          · have : (Item.call s.calls.length == Item.call q) = false := by
              simp; exact fun h => hq h.symm
            simp [this]; exact h0
        · simp only [hab, if_false] at hy; subst hy
          exact h.nd b y0 q hb
  · -- rejected: the port is created and dropped at once
    refine ⟨?_, ?_, h.mb |> fun hm => ?_, h.nd⟩
    · intro q c hq
      simp only [List.getElem?_append] at hq
      split at hq
      · exact h.pre q c hq
      · have hmem := List.mem_of_getElem? hq
        simp only [List.mem_singleton] at hmem
        subst hmem
        rfl
    · intro q c hq
      simp only [List.getElem?_append] at hq
      split at hq
      · exact h.loc q c hq
      · have hmem := List.mem_of_getElem? hq
        simp only [List.mem_singleton] at hmem
        subst hmem
        rfl
    · intro b y hy q hqm
      obtain ⟨c0, hc0, hl0⟩ := hm b y hy q hqm
      exact ⟨c0, by rw [List.getElem?_append_left (hlt q c0 hc0)]; exact hc0, hl0⟩

end Rpc

namespace Rpc

/-- changing only results (to values allowed by `callPre`) keeps `Pre` -/
theorem pre_abandon {s : S} (h : Pre s) (g : Nat) :
    Pre { s with calls := s.calls.map (fun c =>
      if c.group == some g && c.res == none then { c with res := some .abandoned } else c) } := by
  refine ⟨?_, ?_, ?_, h.nd⟩
  · intro q c' hq
    simp only [List.getElem?_map] at hq
    cases hs : s.calls[q]? with
    | none => rw [hs] at hq; cases hq
    | some c =>
      rw [hs] at hq; simp only [Option.map_some, Option.some.injEq] at hq; subst hq
      split
      · rename_i hc
        simp only [Bool.and_eq_true, beq_iff_eq] at hc
        simp [callPre, hc.1]
      · exact h.pre q c hs
  · intro q c' hq
    simp only [List.getElem?_map] at hq
    cases hs : s.calls[q]? with
    | none => rw [hs] at hq; cases hq
    | some c =>
      rw [hs] at hq; simp only [Option.map_some, Option.some.injEq] at hq; subst hq
      have := h.loc q c hs
      split
      · unfold locOk at *; exact this
      · exact this
  · intro a x hx p hp
    obtain ⟨c, hc, hl⟩ := h.mb a x hx p hp
    refine ⟨_, by simp only [List.getElem?_map, hc, Option.map_some]; rfl, ?_⟩
    split <;> exact hl

theorem pre_sendMulti {s : S} (h : Pre s) (g : Nat) (t : Option Nat) (as : List Nat) :
    Pre (sendMulti s g t as) := by
  induction as generalizing s with
  | nil => exact h
  | cons a rest ih =>
    simp only [sendMulti]
    have h1 := pre_sendCall h a t (some g) none
    split
    · exact ih h1
    · exact pre_abandon h1 g

theorem pre_stepCore {s : S} (h : Pre s) (op : Op) : Pre (stepCore s op) := by
  cases op with
  | spawn =>
    simp only [stepCore]
    exact pre_addActor h _ rfl
  | call a t => exact pre_sendCall h a t none none
  | mcall as t =>
    simp only [stepCore]
    have := pre_sendMulti h s.groups t as
    exact ⟨this.pre, this.loc, this.mb, this.nd⟩
  | fcall a f t => exact pre_sendCall h a t none (some f)
  | handle a act => exact pre_handle h a act
  | later p act => exact pre_later h p act
  | exit a => exact pre_exit h a
  | stop a act =>
    simp only [stepCore]
    exact pre_stop (pre_handle h a act) a
  | drain a =>
    simp only [stepCore]
    exact pre_shrink_mailbox h a _ (fun x => by split <;> rfl) (fun x => by split <;> exact List.Sublist.refl _)
  | advance d =>
    simp only [stepCore]
    exact ⟨fun p c hc => callPre_mono (Nat.le_add_right _ _) (h.pre p c hc), h.loc, h.mb, h.nd⟩
  | spawnSup =>
    simp only [stepCore]
    exact pre_sups_mono h _ (fun b hb => by
      unfold supHolds at *; rw [List.any_append, hb]; rfl)
  | spawnl u =>
    simp only [stepCore]
    split
    · exact pre_addActor h _ rfl
    · exact h
  | suphandle u keep =>
    simp only [stepCore]
    cases hU : s.sups[u]? with
    | none => exact h
    | some x =>
      simp only
      split
      · exact h
      · cases hin : x.inbox with
        | nil => exact h
        | cons a rest =>
          simp only
          split
          · apply pre_sups_mono h
            intro b hb
            -- every event of the supervisor is still held (the head moved from the inbox to the stash)
            unfold supHolds at *
            rw [List.any_eq_true] at hb ⊢
            obtain ⟨y, hy, hyb⟩ := hb
            obtain ⟨i, hi⟩ := List.mem_iff_getElem?.mp hy
            by_cases hiu : u = i
            · subst hiu
              rw [hU] at hi; cases hi
              refine ⟨{ x with inbox := rest, stash := x.stash ++ [a] }, ?_, ?_⟩
              · apply List.mem_iff_getElem?.mpr
                exact ⟨u, by rw [List.getElem?_modify_eq, hU]; rfl⟩
              · simp only [hin, Bool.and_eq_true, Bool.or_eq_true, List.contains_eq_mem, decide_eq_true_eq,
                  List.mem_append, List.mem_cons, List.mem_singleton, List.not_mem_nil, or_false] at hyb ⊢
                refine ⟨hyb.1, ?_⟩
                rcases hyb.2 with (h1 | h1) | h1
                · exact Or.inr (Or.inr h1)
                · exact Or.inl h1
                · exact Or.inr (Or.inl h1)
            · refine ⟨y, ?_, hyb⟩
              apply List.mem_iff_getElem?.mpr
              exact ⟨i, by rw [List.getElem?_modify_ne _ _ hiu]; exact hi⟩
          · exact pre_sweep_sups h _
  | supdrop u a =>
    simp only [stepCore]
    cases hU : s.sups[u]? with
    | none => exact h
    | some x =>
      simp only
      split
      · exact pre_sweep_sups h _
      · exact h
  | supexit u => exact pre_supExit h u
  | cast a v =>
    simp only [stepCore]
    exact pre_ext h _ (Ext.modify s.actors a v)
  | handleAt a act d =>
    simp only [stepCore]
    have h1 := pre_handle h a act
    exact ⟨fun p c hc => callPre_mono (Nat.le_add_right _ _) (h1.pre p c hc), h1.loc, h1.mb, h1.nd⟩
  | fail a =>
    simp only [stepCore]
    cases s.actors[a]? with
    | none => exact h
    | some x =>
      simp only
      split
      · exact pre_exit h a
      · exact h

end Rpc

namespace Rpc

theorem pre_drainExits {s : S} (h : Pre s) : Pre (drainExits s) := by
  unfold drainExits
  generalize List.range s.actors.length = l
  induction l generalizing s with
  | nil => exact h
  | cons a rest ih =>
    simp only [List.foldl_cons]
    apply ih
    cases s.actors[a]? with
    | none => exact h
    | some x =>
      simp only
      split
      · exact pre_stop h a
      · exact h

theorem ok_of_inv {s : S} (h : Inv s) : ok s = true := by
  unfold ok
  rw [List.all_eq_true]
  intro c hc
  obtain ⟨p, hp⟩ := List.mem_iff_getElem?.mp hc
  simp [h.okc p c hp, h.loc p c hp]

end Rpc

namespace Rpc

theorem sendCall_callees (s : S) (a : Nat) (t g f : Option Nat) :
    (sendCall s a t g f).1.calls.map (·.callee) = s.calls.map (·.callee) ++ [a] := by
  unfold sendCall; simp only; split <;> simp

theorem sendMulti_callees (s : S) (g : Nat) (t : Option Nat) (as : List Nat) :
    ∃ k, (sendMulti s g t as).calls.map (·.callee) = s.calls.map (·.callee) ++ as.take k := by
  induction as generalizing s with
  | nil => exact ⟨0, by simp [sendMulti]⟩
  | cons a rest ih =>
    simp only [sendMulti]
    split
    · obtain ⟨k, hk⟩ := ih (sendCall s a t (some g) none).1
      exact ⟨k + 1, by rw [hk, sendCall_callees]; simp⟩
    · refine ⟨1, ?_⟩
      simp only [List.map_map]
      have : (List.map ((fun x => x.callee) ∘ fun c => if (c.group == some g && c.res == none) = true then
          ({ c with res := some Res.abandoned } : Call) else c) (sendCall s a t (some g) none).1.calls)
          = (sendCall s a t (some g) none).1.calls.map (·.callee) := by
        apply List.map_congr_left
        intro c _; simp only [Function.comp]; split <;> rfl
      rw [this, sendCall_callees]; simp

theorem resolveCall_of_resolved (now : Nat) (c : Call) (h : c.res ≠ none) : resolveCall now c = c := by
  unfold resolveCall
  cases hr : c.res with
  | none => exact absurd hr h
  | some r => rfl

theorem deliverForwards_resolved (cs : List Call) (A : List Actor) (h : ∀ c ∈ cs, c.res ≠ none) :
    deliverForwards cs (cs.map (resolveCall 0)) A = A := by
  unfold deliverForwards
  simp only
  rw [List.filterMap_eq_nil_iff.mpr]
  · rfl
  · rintro ⟨b, a⟩ hx
    have hb : b ∈ cs := (List.of_mem_zip hx).1
    cases hr : b.res with
    | none => exact absurd hr (h b hb)
    | some r => simp [hr]

end Rpc

/-! ### ownership: a port queued at / held by an actor (or inside its termination event) belongs
to a call made to that actor -/

namespace Rpc

def ownedBy (l : Loc) (a : Nat) : Prop := l = .mailbox a ∨ l = .actor a ∨ l = .event a

def Own (s : S) : Prop :=
  ∀ (p : Nat) (c : Call), s.calls[p]? = some c → ∀ a : Nat, ownedBy c.loc a → c.callee = a

theorem own_init : Own init := by intro p c hc; simp [init] at hc

theorem resolveCall_callee (now : Nat) (c : Call) : (resolveCall now c).callee = c.callee := by
  unfold resolveCall
  repeat (first | rfl | split)

theorem own_resolveLocal {s : S} (h : Own s) : Own (resolveLocal s) := by
  intro p c' hc' a hl
  simp only [resolveLocal, List.getElem?_map] at hc'
  cases hs : s.calls[p]? with
  | none => rw [hs] at hc'; cases hc'
  | some c =>
    rw [hs] at hc'; simp only [Option.map_some, Option.some.injEq] at hc'; subst hc'
    rw [resolveCall_callee]; rw [resolveCall_loc] at hl
    exact h p c hs a hl

theorem own_calls_eq {s s' : S} (h : Own s) (he : s'.calls = s.calls) : Own s' := by
  intro p c hc; rw [he] at hc; exact h p c hc

/-- mapping the calls by a function that keeps the callee and creates no new ownership -/
theorem own_map {s s' : S} (h : Own s) (f : Call → Call) (he : s'.calls = s.calls.map f)
    (hcal : ∀ c, (f c).callee = c.callee)
    (hloc : ∀ c b, c.callee = c.callee → ownedBy (f c).loc b → ownedBy c.loc b ∨ c.callee = b) : Own s' := by
  intro p c' hc' b hl
  rw [he, List.getElem?_map] at hc'
  cases hs : s.calls[p]? with
  | none => rw [hs] at hc'; cases hc'
  | some c =>
    rw [hs] at hc'; simp only [Option.map_some, Option.some.injEq] at hc'; subst hc'
    rw [hcal]
    rcases hloc c b rfl hl with h1 | h1
    · exact h p c hs b h1
    · exact h1

theorem own_setCall {s : S} (h : Own s) (p : Nat) (l : Loc)
    (hl : ∀ c, s.calls[p]? = some c → ∀ a : Nat, ownedBy l a → c.callee = a) :
    Own (setCall s p (fun c => { c with loc := l })) := by
  intro q c' hc' a hla
  simp only [setCall, List.getElem?_modify, Functor.map] at hc'
  cases hq : s.calls[q]? with
  | none => rw [hq] at hc'; cases hc'
  | some c0 =>
    rw [hq] at hc'; simp only [Option.map_some, Option.some.injEq] at hc'; subst hc'
    by_cases hpq : p = q
    · subst hpq
      simp only [if_true] at hla ⊢
      exact hl c0 hq a hla
    · simp only [hpq, if_false] at hla ⊢
      exact h q c0 hq a hla

theorem not_ownedBy_replied (v a : Nat) : ¬ ownedBy (.replied v) a := by
  intro h; rcases h with h | h | h <;> cases h
theorem not_ownedBy_dropped (a : Nat) : ¬ ownedBy .dropped a := by
  intro h; rcases h with h | h | h <;> cases h
theorem not_ownedBy_detached (a : Nat) : ¬ ownedBy .detached a := by
  intro h; rcases h with h | h | h <;> cases h

theorem dropPortsOf_callee (a : Nat) (c : Call) : (dropPortsOf a c).callee = c.callee := by
  unfold dropPortsOf
  repeat (first | rfl | split)

theorem dropPortsOf_live (a : Nat) (c : Call) (b : Nat)
    (h : ownedBy (dropPortsOf a c).loc b) : ownedBy c.loc b := by
  unfold dropPortsOf at h
  cases hcl : c.loc with
  | mailbox d =>
    rw [hcl] at h
    simp only at h
    split at h
    · exact absurd h (not_ownedBy_dropped b)
    · rw [hcl] at h; exact h
  | actor d =>
    rw [hcl] at h
    simp only at h
    split at h
    · exact absurd h (not_ownedBy_dropped b)
    · rw [hcl] at h; exact h
  | event d => rw [hcl] at h; simp only at h; rw [hcl] at h; exact h
  | detached => rw [hcl] at h; simp only at h; rw [hcl] at h; exact h
  | replied v => rw [hcl] at h; simp only at h; rw [hcl] at h; exact h
  | dropped => rw [hcl] at h; simp only at h; rw [hcl] at h; exact h

theorem own_exit {s : S} (h : Own s) (a : Nat) : Own (exitActor s a) := by
  unfold exitActor
  cases s.actors[a]? with
  | none => exact h
  | some x =>
    simp only
    split
    · exact own_map h (dropPortsOf a) rfl (dropPortsOf_callee a)
        (fun c b _ hb => Or.inl (dropPortsOf_live a c b hb))
    · exact h

theorem toEvent_callee (a : Nat) (c : Call) : (toEvent a c).callee = c.callee := by
  unfold toEvent
  repeat (first | rfl | split)

theorem toEvent_live (a : Nat) (c : Call) (b : Nat) (h : ownedBy (toEvent a c).loc b) :
    ownedBy c.loc b := by
  unfold toEvent at h
  cases hcl : c.loc with
  | actor d =>
    rw [hcl] at h
    simp only at h
    split at h
    · rename_i hda
      have hda : d = a := by simpa using hda
      subst hda
      rcases h with h | h | h
      · cases h
      · cases h
      · cases h; exact Or.inr (Or.inl rfl)
    · rw [hcl] at h; exact h
  | mailbox d => rw [hcl] at h; simp only at h; rw [hcl] at h; exact h
  | event d => rw [hcl] at h; simp only at h; rw [hcl] at h; exact h
  | detached => rw [hcl] at h; simp only at h; rw [hcl] at h; exact h
  | replied v => rw [hcl] at h; simp only at h; rw [hcl] at h; exact h
  | dropped => rw [hcl] at h; simp only at h; rw [hcl] at h; exact h

theorem own_stop {s : S} (h : Own s) (a : Nat) : Own (stopActor s a) := by
  unfold stopActor
  cases s.actors[a]? with
  | none => exact h
  | some x =>
    simp only
    split
    · cases x.sup with
      | none => exact own_exit h a
      | some u =>
        simp only
        split
        · apply own_exit
          exact own_map h (toEvent a) rfl (toEvent_callee a) (fun c b _ hb => Or.inl (toEvent_live a c b hb))
        · exact own_exit h a
    · exact h

theorem dropOrphan_callee (U : List Sup) (c : Call) : (dropOrphan U c).callee = c.callee := by
  unfold dropOrphan
  repeat (first | rfl | split)

theorem dropOrphan_live (U : List Sup) (c : Call) (b : Nat) (h : ownedBy (dropOrphan U c).loc b) :
    ownedBy c.loc b := by
  unfold dropOrphan at h
  cases hcl : c.loc with
  | event d =>
    rw [hcl] at h
    simp only at h
    split at h
    · rw [hcl] at h; exact h
    · exact absurd h (not_ownedBy_dropped b)
  | mailbox d => rw [hcl] at h; simp only at h; rw [hcl] at h; exact h
  | actor d => rw [hcl] at h; simp only at h; rw [hcl] at h; exact h
  | detached => rw [hcl] at h; simp only at h; rw [hcl] at h; exact h
  | replied v => rw [hcl] at h; simp only at h; rw [hcl] at h; exact h
  | dropped => rw [hcl] at h; simp only at h; rw [hcl] at h; exact h

theorem own_sweep {s : S} (h : Own s) (U : List Sup) : Own (sweep { s with sups := U }) :=
  own_map h (dropOrphan U) rfl (dropOrphan_callee U) (fun c b _ hb => Or.inl (dropOrphan_live U c b hb))

theorem own_fold_exit {s : S} (h : Own s) (l : List Nat) (P : S → Nat → Bool) :
    Own (l.foldl (fun s a => if P s a then exitActor s a else s) s) := by
  induction l generalizing s with
  | nil => exact h
  | cons a rest ih =>
    simp only [List.foldl_cons]
    apply ih
    split
    · exact own_exit h a
    · exact h

theorem own_killChildren {s : S} (h : Own s) (u : Nat) : Own (killChildren s u) := by
  unfold killChildren
  generalize List.range s.actors.length = l
  induction l generalizing s with
  | nil => exact h
  | cons a rest ih =>
    simp only [List.foldl_cons]
    apply ih
    cases s.actors[a]? with
    | none => exact h
    | some x =>
      simp only
      split
      · exact own_exit h a
      · exact h

theorem own_supExit {s : S} (h : Own s) (u : Nat) : Own (supExit s u) := by
  unfold supExit
  cases s.sups[u]? with
  | none => exact h
  | some x =>
    simp only
    split
    · exact own_killChildren (own_sweep h _) u
    · exact h

theorem own_drainExits {s : S} (h : Own s) : Own (drainExits s) := by
  unfold drainExits
  generalize List.range s.actors.length = l
  induction l generalizing s with
  | nil => exact h
  | cons a rest ih =>
    simp only [List.foldl_cons]
    apply ih
    cases s.actors[a]? with
    | none => exact h
    | some x =>
      simp only
      split
      · exact own_stop h a
      · exact h

theorem own_sendCall {s : S} (h : Own s) (a : Nat) (t g f : Option Nat) : Own (sendCall s a t g f).1 := by
  unfold sendCall
  simp only
  split
  all_goals
    intro q c hq b hl
    simp only [List.getElem?_append] at hq
    split at hq
    · exact h q c hq b hl
    · have := List.mem_of_getElem? hq
      simp only [List.mem_singleton] at this
      subst this
      rcases hl with hl | hl | hl <;> simp at hl <;> first | exact hl | skip

theorem own_sendMulti {s : S} (h : Own s) (g : Nat) (t : Option Nat) (as : List Nat) :
    Own (sendMulti s g t as) := by
  induction as generalizing s with
  | nil => exact h
  | cons a rest ih =>
    simp only [sendMulti]
    have h1 := own_sendCall h a t (some g) none
    split
    · exact ih h1
    · intro p c' hc' b hl
      simp only [List.getElem?_map] at hc'
      cases hs : (sendCall s a t (some g) none).1.calls[p]? with
      | none => rw [hs] at hc'; cases hc'
      | some c =>
        rw [hs] at hc'; simp only [Option.map_some, Option.some.injEq] at hc'; subst hc'
        split at hl <;> split <;> exact h1 p c hs b hl

theorem own_handle {s : S} (hp : Pre s) (h : Own s) (a : Nat) (act : Act) : Own (handleCore s a act) := by
  unfold handleCore
  cases ha : s.actors[a]? with
  | none => exact h
  | some x =>
    simp only
    split
    · exact h
    · cases hm : x.mailbox with
      | nil => simp only; split; exact own_stop h a; exact h
      | cons it rest =>
        cases it with
        | fwd v => exact own_calls_eq h rfl
        | call p =>
          simp only
          have h1 : Own (setActor s a (fun y => { y with mailbox := y.mailbox.tail })) := own_calls_eq h rfl
          obtain ⟨c, hc, hlc⟩ := hp.mb a x ha p (by rw [hm]; simp)
          have hcal : c.callee = a := h p c hc a (Or.inl hlc)
          unfold applyAct
          cases act with
          | reply v => exact own_calls_eq (own_setCall h1 p _ (fun _ _ b hb => absurd hb (not_ownedBy_replied v b))) rfl
          | drop => exact own_setCall h1 p _ (fun _ _ b hb => absurd hb (not_ownedBy_dropped b))
          | detach => exact own_setCall h1 p _ (fun _ _ b hb => absurd hb (not_ownedBy_detached b))
          | keep =>
            refine own_setCall h1 p _ (fun c' hc' b hb => ?_)
            have : c' = c := by
              have : (setActor s a (fun y => { y with mailbox := y.mailbox.tail })).calls[p]? = some c := hc
              rw [this] at hc'; exact (Option.some.inj hc').symm
            subst this
            rcases hb with hb | hb | hb
            · cases hb
            · cases hb; exact hcal
            · cases hb

theorem own_stepCore {s : S} (hp : Pre s) (h : Own s) (op : Op) : Own (stepCore s op) := by
  cases op with
  | spawn => exact own_calls_eq h rfl
  | call a t => exact own_sendCall h a t none none
  | mcall as t =>
    simp only [stepCore]
    exact own_calls_eq (own_sendMulti h s.groups t as) rfl
  | fcall a f t => exact own_sendCall h a t none (some f)
  | handle a act => exact own_handle hp h a act
  | later p act =>
    simp only [stepCore]
    cases hc : s.calls[p]? with
    | none => exact h
    | some c =>
      simp only
      cases c.loc <;> cases act <;> simp only <;> first
        | exact h
        | exact own_calls_eq (own_setCall h p _ (fun _ _ b hb => absurd hb (not_ownedBy_replied _ b))) rfl
        | exact own_setCall h p _ (fun _ _ b hb => absurd hb (not_ownedBy_dropped b))
        | (split
           · first
             | exact own_calls_eq (own_setCall h p _ (fun _ _ b hb => absurd hb (not_ownedBy_replied _ b))) rfl
             | exact own_setCall h p _ (fun _ _ b hb => absurd hb (not_ownedBy_dropped b))
           · exact h)
  | exit a => exact own_exit h a
  | stop a act =>
    simp only [stepCore]
    exact own_stop (own_handle hp h a act) a
  | drain a => exact own_calls_eq h rfl
  | advance d => exact own_calls_eq h rfl
  | spawnSup => exact own_calls_eq h rfl
  | spawnl u =>
    simp only [stepCore]
    split
    · exact own_calls_eq h rfl
    · exact h
  | suphandle u keep =>
    simp only [stepCore]
    cases s.sups[u]? with
    | none => exact h
    | some x =>
      simp only
      split
      · exact h
      · cases x.inbox with
        | nil => exact h
        | cons a rest =>
          simp only
          split
          · exact own_calls_eq h rfl
          · exact own_sweep h _
  | supdrop u a =>
    simp only [stepCore]
    cases s.sups[u]? with
    | none => exact h
    | some x =>
      simp only
      split
      · exact own_sweep h _
      · exact h
  | supexit u => exact own_supExit h u
  | cast a v => exact own_calls_eq h rfl
  | handleAt a act d => exact own_calls_eq (own_handle hp h a act) rfl
  | fail a =>
    simp only [stepCore]
    cases s.actors[a]? with
    | none => exact h
    | some x =>
      simp only
      split
      · exact own_exit h a
      · exact h

end Rpc

/-! ### wiring: every caller reads the port it created, and a port carries at most the one value
that was sent on it (`S.sent` = ghost history of all `RpcReplyPort::send`s) -/

namespace Rpc

structure Wire (s : S) : Prop where
  /-- the receiving half a caller awaits belongs to the port it sent (`rx = p`) -/
  rx : ∀ (p : Nat) (c : Call), s.calls[p]? = some c → c.rx = p
  /-- the channel of port `p` holds `v` iff `send(v)` was performed on port `p` -/
  sent : ∀ (p : Nat) (c : Call), s.calls[p]? = some c → ∀ v : Nat, ((p, v) ∈ s.sent ↔ c.loc = .replied v)
  bound : ∀ (p v : Nat), (p, v) ∈ s.sent → p < s.calls.length

theorem wire_init : Wire init := by
  refine ⟨?_, ?_, ?_⟩ <;> intros <;> simp_all [init]

theorem wire_frame {s s' : S} (h : Wire s) (he : s'.calls = s.calls) (hs : s'.sent = s.sent) : Wire s' := by
  refine ⟨?_, ?_, ?_⟩
  · intro p c hc; rw [he] at hc; exact h.rx p c hc
  · intro p c hc v; rw [he] at hc; rw [hs]; exact h.sent p c hc v
  · intro p v hv; rw [hs] at hv; rw [he]; exact h.bound p v hv

theorem wire_map {s s' : S} (h : Wire s) (f : Call → Call) (he : s'.calls = s.calls.map f)
    (hs : s'.sent = s.sent) (hrx : ∀ c, (f c).rx = c.rx)
    (hloc : ∀ c v, (f c).loc = .replied v ↔ c.loc = .replied v) : Wire s' := by
  refine ⟨?_, ?_, ?_⟩
  · intro p c' hc'
    rw [he, List.getElem?_map] at hc'
    cases hq : s.calls[p]? with
    | none => rw [hq] at hc'; cases hc'
    | some c =>
      rw [hq] at hc'; simp only [Option.map_some, Option.some.injEq] at hc'; subst hc'
      rw [hrx]; exact h.rx p c hq
  · intro p c' hc' v
    rw [he, List.getElem?_map] at hc'
    cases hq : s.calls[p]? with
    | none => rw [hq] at hc'; cases hc'
    | some c =>
      rw [hq] at hc'; simp only [Option.map_some, Option.some.injEq] at hc'; subst hc'
      rw [hs, hloc]; exact h.sent p c hq v
  · intro p v hv
    rw [hs] at hv; rw [he, List.length_map]; exact h.bound p v hv

/-- moving a port that carries no value to a place that is not "replied" -/
theorem wire_setCall {s : S} (h : Wire s) (p : Nat) (l : Loc) (hl : ∀ v, l ≠ .replied v)
    (hold : ∀ c, s.calls[p]? = some c → ∀ v, c.loc ≠ .replied v) :
    Wire (setCall s p (fun c => { c with loc := l })) := by
  have hget : ∀ q : Nat, (setCall s p (fun c => { c with loc := l })).calls[q]? =
      (s.calls[q]?).map (fun c => if p = q then { c with loc := l } else c) := by
    intro q; simp [setCall, List.getElem?_modify, Functor.map]
  refine ⟨?_, ?_, ?_⟩
  · intro q c' hc'
    rw [hget] at hc'
    cases hq : s.calls[q]? with
    | none => rw [hq] at hc'; cases hc'
    | some c =>
      rw [hq] at hc'; simp only [Option.map_some, Option.some.injEq] at hc'; subst hc'
      split <;> exact h.rx q c hq
  · intro q c' hc' v
    rw [hget] at hc'
    cases hq : s.calls[q]? with
    | none => rw [hq] at hc'; cases hc'
    | some c =>
      rw [hq] at hc'; simp only [Option.map_some, Option.some.injEq] at hc'; subst hc'
      show (q, v) ∈ s.sent ↔ _
      by_cases hpq : p = q
      · subst hpq
        simp only [if_true]
        rw [h.sent p c hq v]
        constructor
        · intro hh; exact absurd hh (hold c hq v)
        · intro hh; exact absurd hh (hl v)
      · simp only [hpq, if_false]; exact h.sent q c hq v
  · intro q v hv
    have := h.bound q v hv
    simpa [setCall] using this

/-- `send(v)` on a port that exists and carries no value yet -/
theorem wire_replyOn {s : S} (h : Wire s) (p v : Nat) (c : Call) (hc : s.calls[p]? = some c)
    (hold : ∀ w, c.loc ≠ .replied w) : Wire (replyOn s p v) := by
  have hget : ∀ q : Nat, (replyOn s p v).calls[q]? =
      (s.calls[q]?).map (fun c => if p = q then { c with loc := .replied v } else c) := by
    intro q; simp [replyOn, setCall, List.getElem?_modify, Functor.map]
  have hsent : (replyOn s p v).sent = s.sent ++ [(p, v)] := rfl
  refine ⟨?_, ?_, ?_⟩
  · intro q c' hc'
    rw [hget] at hc'
    cases hq : s.calls[q]? with
    | none => rw [hq] at hc'; cases hc'
    | some c0 =>
      rw [hq] at hc'; simp only [Option.map_some, Option.some.injEq] at hc'; subst hc'
      split <;> exact h.rx q c0 hq
  · intro q c' hc' w
    rw [hget] at hc'
    cases hq : s.calls[q]? with
    | none => rw [hq] at hc'; cases hc'
    | some c0 =>
      rw [hq] at hc'; simp only [Option.map_some, Option.some.injEq] at hc'; subst hc'
      rw [hsent, List.mem_append, List.mem_singleton]
      by_cases hpq : p = q
      · subst hpq
        rw [hc] at hq; cases hq
        simp only [if_true, Loc.replied.injEq, Prod.mk.injEq, true_and]
        constructor
        · rintro (hh | hh)
          · exact absurd ((h.sent p c hc w).mp hh) (hold w)
          · exact hh.symm
        · intro hh; exact Or.inr hh.symm
      · simp only [hpq, if_false, Prod.mk.injEq]
        rw [← h.sent q c0 hq w]
        constructor
        · rintro (hh | hh)
          · exact hh
          · exact absurd hh.1.symm hpq
        · intro hh; exact Or.inl hh
  · intro q w hw
    rw [hsent, List.mem_append, List.mem_singleton] at hw
    have hlen : (replyOn s p v).calls.length = s.calls.length := by simp [replyOn, setCall]
    rw [hlen]
    rcases hw with hw | hw
    · exact h.bound q w hw
    · cases hw; exact (List.getElem?_eq_some_iff.mp hc).1

/-- a fresh call record: its port id is its index, its receiver is its own -/
theorem wire_append {s s' : S} (h : Wire s) (c : Call) (he : s'.calls = s.calls ++ [c]) (hs : s'.sent = s.sent)
    (hrx : c.rx = s.calls.length) (hl : ∀ v, c.loc ≠ .replied v) : Wire s' := by
  refine ⟨?_, ?_, ?_⟩
  · intro p c' hc'
    rw [he, List.getElem?_append] at hc'
    split at hc'
    · exact h.rx p c' hc'
    · rename_i hlt
      have := List.mem_of_getElem? hc'
      simp only [List.mem_singleton] at this; subst this
      have hp : p - s.calls.length < 1 := by
        have := (List.getElem?_eq_some_iff.mp hc').1; simpa using this
      omega
  · intro p c' hc' v
    rw [hs]
    rw [he, List.getElem?_append] at hc'
    split at hc'
    · exact h.sent p c' hc' v
    · rename_i hlt
      have := List.mem_of_getElem? hc'
      simp only [List.mem_singleton] at this; subst this
      constructor
      · intro hv; exact absurd (h.bound p v hv) hlt
      · intro hv; exact absurd hv (hl v)
  · intro p v hv
    rw [hs] at hv
    have := h.bound p v hv
    rw [he, List.length_append]; omega

theorem dropPortsOf_rx (a : Nat) (c : Call) : (dropPortsOf a c).rx = c.rx := by
  unfold dropPortsOf; repeat (first | rfl | split)
theorem dropPortsOf_replied (a : Nat) (c : Call) (v : Nat) :
    (dropPortsOf a c).loc = .replied v ↔ c.loc = .replied v := by
  unfold dropPortsOf
  cases h : c.loc <;> simp only [h] <;> (try split) <;> simp_all
theorem toEvent_rx (a : Nat) (c : Call) : (toEvent a c).rx = c.rx := by
  unfold toEvent; repeat (first | rfl | split)
theorem toEvent_replied (a : Nat) (c : Call) (v : Nat) :
    (toEvent a c).loc = .replied v ↔ c.loc = .replied v := by
  unfold toEvent
  cases h : c.loc <;> simp only [h] <;> (try split) <;> simp_all
theorem dropOrphan_rx (U : List Sup) (c : Call) : (dropOrphan U c).rx = c.rx := by
  unfold dropOrphan; repeat (first | rfl | split)
theorem dropOrphan_replied (U : List Sup) (c : Call) (v : Nat) :
    (dropOrphan U c).loc = .replied v ↔ c.loc = .replied v := by
  unfold dropOrphan
  cases h : c.loc <;> simp only [h] <;> (try split) <;> simp_all
theorem resolveCall_rx (now : Nat) (c : Call) : (resolveCall now c).rx = c.rx := by
  unfold resolveCall; repeat (first | rfl | split)

theorem wire_exit {s : S} (h : Wire s) (a : Nat) : Wire (exitActor s a) := by
  unfold exitActor
  cases s.actors[a]? with
  | none => exact h
  | some x =>
    simp only
    split
    · exact wire_map h (dropPortsOf a) rfl rfl (dropPortsOf_rx a) (dropPortsOf_replied a)
    · exact h

theorem wire_stop {s : S} (h : Wire s) (a : Nat) : Wire (stopActor s a) := by
  unfold stopActor
  cases s.actors[a]? with
  | none => exact h
  | some x =>
    simp only
    split
    · cases x.sup with
      | none => exact wire_exit h a
      | some u =>
        simp only
        split
        · apply wire_exit
          exact wire_map h (toEvent a) rfl rfl (toEvent_rx a) (toEvent_replied a)
        · exact wire_exit h a
    · exact h

theorem wire_sweep {s : S} (h : Wire s) (U : List Sup) : Wire (sweep { s with sups := U }) :=
  wire_map h (dropOrphan U) rfl rfl (dropOrphan_rx U) (dropOrphan_replied U)

theorem wire_killChildren {s : S} (h : Wire s) (u : Nat) : Wire (killChildren s u) := by
  unfold killChildren
  generalize List.range s.actors.length = l
  induction l generalizing s with
  | nil => exact h
  | cons a rest ih =>
    simp only [List.foldl_cons]
    apply ih
    cases s.actors[a]? with
    | none => exact h
    | some x =>
      simp only
      split
      · exact wire_exit h a
      · exact h

theorem wire_drainExits {s : S} (h : Wire s) : Wire (drainExits s) := by
  unfold drainExits
  generalize List.range s.actors.length = l
  induction l generalizing s with
  | nil => exact h
  | cons a rest ih =>
    simp only [List.foldl_cons]
    apply ih
    cases s.actors[a]? with
    | none => exact h
    | some x =>
      simp only
      split
      · exact wire_stop h a
      · exact h

theorem wire_sendCall {s : S} (h : Wire s) (a : Nat) (t g f : Option Nat) : Wire (sendCall s a t g f).1 := by
  unfold sendCall
  simp only
  split
  · exact wire_append h _ rfl rfl rfl (by intro v hv; cases hv)
  · exact wire_append h _ rfl rfl rfl (by intro v hv; cases hv)

theorem wire_sendMulti {s : S} (h : Wire s) (g : Nat) (t : Option Nat) (as : List Nat) :
    Wire (sendMulti s g t as) := by
  induction as generalizing s with
  | nil => exact h
  | cons a rest ih =>
    simp only [sendMulti]
    have h1 := wire_sendCall h a t (some g) none
    split
    · exact ih h1
    · exact wire_map h1 _ rfl rfl (fun c => by split <;> rfl) (fun c v => by split <;> exact Iff.rfl)

theorem wire_handle {s : S} (hp : Pre s) (h : Wire s) (a : Nat) (act : Act) : Wire (handleCore s a act) := by
  unfold handleCore
  cases ha : s.actors[a]? with
  | none => exact h
  | some x =>
    simp only
    split
    · exact h
    · cases hm : x.mailbox with
      | nil => simp only; split; exact wire_stop h a; exact h
      | cons it rest =>
        cases it with
        | fwd v => exact wire_frame h rfl rfl
        | call p =>
          simp only
          have h1 : Wire (setActor s a (fun y => { y with mailbox := y.mailbox.tail })) := wire_frame h rfl rfl
          obtain ⟨c, hc, hlc⟩ := hp.mb a x ha p (by rw [hm]; simp)
          have hc1 : (setActor s a (fun y => { y with mailbox := y.mailbox.tail })).calls[p]? = some c := hc
          have hold : ∀ c', (setActor s a (fun y => { y with mailbox := y.mailbox.tail })).calls[p]? = some c' →
              ∀ w, c'.loc ≠ .replied w := by
            intro c' hc' w; rw [hc1] at hc'; cases hc'; rw [hlc]; intro hh; cases hh
          unfold applyAct
          cases act with
          | reply v => exact wire_replyOn h1 p v c hc1 (hold c hc1)
          | drop => exact wire_setCall h1 p _ (by intro v hv; cases hv) hold
          | keep => exact wire_setCall h1 p _ (by intro v hv; cases hv) hold
          | detach => exact wire_setCall h1 p _ (by intro v hv; cases hv) hold

theorem wire_later {s : S} (h : Wire s) (p : Nat) (act : Act) : Wire (stepCore s (.later p act)) := by
  simp only [stepCore]
  cases hc : s.calls[p]? with
  | none => exact h
  | some c =>
    simp only
    have hold : ∀ l : Loc, c.loc = l → (∀ w, l ≠ .replied w) →
        ∀ c', s.calls[p]? = some c' → ∀ w, c'.loc ≠ .replied w := by
      intro l hl hne c' hc' w; rw [hc] at hc'; cases hc'; rw [hl]; exact hne w
    cases hl : c.loc with
    | mailbox a => cases act <;> exact h
    | replied v => cases act <;> exact h
    | dropped => cases act <;> exact h
    | actor a =>
      have hne : ∀ w, Loc.actor a ≠ .replied w := by intro w hh; cases hh
      cases act with
      | reply v => exact wire_replyOn h p v c hc (by rw [hl]; exact hne)
      | drop => exact wire_setCall h p _ (by intro v hv; cases hv) (hold _ hl hne)
      | keep => exact h
      | detach => exact h
    | detached =>
      have hne : ∀ w, Loc.detached ≠ .replied w := by intro w hh; cases hh
      cases act with
      | reply v => exact wire_replyOn h p v c hc (by rw [hl]; exact hne)
      | drop => exact wire_setCall h p _ (by intro v hv; cases hv) (hold _ hl hne)
      | keep => exact h
      | detach => exact h
    | event a =>
      have hne : ∀ w, Loc.event a ≠ .replied w := by intro w hh; cases hh
      cases act with
      | reply v =>
        simp only
        split
        · exact wire_replyOn h p v c hc (by rw [hl]; exact hne)
        · exact h
      | drop =>
        simp only
        split
        · exact wire_setCall h p _ (by intro v hv; cases hv) (hold _ hl hne)
        · exact h
      | keep => exact h
      | detach => exact h

theorem wire_stepCore {s : S} (hp : Pre s) (h : Wire s) (op : Op) : Wire (stepCore s op) := by
  cases op with
  | spawn => exact wire_frame h rfl rfl
  | call a t => exact wire_sendCall h a t none none
  | mcall as t =>
    simp only [stepCore]
    exact wire_frame (wire_sendMulti h s.groups t as) rfl rfl
  | fcall a f t => exact wire_sendCall h a t none (some f)
  | handle a act => exact wire_handle hp h a act
  | later p act => exact wire_later h p act
  | exit a => exact wire_exit h a
  | stop a act =>
    simp only [stepCore]
    exact wire_stop (wire_handle hp h a act) a
  | drain a => exact wire_frame h rfl rfl
  | advance d => exact wire_frame h rfl rfl
  | spawnSup => exact wire_frame h rfl rfl
  | spawnl u =>
    simp only [stepCore]
    split
    · exact wire_frame h rfl rfl
    · exact h
  | suphandle u keep =>
    simp only [stepCore]
    cases s.sups[u]? with
    | none => exact h
    | some x =>
      simp only
      split
      · exact h
      · cases x.inbox with
        | nil => exact h
        | cons a rest =>
          simp only
          split
          · exact wire_frame h rfl rfl
          · exact wire_sweep h _
  | supdrop u a =>
    simp only [stepCore]
    cases s.sups[u]? with
    | none => exact h
    | some x =>
      simp only
      split
      · exact wire_sweep h _
      · exact h
  | supexit u =>
    simp only [stepCore]
    unfold supExit
    cases s.sups[u]? with
    | none => exact h
    | some x =>
      simp only
      split
      · exact wire_killChildren (wire_sweep h _) u
      · exact h
  | cast a v => exact wire_frame h rfl rfl
  | handleAt a act d => exact wire_frame (wire_handle hp h a act) rfl rfl
  | fail a =>
    simp only [stepCore]
    cases s.actors[a]? with
    | none => exact h
    | some x =>
      simp only
      split
      · exact wire_exit h a
      · exact h

theorem wire_resolveLocal {s : S} (h : Wire s) : Wire (resolveLocal s) :=
  wire_map h (resolveCall s.now) rfl rfl (resolveCall_rx s.now) (fun c v => by rw [resolveCall_loc])

/-- a caller that reads the channel of the port it created sees what its own record says -/
theorem resolveVia_eq {s : S} (h : Wire s) (c : Call) (hc : c ∈ s.calls) :
    resolveVia s.now s.calls c = resolveCall s.now c := by
  obtain ⟨p, hp⟩ := List.mem_iff_getElem?.mp hc
  have hrx := h.rx p c hp
  have hpl : portLoc s.calls c.rx = c.loc := by rw [hrx]; simp [portLoc, hp]
  unfold resolveVia resolveCall
  rw [hpl]

theorem newFwdFrom_congr (acc : Nat → Bool) (g g' : Call → Call) : ∀ (l : List Call) (off : Nat),
    (∀ c ∈ l, g c = g' c) → newFwdFrom acc g off l = newFwdFrom acc g' off l := by
  intro l
  induction l with
  | nil => intro _ _; rfl
  | cons b rest ih =>
    intro off h
    simp only [newFwdFrom]
    rw [h b (List.mem_cons_self), ih (off + 1) (fun c hc => h c (List.mem_cons_of_mem _ hc))]

theorem writeFrom_congr (g g' : Call → Call) : ∀ (l : List Call) (M : List (List (Option Res))),
    (∀ c ∈ l, g c = g' c) → writeFrom g M l = writeFrom g' M l := by
  intro l
  induction l with
  | nil => intro _ _; rfl
  | cons b rest ih =>
    intro M h
    simp only [writeFrom]
    rw [h b (List.mem_cons_self), ih _ (fun c hc => h c (List.mem_cons_of_mem _ hc))]

theorem resolve_eq_local {s : S} (h : Wire s) : resolve s = resolveLocal s := by
  have : s.calls.map (resolveVia s.now s.calls) = s.calls.map (resolveCall s.now) :=
    List.map_congr_left (fun c hc => resolveVia_eq h c hc)
  have h2 := newFwdFrom_congr (acceptingIn s.actors) (resolveVia s.now s.calls) (resolveCall s.now) s.calls 0
    (fun c hc => resolveVia_eq h c hc)
  have h3 := writeFrom_congr (resolveVia s.now s.calls) (resolveCall s.now) s.calls s.mresults
    (fun c hc => resolveVia_eq h c hc)
  simp only [resolve, resolveLocal, this, h2, h3]

theorem step_eq_local {s : S} (hp : Pre s) (hw : Wire s) (op : Op) :
    step s op = resolveLocal (drainExits (stepCore s op)) :=
  resolve_eq_local (wire_drainExits (wire_stepCore hp hw op))

theorem inv_step {s : S} (h : Inv s) (hw : Wire s) (op : Op) : Inv (step s op) ∧ Wire (step s op) := by
  rw [step_eq_local h.toPre hw op]
  exact ⟨resolveLocal_inv (pre_drainExits (pre_stepCore h.toPre op)),
         wire_resolveLocal (wire_drainExits (wire_stepCore h.toPre hw op))⟩

theorem inv_wire_run (ops : List Op) : Inv (run ops) ∧ Wire (run ops) := by
  unfold run
  generalize hs : init = s
  have h : Inv s ∧ Wire s := hs ▸ ⟨inv_init, wire_init⟩
  clear hs
  induction ops generalizing s with
  | nil => exact h
  | cons op rest ih => exact ih _ (inv_step h.1 h.2 op)

theorem inv_run (ops : List Op) : Inv (run ops) := (inv_wire_run ops).1
theorem wire_run (ops : List Op) : Wire (run ops) := (inv_wire_run ops).2

theorem own_run (ops : List Op) : Own (run ops) := by
  unfold run
  suffices ∀ s, Inv s → Wire s → Own s → Own (ops.foldl step s) from this init inv_init wire_init own_init
  induction ops with
  | nil => intro s _ _ h; exact h
  | cons op rest ih =>
    intro s hi hw ho
    have hs := inv_step hi hw op
    refine ih (step s op) hs.1 hs.2 ?_
    rw [step_eq_local hi.toPre hw op]
    exact own_resolveLocal (own_drainExits (own_stepCore hi.toPre ho op))

end Rpc
