import RactorModel.Lemmas.PgConcRun

/-!
The lock table really is the holders' local state: a thread inside `join_scoped`'s entry region holds
that group entry, the table entry carries ITS `actors`, and what it still has to look at is among them —
so the robustness guard `x ∈ asOf …` of `joinOne` is always true.
-/

namespace Pg.Conc
open AList Pg Pg.Fine

def HoldInv (g : G) : Prop :=
  ∀ (i : Nat) (s g' : Nat) (as todo : List Nat), g.thr[i]? = some (.joinIn s g' as todo) →
    (∃ acc, get g.locks (s, g') = some (i, as, acc)) ∧ (∀ y ∈ todo, y ∈ as)

theorem callStep_not_joinIn (st : State) (pc : Pc) (h : ∀ s g as todo, pc ≠ .joinIn s g as todo) :
    ∀ s g as todo, (callStep st pc).2.1 ≠ .joinIn s g as todo := by
  intro s g as todo
  cases pc with
  | joinIn s' g' as' todo' => exact absurd rfl (h s' g' as' todo')
  | join s' g' as' => simp only [callStep]; split <;> simp
  | joinEntered s' g' as' p => cases p <;> simp [callStep]
  | leave s' g' as' => simp only [callStep]; split <;> simp
  | demonitorCall g1 b => simp only [callStep]; split <;> simp
  | demonitorScopeCall s1 b => simp only [callStep]; split <;> simp
  | _ => simp [callStep]

theorem getElem?_set_self' {α : Type} {l : List α} {i : Nat} {x y : α} (h : l[i]? = some y) : (l.set i x)[i]? = some x := by
  have hlt : i < l.length := by
    rcases Nat.lt_or_ge i l.length with h' | h'
    · exact h'
    · rw [List.getElem?_eq_none h'] at h; cases h
  simp [hlt]

theorem holdInv_step {g : G} (h : HoldInv g) (t : Tid) : HoldInv (step g t) := by
  cases t with
  | ex b r =>
    by_cases hs : exSkip g b r
    · rw [step_ex_skip g b r hs]; exact h
    · rw [step_ex g b r hs]; exact h
  | call j =>
    cases hp : g.thr[j]? with
    | none => rw [step_call_none g j hp]; exact h
    | some pc =>
      by_cases hb : blocked g pc
      · rw [step_call_blocked g j pc hp hb]; exact h
      · by_cases c1 : ∃ s g' as, pc = .joinFiltered s g' as
        · obtain ⟨s1, g1, as1, rfl⟩ := c1
          rw [step_call_lock g j s1 g1 as1 hp hb]
          have hu : locked g (s1, g1) = false := unlocked_of_needs hb rfl
          intro i s g' as todo hi
          by_cases e : i = j
          · subst e
            rw [getElem?_set_self' hp] at hi
            simp only [Option.some.injEq, Pc.joinIn.injEq] at hi
            obtain ⟨rfl, rfl, rfl, rfl⟩ := hi
            refine ⟨⟨[], by simp⟩, ?_⟩
            intro y hy; exact List.mem_eraseDups.mp hy
          · rw [List.getElem?_set_ne (fun x => e x.symm)] at hi
            obtain ⟨⟨acc, hacc⟩, htodo⟩ := h i s g' as todo hi
            refine ⟨⟨acc, ?_⟩, htodo⟩
            have hne : (s, g') ≠ (s1, g1) := by
              intro ek; rw [ek] at hacc
              unfold locked at hu; rw [hacc] at hu; cases hu
            show get (set g.locks (s1, g1) (j, as1, [])) (s, g') = _
            rw [get_set, if_neg hne]; exact hacc
        · by_cases c2 : ∃ s g' as todo, pc = .joinIn s g' as todo
          · obtain ⟨s1, g1, as1, todo1, rfl⟩ := c2
            obtain ⟨⟨acc1, hacc1⟩, htodo1⟩ := h j s1 g1 as1 todo1 hp
            have other : ∀ i, i ≠ j → ∀ s g' as todo, g.thr[i]? = some (.joinIn s g' as todo) → (s, g') ≠ (s1, g1) := by
              intro i hij s g' as todo hi ek
              obtain ⟨⟨acc, hacc⟩, _⟩ := h i s g' as todo hi
              rw [ek, hacc1] at hacc
              simp only [Option.some.injEq, Prod.mk.injEq] at hacc
              exact hij hacc.1.symm
            cases todo1 with
            | nil =>
              rw [step_call_commit g j s1 g1 as1 hp]
              intro i s g' as todo hi
              by_cases e : i = j
              · subst e
                rw [getElem?_set_self' hp] at hi; cases hi
              · rw [List.getElem?_set_ne (fun x => e x.symm)] at hi
                obtain ⟨⟨acc, hacc⟩, htodo⟩ := h i s g' as todo hi
                refine ⟨⟨acc, ?_⟩, htodo⟩
                show get (erase g.locks (s1, g1)) (s, g') = _
                rw [get_erase, if_neg (other i e s g' as todo hi)]; exact hacc
            | cons x todo1 =>
              rw [step_call_one g j s1 g1 as1 x todo1 hp]
              intro i s g' as todo hi
              by_cases e : i = j
              · subst e
                rw [getElem?_set_self' hp] at hi
                simp only [Option.some.injEq, Pc.joinIn.injEq] at hi
                obtain ⟨rfl, rfl, rfl, rfl⟩ := hi
                refine ⟨?_, fun y hy => htodo1 y (List.mem_cons_of_mem _ hy)⟩
                by_cases ok : joinOk g (s1, g1) x = true
                · have hasOf : asOf g (s1, g1) = as1 := by unfold asOf; rw [hacc1]; rfl
                  refine ⟨accOf g (s1, g1) ++ [x], ?_⟩
                  show get (if joinOk g (s1, g1) x = true then set g.locks (s1, g1) (i, asOf g (s1, g1), accOf g (s1, g1) ++ [x]) else g.locks) (s1, g1) = _
                  rw [if_pos ok, get_set, if_pos rfl, hasOf]
                · refine ⟨acc1, ?_⟩
                  show get (if joinOk g (s1, g1) x = true then set g.locks (s1, g1) (i, asOf g (s1, g1), accOf g (s1, g1) ++ [x]) else g.locks) (s1, g1) = _
                  rw [if_neg ok]; exact hacc1
              · rw [List.getElem?_set_ne (fun x => e x.symm)] at hi
                obtain ⟨⟨acc, hacc⟩, htodo⟩ := h i s g' as todo hi
                refine ⟨⟨acc, ?_⟩, htodo⟩
                have hne := other i e s g' as todo hi
                show get (if joinOk g (s1, g1) x = true then set g.locks (s1, g1) (j, asOf g (s1, g1), accOf g (s1, g1) ++ [x]) else g.locks) (s, g') = _
                by_cases ok : joinOk g (s1, g1) x = true
                · rw [if_pos ok, get_set, if_neg hne]; exact hacc
                · rw [if_neg ok]; exact hacc
          · have h1 : ∀ s g' as, pc ≠ .joinFiltered s g' as := fun s g' as e => c1 ⟨s, g', as, e⟩
            have h2 : ∀ s g' as todo, pc ≠ .joinIn s g' as todo := fun s g' as todo e => c2 ⟨s, g', as, todo, e⟩
            rw [step_call_other g j pc hp hb h1 h2]
            intro i s g' as todo hi
            by_cases e : i = j
            · subst e
              rw [getElem?_set_self' hp] at hi
              simp only [Option.some.injEq] at hi
              exact absurd hi (callStep_not_joinIn g.st pc h2 s g' as todo)
            · rw [List.getElem?_set_ne (fun x => e x.symm)] at hi
              exact h i s g' as todo hi

theorem holdInv_run {g : G} (h : HoldInv g) (sched : List Tid) : HoldInv (run g sched) := by
  unfold run
  induction sched generalizing g with
  | nil => exact h
  | cons t ts ih => exact ih (holdInv_step h t)

/-- the guard of `joinOne` is always true: the actor comes from the holder's own `actors` -/
theorem join_guard_true {g : G} (h : HoldInv g) {i s g' : Nat} {as todo : List Nat} {x : Nat}
    (hp : g.thr[i]? = some (.joinIn s g' as (x :: todo))) : (asOf g (s, g')).contains x = true := by
  obtain ⟨⟨acc, hacc⟩, htodo⟩ := h i s g' as (x :: todo) hp
  have : asOf g (s, g') = as := by unfold asOf; rw [hacc]; rfl
  rw [this]
  simpa using htodo x (List.mem_cons_self)


/-- a stale reverse-only group-monitor entry is recorded only by the entry region of a `demonitor` that had
fetched no `Arc` -/
theorem stale_origin (g : G) (t : Tid) (x : Nat) (k : Key) (h : (x, k) ∈ (step g t).staleG) :
    (x, k) ∈ g.staleG ∨ ∃ i g1, t = .call i ∧ g.thr[i]? = some (.demonitorFwd g1 x) ∧ k = (defaultScope, g1) := by
  cases t with
  | ex b r =>
    by_cases hs : exSkip g b r
    · rw [step_ex_skip g b r hs] at h; exact Or.inl h
    · rw [step_ex g b r hs] at h; exact Or.inl h
  | call j =>
    cases hp : g.thr[j]? with
    | none => rw [step_call_none g j hp] at h; exact Or.inl h
    | some pc =>
      by_cases hb : blocked g pc
      · rw [step_call_blocked g j pc hp hb] at h; exact Or.inl h
      · by_cases c1 : ∃ s g' as, pc = .joinFiltered s g' as
        · obtain ⟨s1, g1, as1, rfl⟩ := c1
          rw [step_call_lock g j s1 g1 as1 hp hb] at h; exact Or.inl h
        · by_cases c2 : ∃ s g' as todo, pc = .joinIn s g' as todo
          · obtain ⟨s1, g1, as1, todo1, rfl⟩ := c2
            cases todo1 with
            | nil => rw [step_call_commit g j s1 g1 as1 hp] at h; exact Or.inl h
            | cons y todo1 => rw [step_call_one g j s1 g1 as1 y todo1 hp] at h; exact Or.inl h
          · have h1 : ∀ s g' as, pc ≠ .joinFiltered s g' as := fun s g' as e => c1 ⟨s, g', as, e⟩
            have h2 : ∀ s g' as todo, pc ≠ .joinIn s g' as todo := fun s g' as todo e => c2 ⟨s, g', as, todo, e⟩
            rw [step_call_other g j pc hp hb h1 h2] at h
            replace h : (x, k) ∈ g.staleG ++ staleGOf pc := h
            rcases List.mem_append.mp h with h | h
            · exact Or.inl h
            · right
              cases pc with
              | demonitorFwd g1 b =>
                simp only [staleGOf, List.mem_singleton, Prod.mk.injEq] at h
                obtain ⟨rfl, rfl⟩ := h
                exact ⟨j, g1, rfl, hp, rfl⟩
              | _ => simp [staleGOf] at h

end Pg.Conc
