import RactorModel.Lemmas.LifeLive
import RactorModel.Lemmas.LifeGrace

/-! Poll atomicity (wave 2, audit C03 §4/§5.4): what ONE poll of the loop task can do at most. A kill that
lands (from another OS thread) after the poll's signal test is not seen by that poll; the callback progress that
can then follow `kill()`'s return is bounded by what a single poll emits: at most one `tick`, one `exit` and one
`enter` — the next poll tests the signal port first and ends the actor (`kill_step`). -/

namespace Life.Liveness
open Life

def isEnterEv : Ev → Bool | .enter _ _ => true | _ => false
def isTickEv : Ev → Bool | .tick _ => true | _ => false
def isExitEv : Ev → Bool | .exit _ _ => true | _ => false

/-- at most `e` enters, `t` ticks, `x` exits among the events -/
def B3 (o : List Out) (e t x : Nat) : Prop :=
  (evs o).countP isEnterEv ≤ e ∧ (evs o).countP isTickEv ≤ t ∧ (evs o).countP isExitEv ≤ x

theorem B3.append {o1 o2 : List Out} {e1 t1 x1 e2 t2 x2 : Nat} (h1 : B3 o1 e1 t1 x1) (h2 : B3 o2 e2 t2 x2) :
    B3 (o1 ++ o2) (e1 + e2) (t1 + t2) (x1 + x2) := by
  unfold B3 at *
  simp only [evs_append, List.countP_append]
  omega

theorem B3.mono {o : List Out} {e t x e' t' x' : Nat} (h : B3 o e t x) (he : e ≤ e') (ht : t ≤ t') (hx : x ≤ x') :
    B3 o e' t' x' := by
  unfold B3 at *; omega

theorem B3.of_none {o : List Out} (h : ∀ ev ∈ evs o, C03.isProgress ev = false) : B3 o 0 0 0 := by
  unfold B3
  refine ⟨?_, ?_, ?_⟩ <;>
    (rw [Nat.le_zero, List.countP_eq_zero]
     intro ev hev
     have := h ev hev
     cases ev <;> simp_all [C03.isProgress, isEnterEv, isTickEv, isExitEv])

theorem B3.of_noise {o : List Out} (h : ∀ ev ∈ evs o, ev.isExitNoise = true) : B3 o 0 0 0 :=
  B3.of_none (fun ev hev => noise_np (h ev hev))

theorem selfFx_np {e : Ev} (h : C03.isSelfFx e = true) : C03.isProgress e = false := by
  cases e <;> simp_all [C03.isSelfFx, C03.isProgress]

theorem listen_B3 (a : Actor) : B3 (listen a).2 1 0 0 := by
  unfold listen
  split
  · exact (B3.of_noise (killedInLoop_noise _)).mono (by omega) (by omega) (by omega)
  · simp only [enterPostStop]
    (repeat' split) <;> simp [B3, isEnterEv, isTickEv, isExitEv]

theorem notifyOuts_noise (a : Actor) (e : SupEv) : ∀ x ∈ evs (notifyOuts a e), x.isExitNoise = true := by
  cases hs : a.sup <;> cases hm : a.mons <;> simp [notifyOuts, hs, hm, Ev.isExitNoise, evs_map_monSend]

theorem afterExit_B3 (a : Actor) (r : Res) : B3 (afterExit a r).2 1 0 0 := by
  unfold afterExit
  split
  · simp only [andThen_snd]
    exact ((B3.of_noise (notifyOuts_noise _ _)).append (listen_B3 _)).mono (by omega) (by omega) (by omega)
  · exact listen_B3 a
  · exact listen_B3 a
  all_goals exact (B3.of_noise (finish_noise _ _)).mono (by omega) (by omega) (by omega)

theorem runSeg_B3 (a : Actor) (cb : Cb) (s : Seg) : B3 (runSeg a cb s afterExit).2 1 1 1 := by
  have hfx : B3 (runFxs a s.fx).2 0 0 0 := B3.of_none (fun e he => selfFx_np (C03.runFxs_selfFx s.fx a e he))
  have h3 := afterExit_B3 (runFxs a s.fx).1 s.term.res
  unfold B3 at *
  rw [runSeg_evs]
  have e1 : isEnterEv (.tick cb) = false := rfl
  have e2 : isTickEv (.tick cb) = true := rfl
  have e3 : isExitEv (.tick cb) = false := rfl
  have e4 : isEnterEv (.exit cb s.term.res) = false := rfl
  have e5 : isTickEv (.exit cb s.term.res) = false := rfl
  have e6 : isExitEv (.exit cb s.term.res) = true := rfl
  split <;> simp only [List.cons_append, List.countP_cons, List.countP_append, List.countP_nil, e1, e2, e3, e4, e5, e6,
    ite_true, Bool.false_eq_true, ite_false, List.append_nil] <;> omega

theorem pollOpen_B3 (a : Actor) (cb : Cb) : B3 (pollOpen a cb).2 1 1 1 := by
  unfold pollOpen
  simp only []
  split
  · simp only [say, andThen_snd, andThen_fst]
    refine (B3.append (e1 := 0) (t1 := 0) (x1 := 0) (e2 := 0) (t2 := 0) (x2 := 0) ?_ ?_).mono (by omega) (by omega) (by omega)
    · simp [B3, isEnterEv, isTickEv, isExitEv]
    · split <;> first
        | exact B3.of_noise (killedInLoop_noise _)
        | exact B3.of_noise (killedOutsideLoop_noise _)
  · split
    · simp [B3]
    · exact runSeg_B3 _ cb _

/-- **One poll of the loop task emits at most one `enter`, one `tick` and one `exit`.** -/
theorem opPoll_B3 (a : Actor) : B3 (opPoll a).2 1 1 1 := by
  unfold opPoll
  split
  · simp only []
    split
    · exact (B3.of_noise (killedOutsideLoop_noise _)).mono (by omega) (by omega) (by omega)
    · simp [B3, isEnterEv, isTickEv, isExitEv]
  · exact (listen_B3 _).mono (by omega) (by omega) (by omega)
  · exact pollOpen_B3 a _
  · exact pollOpen_B3 a _
  · exact pollOpen_B3 a _
  · exact pollOpen_B3 a _
  · simp [B3]


/-- … also counting the bookkeeping events `Actor.step` appends. -/
theorem step_poll_B3 (a : Actor) : B3 (a.step .poll).2 1 1 1 := by
  rw [step_eq]
  have h1 : B3 (a.stepCore .poll).2 1 1 1 := by
    simp only [Actor.stepCore]
    unfold pollMark
    split
    · exact ((opPoll_B3 a).append (o2 := [.ev .polled]) (e2 := 0) (t2 := 0) (x2 := 0)
        (by simp [B3, isEnterEv, isTickEv, isExitEv])).mono (by omega) (by omega) (by omega)
    · exact opPoll_B3 a
  have h2 : B3 (supTail a (a.stepCore .poll).1) 0 0 0 := by
    unfold supTail; split <;> simp [B3, isEnterEv, isTickEv, isExitEv]
  have h3 : B3 (snapTail (a.stepCore .poll).1) 0 0 0 := by
    unfold snapTail; split <;> simp [B3, isEnterEv, isTickEv, isExitEv]
  exact ((h1.append h2).append h3).mono (by omega) (by omega) (by omega)

/-- A kill accepted by the port of `b` is in the port afterwards (and `b` has a cell). -/
theorem kill_step_sigVal (b : Actor) (hacc : (apiKill b).2 = true) : (b.step .kill).1.sigVal = true := by
  have hpo : b.phase ≠ .fresh := by
    intro hf
    simp [apiKill, Actor.portsOpen, hf] at hacc
    split at hacc <;> simp at hacc
  show (b.stepCore .kill).1.sigVal = true
  simp only [Actor.stepCore, hpo, ite_false, Actor.envOp]
  exact apiKill_ok_sigVal b hacc

end Life.Liveness
