/-
Small-step model of the START of an actor racing with `drain()` (and casts, `stop()`, `kill()`)
issued by any number of other threads — the window `Model/Early.lean` treats at API granularity.

Read line by line from
* `actor.rs` `ActorRuntime::start` (Send actors): check `Unstarted` → `set_status(Starting)` →
  `run_with_signal(pre_start)` → `try_link_starting(supervisor)` → `mark_running` + spawn the loop
  task → `processing_loop`: `run_with_signal(post_start)` → `set_status(Running)` →
  `listen_in_priority` (signal > stop > … > message; the drain marker ends the loop with "Drained");
* `thread_local/inner.rs` `start`: the same, but the link is made right after
  `set_status(Starting)`, before `pre_start`;
* `actor_properties.rs` `drain()`: `close_message_admission` → `fetch_update` on the status
  (`f != Unstarted && f < Stopping` ⇒ `Draining`) → `send_drain_marker` (closed ∧ no ticket
  outstanding ∧ marker not yet sent ⇒ set the bit, enqueue the marker) — three separate steps;
* `send_message`: status gate (`>= Draining` ⇒ Err), admission (closed ⇒ Err), enqueue (fails once
  the ports are gone) — ONE step here: the interleavings inside a send are the subject of
  `Model/Admission.lean` (`messages_precede_marker`), so no ticket is ever outstanding between steps;
* `supervision.rs` `link_below`: refused iff the child's status is `>= child_limit` or the
  supervisor's is `>= Draining` or its child set is closed. `Cfg.fixed = true`: `child_limit =
  Stopping` (`link_starting`, the code after fix ee38a9c); `false`: `Draining` (the code before).
* `set_status` is `fetch_max`.

The guard's cleanup after a failed start / after the loop is one step (status `Stopped`, ports
dropped with everything queued) — its inner order is C06's subject. Import-free.
-/

namespace EarlyStep

/-- discriminants of `ActorStatus` -/
def stUnstarted : Nat := 0
def stStarting : Nat := 1
def stRunning : Nat := 2
def stDraining : Nat := 4
def stStopping : Nat := 5
def stStopped : Nat := 6

inductive Why | drained | stopped | killed
  deriving Repr, DecidableEq

inductive Fail | already | nolink | preErr | killed
  deriving Repr, DecidableEq

/-- program counter of the start thread (then the actor's own task) -/
inductive Pc
  | check | publish | linkTL | preStart | link | markRunning | postStart | setRunning | loop
  | exited (w : Why)
  | failed (f : Fail)
  deriving Repr, DecidableEq

structure Cfg where
  fixed : Bool := true     -- `link_starting` refuses the child only from `Stopping` on
  linked : Bool := false
  tl : Bool := false       -- thread-local flavour: link before pre_start
  supOk : Bool := true     -- the supervisor accepts at link time (below Draining, child set open)
  preOk : Bool := true     -- what pre_start returns
  deriving Repr, DecidableEq

inductive Req | cast | drain | stop | kill
  deriving Repr, DecidableEq

/-- everything the threads share -/
structure Sh where
  pc : Pc := .check
  status : Nat := 0
  closed : Bool := false
  markerSent : Bool := false
  queue : List (Option Nat) := []      -- `some id` a message, `none` the drain marker
  stopReq : Bool := false
  killReq : Bool := false
  portsOpen : Bool := true             -- the receivers exist (from `ActorCell::new` to the cleanup)
  handled : List Nat := []
  accepted : List Nat := []            -- ghost: ids whose send returned Ok
  next : Nat := 0
  deriving Repr, DecidableEq

def Pc.alive : Pc → Bool
  | .exited _ => false
  | .failed _ => false
  | _ => true

/-- the guard's cleanup / the end of the actor task: status `Stopped`, ports dropped -/
def finish (s : Sh) (pc : Pc) : Sh :=
  { s with pc := pc, status := stStopped, portsOpen := false, queue := [] }

/-- `SupervisionTree::link_below(child, supervisor, child_limit)` as `start` calls it -/
def linkRefused (c : Cfg) (s : Sh) : Bool :=
  (if c.fixed then stStopping else stDraining) ≤ s.status || !c.supOk

/-- one step of the start thread / the actor's task -/
def startStep (c : Cfg) (s : Sh) : Sh :=
  match s.pc with
  | .check => if s.status ≠ stUnstarted then finish s (.failed .already) else { s with pc := .publish }
  | .publish =>
    if c.tl && c.linked then { s with status := max s.status stStarting, pc := .linkTL }
    else { s with status := max s.status stStarting, pc := .preStart }
  | .linkTL => if linkRefused c s then finish s (.failed .nolink) else { s with pc := .preStart }
  | .preStart =>
    if s.killReq then finish s (.failed .killed)
    else if !c.preOk then finish s (.failed .preErr)
    else if c.linked && !c.tl then { s with pc := .link }
    else { s with pc := .markRunning }
  | .link => if linkRefused c s then finish s (.failed .nolink) else { s with pc := .markRunning }
  | .markRunning => { s with pc := .postStart }
  | .postStart => if s.killReq then finish s (.exited .killed) else { s with pc := .setRunning }
  | .setRunning => { s with status := max s.status stRunning, pc := .loop }
  | .loop =>
    if s.killReq then finish s (.exited .killed)
    else if s.stopReq then finish s (.exited .stopped)
    else match s.queue with
      | [] => s                                   -- idle
      | some id :: q => { s with queue := q, handled := s.handled ++ [id] }
      | none :: _ => finish s (.exited .drained)
  | .exited _ => s
  | .failed _ => s

/-- one step of request `r`; `dpc` = position inside a drain (0 close, 1 status, 2 marker).
Returns the new shared state and whether the request is complete. -/
def reqStep (s : Sh) (r : Req) (dpc : Nat) : Sh × Bool :=
  match r with
  | .cast =>
    let s := { s with next := s.next + 1 }
    if stDraining ≤ s.status || s.closed || !s.portsOpen then (s, true)
    else ({ s with queue := s.queue ++ [some (s.next - 1)], accepted := s.accepted ++ [s.next - 1] }, true)
  | .stop => ({ s with stopReq := s.stopReq || s.portsOpen }, true)
  | .kill => ({ s with killReq := s.killReq || s.portsOpen }, true)
  | .drain =>
    match dpc with
    | 0 => ({ s with closed := true }, false)
    | 1 =>
      (if s.status ≠ stUnstarted ∧ s.status < stStopping then { s with status := stDraining } else s, false)
    | _ =>
      if s.closed && !s.markerSent then
        ({ s with markerSent := true, queue := if s.portsOpen then s.queue ++ [none] else s.queue }, true)
      else (s, true)

structure Thread where
  todo : List Req
  dpc : Nat := 0
  deriving Repr, DecidableEq

structure G where
  sh : Sh := {}
  threads : List Thread := []
  deriving Repr, DecidableEq

inductive Tid
  | start
  | t (i : Nat)
  deriving Repr, DecidableEq

def step (c : Cfg) (g : G) : Tid → G
  | .start => { g with sh := startStep c g.sh }
  | .t i =>
    match g.threads[i]? with
    | none => g
    | some th =>
      match th.todo with
      | [] => g
      | r :: rest =>
        let (sh', done) := reqStep g.sh r th.dpc
        { sh := sh',
          threads := g.threads.set i (if done then { todo := rest, dpc := 0 } else { th with dpc := th.dpc + 1 }) }

def init (progs : List (List Req)) : G := { threads := progs.map (fun p => { todo := p }) }

def run (c : Cfg) (g : G) (sched : List Tid) : G := sched.foldl (step c) g

/-- nothing intervened: no stop or kill was ever requested, pre_start succeeds, the supervisor
(if any) accepts the link -/
def undisturbed (c : Cfg) (s : Sh) : Bool :=
  !s.stopReq && !s.killReq && c.preOk && (c.supOk || !c.linked)

/-- the messages still queued -/
def msgs (q : List (Option Nat)) : List Nat := q.filterMap id

/-- the number of steps the start thread still needs (when it is never idle) -/
def Pc.rank : Pc → Nat
  | .check => 9 | .publish => 8 | .linkTL => 7 | .preStart => 6 | .link => 5 | .markRunning => 4
  | .postStart => 3 | .setRunning => 2 | .loop => 1 | .exited _ => 0 | .failed _ => 0

def measure (s : Sh) : Nat := s.pc.rank + s.queue.length

end EarlyStep
