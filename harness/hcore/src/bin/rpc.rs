//! C09 correspondence harness (E-LTS at quiescent points): real `call` / `multi_call` /
//! `call_and_forward` against real actors whose handlers are gated by the harness, on a
//! paused `current_thread` runtime. Ops and observations are recorded for the Lean `Rpc` model.
//!
//! usage: rpc --seed S --cases N --out DIR [--replay-ops f1,f2] [--only-replay 1]

use std::collections::HashMap;
use std::sync::atomic::{AtomicBool, AtomicU64, Ordering};
use std::sync::{Arc, Mutex, Weak};
use std::time::Duration;

use hutil::{Args, Log, Rng, Stats};
use ractor::rpc::CallResult;
use ractor::actor::messages::BoxedState;
use ractor::{Actor, ActorId, ActorProcessingErr, ActorRef, RpcReplyPort, SupervisionEvent};
use tokio::sync::mpsc;
use tokio::task::JoinHandle;

enum Msg {
    Call(u64, RpcReplyPort<u64>),
    Fwd(u64),
}

/// the narrower message type of a `DerivedActorRef<DCall>` onto the callee (`get_derived`):
/// `DerivedActorRef::call` / `cast` go through the converter closure and `internal_call`
struct DCall(u64, RpcReplyPort<u64>);
impl From<DCall> for Msg {
    fn from(d: DCall) -> Msg {
        Msg::Call(d.0, d.1)
    }
}
impl TryFrom<Msg> for DCall {
    type Error = ();
    fn try_from(m: Msg) -> Result<DCall, ()> {
        match m {
            Msg::Call(i, p) => Ok(DCall(i, p)),
            _ => Err(()),
        }
    }
}

/// a second narrower type: plain (reply-less) messages, for `DerivedActorRef::cast` / `send_message`
struct DFwd(u64);
impl From<DFwd> for Msg {
    fn from(d: DFwd) -> Msg {
        Msg::Fwd(d.0)
    }
}
impl TryFrom<Msg> for DFwd {
    type Error = ();
    fn try_from(m: Msg) -> Result<DFwd, ()> {
        match m {
            Msg::Fwd(v) => Ok(DFwd(v)),
            _ => Err(()),
        }
    }
}

/// a derived type whose reverse conversion is BROKEN (`TryFrom` always fails): when a send is refused
/// the converter cannot hand the message back and panics — the documented "should never happen"
struct DBroken(u64);
impl From<DBroken> for Msg {
    fn from(d: DBroken) -> Msg {
        Msg::Fwd(d.0)
    }
}
impl TryFrom<Msg> for DBroken {
    type Error = ();
    fn try_from(_: Msg) -> Result<DBroken, ()> {
        Err(())
    }
}

/// derived type over the WRONG message type (`InvalidActorType` must come back through the converter)
/// the call form of the narrower wrong type (carries the reply port)
struct DWrongCall(RpcReplyPort<u64>);
impl From<DWrongCall> for Wrong {
    fn from(d: DWrongCall) -> Wrong {
        Wrong::W(d.0)
    }
}
impl TryFrom<Wrong> for DWrongCall {
    type Error = ();
    fn try_from(w: Wrong) -> Result<DWrongCall, ()> {
        match w {
            Wrong::W(p) => Ok(DWrongCall(p)),
            Wrong::C => Err(()),
        }
    }
}

struct DWrong;
impl From<DWrong> for Wrong {
    fn from(_: DWrong) -> Wrong {
        Wrong::C
    }
}
impl TryFrom<Wrong> for DWrong {
    type Error = ();
    fn try_from(_: Wrong) -> Result<DWrong, ()> {
        Ok(DWrong)
    }
}

/// a message type the callee does NOT accept (C02: wrong-type sends are rejected without
/// disturbing the actor — through `cast`, `send_message` and `call` alike)
enum Wrong {
    C,
    W(RpcReplyPort<u64>),
}

#[derive(Clone, Copy, Debug)]
enum Act {
    Reply(u64),
    Drop,
    Keep,
    Detach,
    /// `later p probe`: only look at `RpcReplyPort::is_closed` of a kept / detached / stashed port
    Probe,
    /// `fail a err|panic`: the handler fails while it holds the message (and its port)
    Fail(bool),
}

impl Act {
    fn show(&self) -> String {
        match self {
            Act::Reply(v) => format!("reply:{v}"),
            Act::Drop => "drop".into(),
            Act::Keep => "keep".into(),
            Act::Detach => "detach".into(),
            Act::Probe => "probe".into(),
            Act::Fail(p) => if *p { "panic".into() } else { "err".into() },
        }
    }
    fn parse(s: &str) -> Option<Act> {
        match s {
            "drop" => Some(Act::Drop),
            "keep" => Some(Act::Keep),
            "detach" => Some(Act::Detach),
            "probe" => Some(Act::Probe),
            _ => s.strip_prefix("reply:").and_then(|v| v.parse().ok()).map(Act::Reply),
        }
    }
}

type PortMapInner = Mutex<HashMap<u64, RpcReplyPort<u64>>>;
type PortMap = Arc<PortMapInner>;

struct Callee;
/// The actor State. `kept` — the ports a handler decided to keep — is OWNED by the state: this is
/// the only strong reference to the map (the harness holds a `Weak` and upgrades it just for the
/// duration of a `later` op while the actor is alive = "the actor uses the port in a later
/// handler"). So the ports die exactly when the state is dropped, and they travel inside the
/// `BoxedState` of `SupervisionEvent::ActorTerminated(_, Some(state), _)` on a graceful stop.
struct CalleeState {
    gate: mpsc::UnboundedReceiver<Act>,
    kept: PortMap,
    detached: PortMap,
    log: Arc<Mutex<Vec<String>>>,
}

/// what the harness tells a supervisor
enum SupCmd {
    /// finish handling the current state-carrying termination event: stash it or drop it
    Finish(bool),
    /// take port `p` out of the stashed last state of actor `a` (`BoxedState::take`) and use it
    Use(usize, u64, Act),
    /// drop the stashed event of actor `a`
    DropEvt(usize),
}

struct SupA;
struct SupState {
    gate: mpsc::UnboundedReceiver<SupCmd>,
    stash: Vec<(usize, SupervisionEvent)>,
    log: Arc<Mutex<Vec<String>>>,
    ids: Arc<Mutex<HashMap<ActorId, usize>>>,
    in_handler: Arc<AtomicBool>,
}

impl SupState {
    fn apply(&mut self, cmd: SupCmd) {
        let r: String = match cmd {
            SupCmd::Use(a, p, act) => match self.stash.iter_mut().find(|(b, _)| *b == a) {
                Some((_, SupervisionEvent::ActorTerminated(_, Some(boxed), _))) => match boxed.take::<CalleeState>() {
                    Ok(cs) => {
                        if let Act::Probe = act {
                            let r = cs.kept.lock().unwrap().get(&p).map(|port| port.is_closed());
                            *boxed = BoxedState::new(cs);
                            self.log.lock().unwrap().push(match r {
                                Some(true) => "closed".into(),
                                Some(false) => "open".into(),
                                None => "noport".to_string(),
                            });
                            return;
                        }
                        let port = cs.kept.lock().unwrap().remove(&p);
                        *boxed = BoxedState::new(cs);
                        match (port, act) {
                            (None, _) => "noport".into(),
                            (Some(port), Act::Reply(v)) => if port.send(v).is_ok() { "sent-ok".into() } else { "sent-err".into() },
                            (Some(port), _) => {
                                drop(port);
                                "dropped".into()
                            }
                        }
                    }
                    Err(_) => "bad-state".into(),
                },
                _ => "noport".into(),
            },
            SupCmd::DropEvt(a) => match self.stash.iter().position(|(b, _)| *b == a) {
                Some(i) => {
                    drop(self.stash.remove(i));
                    "dropped".into()
                }
                None => "noevent".into(),
            },
            SupCmd::Finish(_) => "idle".into(),
        };
        self.log.lock().unwrap().push(r);
    }
}

impl Actor for SupA {
    type Msg = SupCmd;
    type State = SupState;
    type Arguments = SupState;
    async fn pre_start(&self, _: ActorRef<SupCmd>, st: SupState) -> Result<SupState, ActorProcessingErr> {
        Ok(st)
    }
    async fn handle(&self, _: ActorRef<SupCmd>, msg: SupCmd, st: &mut SupState) -> Result<(), ActorProcessingErr> {
        st.apply(msg);
        Ok(())
    }
    async fn handle_supervisor_evt(&self, _: ActorRef<SupCmd>, evt: SupervisionEvent, st: &mut SupState) -> Result<(), ActorProcessingErr> {
        // only termination events that carry the child's last state are gated; everything else
        // (ActorStarted, kills/failures without a state) holds no port and is dropped at once
        let a = match &evt {
            SupervisionEvent::ActorTerminated(cell, Some(_), _) => st.ids.lock().unwrap().get(&cell.get_id()).copied(),
            _ => None,
        };
        let Some(a) = a else { return Ok(()) };
        st.in_handler.store(true, Ordering::SeqCst);
        loop {
            match st.gate.recv().await {
                None => break,
                Some(SupCmd::Finish(true)) => {
                    st.log.lock().unwrap().push(format!("evt {a}"));
                    st.stash.push((a, evt));
                    break;
                }
                Some(SupCmd::Finish(false)) => {
                    st.log.lock().unwrap().push(format!("evt {a}"));
                    drop(evt);
                    break;
                }
                Some(other) => st.apply(other),
            }
        }
        st.in_handler.store(false, Ordering::SeqCst);
        Ok(())
    }
}

struct SupH {
    r: ActorRef<SupCmd>,
    gate: mpsc::UnboundedSender<SupCmd>,
    log: Arc<Mutex<Vec<String>>>,
    in_handler: Arc<AtomicBool>,
    alive: bool,
}

impl Actor for Callee {
    type Msg = Msg;
    type State = CalleeState;
    type Arguments = CalleeState;
    async fn pre_start(&self, _: ActorRef<Msg>, st: CalleeState) -> Result<CalleeState, ActorProcessingErr> {
        Ok(st)
    }
    async fn handle(&self, _: ActorRef<Msg>, msg: Msg, st: &mut CalleeState) -> Result<(), ActorProcessingErr> {
        // wait until the harness says what this handler does with the message
        let Some(act) = st.gate.recv().await else { return Ok(()) };
        if let Act::Fail(panic) = act {
            // the handler fails while it still owns the message — and the reply port inside it
            st.log.lock().unwrap().push(match &msg {
                Msg::Fwd(v) => format!("failed-fwd {v}"),
                Msg::Call(id, _) => format!("failed {id}"),
            });
            if panic {
                panic!("harness: handler panics holding its message");
            }
            return Err("harness: handler fails holding its message".into());
        }
        match msg {
            Msg::Fwd(v) => st.log.lock().unwrap().push(format!("fwd {v}")),
            Msg::Call(id, port) => {
                // the caller's timeout travels with the port (`RpcReplyPort::get_timeout`)
                let t = port.get_timeout().map(|d| d.as_millis().to_string()).unwrap_or_else(|| "-".into());
                match act {
                    Act::Reply(v) => {
                        let r = port.send(v);
                        st.log.lock().unwrap().push(format!("handled {id} t={t} {}", if r.is_ok() { "sent-ok" } else { "sent-err" }));
                    }
                    Act::Drop | Act::Probe | Act::Fail(_) => {
                        drop(port);
                        st.log.lock().unwrap().push(format!("handled {id} t={t}"));
                    }
                    Act::Keep => {
                        st.kept.lock().unwrap().insert(id, port);
                        st.log.lock().unwrap().push(format!("handled {id} t={t}"));
                    }
                    Act::Detach => {
                        st.detached.lock().unwrap().insert(id, port);
                        st.log.lock().unwrap().push(format!("handled {id} t={t}"));
                    }
                }
            }
        }
        Ok(())
    }
}

struct ActorH {
    r: ActorRef<Msg>,
    gate: mpsc::UnboundedSender<Act>,
    kept: Weak<PortMapInner>,
    log: Arc<Mutex<Vec<String>>>,
    queued: usize, // messages accepted into the mailbox and not yet handled
    alive: bool,
    draining: bool,
    sup: Option<usize>,
}

enum Pending {
    Call(JoinHandle<String>),
    Fcall(JoinHandle<String>, usize),
}

struct World {
    actors: Vec<ActorH>,
    detached: PortMap,
    next_port: u64,
    pending: Vec<(u64, Pending)>,
    groups: Vec<Option<JoinHandle<String>>>,
    sups: Vec<SupH>,
    ids: Arc<Mutex<HashMap<ActorId, usize>>>,
    keeper: HashMap<u64, usize>, // port -> actor whose state holds it
    stashed: Vec<(usize, usize)>, // (supervisor, actor) events the harness had stashed (generator hint only)
    free_fcall: bool,
    newly_dead: Vec<usize>, // actors seen Stopped (`get_status`) since the last op line was closed
}

async fn quiesce() {
    for _ in 0..80 {
        tokio::task::yield_now().await;
    }
}

fn show_res<T>(r: &CallResult<T>, f: impl Fn(&T) -> String) -> String {
    match r {
        CallResult::Success(v) => f(v),
        CallResult::SenderError => "senderError".into(),
        CallResult::Timeout => "timeout".into(),
    }
}

impl World {
    fn new() -> Self {
        World {
            actors: vec![],
            detached: Default::default(),
            next_port: 0,
            pending: vec![],
            groups: vec![],
            sups: vec![],
            ids: Default::default(),
            keeper: HashMap::new(),
            stashed: vec![],
            free_fcall: false,
            newly_dead: vec![],
        }
    }

    /// spawn a callee, optionally linked to supervisor `u`; `false` = the spawn failed
    async fn spawn(&mut self, sup: Option<usize>) -> bool {
        let (tx, rx) = mpsc::unbounded_channel();
        let kept: PortMap = Default::default();
        let weak = Arc::downgrade(&kept);
        let log: Arc<Mutex<Vec<String>>> = Default::default();
        let st = CalleeState { gate: rx, kept, detached: self.detached.clone(), log: log.clone() };
        let res = match sup {
            None => Actor::spawn(None, Callee, st).await,
            Some(u) => Actor::spawn_linked(None, Callee, st, self.sups[u].r.get_cell()).await,
        };
        let Ok((r, _h)) = res else { return false };
        self.ids.lock().unwrap().insert(r.get_id(), self.actors.len());
        self.actors.push(ActorH { r, gate: tx, kept: weak, log, queued: 0, alive: true, draining: false, sup });
        true
    }

    async fn spawn_sup(&mut self) {
        let (tx, rx) = mpsc::unbounded_channel();
        let log: Arc<Mutex<Vec<String>>> = Default::default();
        let in_handler = Arc::new(AtomicBool::new(false));
        let st = SupState { gate: rx, stash: vec![], log: log.clone(), ids: self.ids.clone(), in_handler: in_handler.clone() };
        let (r, _h) = Actor::spawn(None, SupA, st).await.expect("spawn sup");
        self.sups.push(SupH { r, gate: tx, log, in_handler, alive: true });
    }

    fn take_sup_log(&mut self, u: usize) -> String {
        let mut l = self.sups[u].log.lock().unwrap();
        let s = l.join(",");
        l.clear();
        if s.is_empty() { "idle".into() } else { s }
    }

    /// deliver a command to supervisor `u`: through the gate when it sits in `handle_supervisor_evt`
    /// (it keeps serving commands there), as an ordinary message otherwise
    async fn sup_cmd(&mut self, u: usize, cmd: SupCmd) -> String {
        if self.sups[u].in_handler.load(Ordering::SeqCst) {
            let _ = self.sups[u].gate.send(cmd);
        } else {
            let _ = self.sups[u].r.cast(cmd);
        }
        quiesce().await;
        self.take_sup_log(u)
    }

    async fn suphandle(&mut self, u: usize, stash: bool) -> String {
        if u >= self.sups.len() {
            return "bad-sup".into();
        }
        if !self.sups[u].alive || !self.sups[u].in_handler.load(Ordering::SeqCst) {
            return Self::fmt("idle", self.events().await);
        }
        let pre = self.sup_cmd(u, SupCmd::Finish(stash)).await;
        if let (true, Some(a)) = (stash, pre.strip_prefix("evt ").and_then(|x| x.parse::<usize>().ok())) {
            self.stashed.push((u, a));
        }
        Self::fmt(&pre, self.events().await)
    }

    async fn supdrop(&mut self, u: usize, a: usize) -> String {
        if u >= self.sups.len() {
            return "bad-sup".into();
        }
        if !self.sups[u].alive {
            return Self::fmt("noevent", self.events().await);
        }
        let pre = self.sup_cmd(u, SupCmd::DropEvt(a)).await;
        self.stashed.retain(|x| *x != (u, a));
        Self::fmt(&pre, self.events().await)
    }

    async fn supexit(&mut self, u: usize) -> String {
        if u >= self.sups.len() {
            return "bad-sup".into();
        }
        self.sups[u].r.kill();
        self.sups[u].alive = false;
        self.stashed.retain(|x| x.0 != u);
        quiesce().await;
        self.refresh_alive();
        Self::fmt("ok", self.events().await)
    }

    fn note_keeper(&mut self, a: usize, act: Act, pre: &str) {
        if let (Act::Keep, Some(id)) = (act, pre.strip_prefix("handled ").and_then(|x| x.split(' ').next()).and_then(|x| x.parse::<u64>().ok())) {
            self.keeper.insert(id, a);
        }
    }

    /// collect completion events after an op (sorted: calls by port, then groups)
    async fn events(&mut self) -> String {
        quiesce().await;
        let mut evs: Vec<String> = vec![];
        let mut i = 0;
        let mut singles: Vec<(u64, String)> = vec![];
        while i < self.pending.len() {
            let fin = match &self.pending[i].1 {
                Pending::Call(h) => h.is_finished(),
                Pending::Fcall(h, _) => h.is_finished(),
            };
            if fin {
                let (p, pend) = self.pending.remove(i);
                match pend {
                    Pending::Call(h) => singles.push((p, format!("done {p}={}", h.await.unwrap_or_else(|_| "join-error".into())))),
                    Pending::Fcall(h, f) => {
                        let r = h.await.unwrap_or_else(|_| "join-error".into());
                        if r == "success+ok" && f < self.actors.len() {
                            self.actors[f].queued += 1;
                        }
                        singles.push((p, format!("fdone {p}={r}")));
                    }
                }
            } else {
                i += 1;
            }
        }
        singles.sort();
        evs.extend(singles.into_iter().map(|x| x.1));
        for g in 0..self.groups.len() {
            if self.groups[g].as_ref().is_some_and(|h| h.is_finished()) {
                let h = self.groups[g].take().unwrap();
                evs.push(format!("mdone {g}={}", h.await.unwrap_or_else(|_| "join-error".into())));
            }
        }
        evs.join(";")
    }

    fn fmt(pre: &str, ev: String) -> String {
        if ev.is_empty() { pre.to_string() } else { format!("{pre} | {ev}") }
    }

    fn timeout(t: Option<u64>) -> Option<Duration> {
        t.map(Duration::from_millis)
    }

    async fn call(&mut self, a: usize, t: Option<u64>, via_macro: u8, via_derived: bool) -> String {
        // via_macro == 9: the free function `rpc::call`
        let via_free = via_macro == 9;
        let via_macro = if via_free { 0 } else { via_macro };
        let id = self.next_port;
        self.next_port += 1;
        let Some(ah) = self.actors.get_mut(a) else { return "bad-actor".into() };
        let r = ah.r.clone();
        let accepted = Arc::new(AtomicU64::new(0));
        let acc2 = accepted.clone();
        let h = tokio::spawn(async move {
            if via_macro > 0 {
                // the `call!` / `call_t!` macros (ractor/src/macros.rs): 1 = the arms with extra
                // arguments preceding the reply port, 2 = the arms without (`$msg(tx)`: a closure builder)
                let res: Result<u64, ractor::RactorErr<Msg>> = match (t, via_macro) {
                    (None, 1) => ractor::call!(r, Msg::Call, id),
                    (Some(ms), 1) => ractor::call_t!(r, Msg::Call, ms, id),
                    (None, _) => ractor::call!(r, |tx| Msg::Call(id, tx)),
                    (Some(ms), _) => ractor::call_t!(r, |tx| Msg::Call(id, tx), ms),
                };
                return match res {
                    Ok(v) => {
                        acc2.store(1, Ordering::SeqCst);
                        format!("success:{v}")
                    }
                    Err(ractor::RactorErr::Timeout) => {
                        acc2.store(1, Ordering::SeqCst);
                        "timeout".into()
                    }
                    Err(ractor::RactorErr::Messaging(ractor::MessagingErr::SendErr(_))) => "sendErr".into(),
                    Err(ractor::RactorErr::Messaging(ractor::MessagingErr::ChannelClosed)) => {
                        acc2.store(1, Ordering::SeqCst);
                        "senderError".into()
                    }
                    Err(_) => "macro-err".into(),
                };
            }
            if via_derived {
                // `DerivedActorRef::call`: converter closure + `internal_call`
                let dr: ractor::DerivedActorRef<DCall> = r.get_derived();
                let res = dr.call(|port| DCall(id, port), Self::timeout(t)).await;
                return match res {
                    Ok(cr) => {
                        acc2.store(1, Ordering::SeqCst);
                        show_res(&cr, |v| format!("success:{v}"))
                    }
                    Err(ractor::MessagingErr::SendErr(DCall(i, _))) if i == id => "sendErr".into(),
                    Err(_) => "derived-err".into(),
                };
            }
            let res = if via_macro == 0 && via_free {
                // the free function `rpc::call(&ActorCell, ..)` (runtime type check in `send_message`)
                ractor::rpc::call(&r.get_cell(), |port| Msg::Call(id, port), Self::timeout(t)).await
            } else {
                r.call(|port| Msg::Call(id, port), Self::timeout(t)).await
            };
            match res {
                Ok(cr) => {
                    acc2.store(1, Ordering::SeqCst);
                    show_res(&cr, |v| format!("success:{v}"))
                }
                Err(_) => "sendErr".into(),
            }
        });
        self.pending.push((id, Pending::Call(h)));
        quiesce().await;
        // the message was accepted iff the call did not fail at once
        let failed = matches!(&self.pending.last().unwrap().1, Pending::Call(h) if h.is_finished()) && accepted.load(Ordering::SeqCst) == 0;
        if !failed {
            self.actors[a].queued += 1;
        }
        Self::fmt("ok", self.events().await)
    }

    /// a plain message carrying `v`, through one of the cast surfaces: `` = `ActorRef::cast`,
    /// `f` = free fn `rpc::cast(&cell, msg)`, `m` = `cast!`, `d` = `DerivedActorRef::cast`,
    /// `ds` = `DerivedActorRef::send_message` (on a CLONE of the derived ref, reached through
    /// its `get_cell`/`Deref` for the liveness cross-check). A refused send must hand back the very message.
    async fn cast(&mut self, a: usize, v: u64, flavour: &str) -> String {
        let Some(ah) = self.actors.get_mut(a) else { return "bad-actor".into() };
        let r = ah.r.clone();
        let back = |e: ractor::MessagingErr<Msg>| match e {
            ractor::MessagingErr::SendErr(Msg::Fwd(w)) if w == v => "sendErr".to_string(),
            ractor::MessagingErr::SendErr(_) => "sendErr-wrong-message".into(),
            ractor::MessagingErr::ChannelClosed => "channelClosed".into(),
            ractor::MessagingErr::InvalidActorType => "invalid-type".into(),
        };
        let dback = |e: ractor::MessagingErr<DFwd>| match e {
            ractor::MessagingErr::SendErr(DFwd(w)) if w == v => "sendErr".to_string(),
            ractor::MessagingErr::SendErr(_) => "sendErr-wrong-message".into(),
            ractor::MessagingErr::ChannelClosed => "channelClosed".into(),
            ractor::MessagingErr::InvalidActorType => "invalid-type".into(),
        };
        let res: String = match flavour {
            "f" => ractor::rpc::cast(&r.get_cell(), Msg::Fwd(v)).map(|_| "ok".to_string()).unwrap_or_else(back),
            "m" => match ractor::cast!(r, Msg::Fwd(v)) {
                Ok(()) => "ok".into(),
                Err(ractor::RactorErr::Messaging(e)) => back(e),
                Err(_) => "macro-err".into(),
            },
            "d" => {
                let d: ractor::DerivedActorRef<DFwd> = r.get_derived();
                d.cast(DFwd(v)).map(|_| "ok".to_string()).unwrap_or_else(dback)
            }
            "dp" => {
                // broken reverse conversion: a refused send must PANIC in the converter (documented),
                // an accepted one must not
                let d: ractor::DerivedActorRef<DBroken> = r.get_derived();
                match std::panic::catch_unwind(std::panic::AssertUnwindSafe(|| d.cast(DBroken(v)))) {
                    Ok(Ok(())) => "ok".into(),
                    Ok(Err(_)) => "deconvert-did-not-panic".into(),
                    Err(p) => {
                        let m = p.downcast_ref::<String>().cloned().unwrap_or_default();
                        if m.starts_with("Failed to deconvert message from") { "sendErr".into() } else { "other-panic".into() }
                    }
                }
            }
            "ds" => {
                let d: ractor::DerivedActorRef<DFwd> = r.get_derived();
                let d2 = d.clone();
                drop(d);
                // `get_cell`, the `Deref<Target = ActorCell>` and `Debug` must name the very actor
                if d2.get_cell().get_id() != r.get_id() || d2.get_id() != r.get_id() || !format!("{d2:?}").starts_with("DerivedActorRef") {
                    "derived-wrong-cell".into()
                } else {
                    d2.send_message(DFwd(v)).map(|_| "ok".to_string()).unwrap_or_else(dback)
                }
            }
            _ => r.cast(Msg::Fwd(v)).map(|_| "ok".to_string()).unwrap_or_else(back),
        };
        if res == "ok" {
            self.actors[a].queued += 1;
        }
        Self::fmt(&res, self.events().await)
    }

    async fn fcall(&mut self, a: usize, f: usize, t: Option<u64>, via_macro: bool) -> String {
        let id = self.next_port;
        self.next_port += 1;
        if a >= self.actors.len() || f >= self.actors.len() {
            return "bad-actor".into();
        }
        let fwd = self.actors[f].r.clone();
        if via_macro {
            // the `forward!` macro: it cannot tell a failed initial send from a dropped port (both
            // map to ChannelClosed), so the harness decides that from what it knows about the callee
            let accepting = self.actors[a].alive && !self.actors[a].draining;
            let callee = self.actors[a].r.clone();
            if accepting {
                self.actors[a].queued += 1;
            }
            let h = tokio::spawn(async move {
                let res: Result<(), ractor::RactorErr<Msg>> = match t {
                    None => ractor::forward!(callee, |tx| Msg::Call(id, tx), fwd, Msg::Fwd),
                    Some(ms) => ractor::forward!(callee, |tx| Msg::Call(id, tx), fwd, Msg::Fwd, Duration::from_millis(ms)),
                };
                match res {
                    Ok(()) => "success+ok".to_string(),
                    Err(ractor::RactorErr::Timeout) => "timeout".into(),
                    Err(ractor::RactorErr::Messaging(ractor::MessagingErr::SendErr(_))) => "success+senderr".into(),
                    Err(ractor::RactorErr::Messaging(ractor::MessagingErr::ChannelClosed)) => {
                        if accepting { "senderError".into() } else { "sendErr".into() }
                    }
                    Err(_) => "macro-err".into(),
                }
            });
            self.pending.push((id, Pending::Fcall(h, f)));
            return Self::fmt("ok", self.events().await);
        }
        let r = if self.free_fcall {
            // the free function `rpc::call_and_forward(&ActorCell, .., ActorCell, ..)`
            ractor::rpc::call_and_forward(&self.actors[a].r.get_cell(), |port| Msg::Call(id, port), fwd.get_cell(), Msg::Fwd, Self::timeout(t))
        } else {
            self.actors[a].r.call_and_forward(|port| Msg::Call(id, port), &fwd, Msg::Fwd, Self::timeout(t))
        };
        match r {
            Err(_) => Self::fmt("ok", format!("fdone {id}=sendErr")),
            Ok(jh) => {
                self.actors[a].queued += 1;
                let h = tokio::spawn(async move {
                    match jh.await {
                        Ok(cr) => show_res(&cr, |sent| if sent.is_ok() { "success+ok".into() } else { "success+senderr".into() }),
                        Err(_) => "join-error".into(),
                    }
                });
                self.pending.push((id, Pending::Fcall(h, f)));
                Self::fmt("ok", self.events().await)
            }
        }
    }

    async fn mcall(&mut self, targets: &[usize], t: Option<u64>) -> String {
        let base = self.next_port;
        self.next_port += targets.len() as u64;
        if targets.iter().any(|a| *a >= self.actors.len()) {
            return "bad-actor".into();
        }
        let refs: Vec<ActorRef<Msg>> = targets.iter().map(|a| self.actors[*a].r.clone()).collect();
        let ctr = Arc::new(AtomicU64::new(base));
        let sent = Arc::new(AtomicU64::new(0));
        let (c2, s2) = (ctr.clone(), sent.clone());
        let send_failed = Arc::new(AtomicBool::new(false));
        let sf2 = send_failed.clone();
        let h = tokio::spawn(async move {
            let r = ractor::rpc::multi_call(
                &refs,
                move |port| {
                    s2.fetch_add(1, Ordering::SeqCst);
                    Msg::Call(c2.fetch_add(1, Ordering::SeqCst), port)
                },
                Self::timeout(t),
            )
            .await;
            match r {
                Ok(v) => v.iter().map(|cr| show_res(cr, |v| format!("success:{v}"))).collect::<Vec<_>>().join(","),
                Err(_) => {
                    sf2.store(true, Ordering::SeqCst);
                    "err".into()
                }
            }
        });
        self.groups.push(Some(h));
        quiesce().await;
        // (a group with timeout 0 also completes at once — but without a failed send)
        let failed = send_failed.load(Ordering::SeqCst);
        // messages accepted: all of them, or (on a failed send) those before the failing one
        let n_built = sent.load(Ordering::SeqCst) as usize;
        let n_acc = if failed && n_built > 0 && n_built <= targets.len() { n_built - 1 } else { n_built };
        // a group that completes at once without failure (e.g. no targets) accepted everything built
        let n_acc = if failed { n_acc } else { n_built };
        for a in targets.iter().take(n_acc) {
            self.actors[*a].queued += 1;
        }
        Self::fmt("ok", self.events().await)
    }

    fn take_log(&mut self, a: usize) -> String {
        let mut l = self.actors[a].log.lock().unwrap();
        let s = l.join(",");
        l.clear();
        if s.is_empty() { "idle".into() } else { s }
    }

    /// `adv`: the clock moves by `adv` ms in the same op, BEFORE anybody is polled again: the
    /// handler's action and the deadline are seen together (a reply at the deadline instant)
    async fn handle(&mut self, a: usize, act: Act, adv: u64) -> String {
        if a >= self.actors.len() {
            return "bad-actor".into();
        }
        if !self.actors[a].alive || self.actors[a].queued == 0 {
            if adv > 0 {
                tokio::time::advance(Duration::from_millis(adv)).await;
            }
            return Self::fmt("idle", self.events().await);
        }
        let _ = self.actors[a].gate.send(act);
        self.actors[a].queued -= 1;
        if adv > 0 {
            tokio::time::advance(Duration::from_millis(adv)).await;
        }
        quiesce().await;
        let pre = self.take_log(a);
        self.note_keeper(a, act, &pre);
        self.refresh_alive();
        Self::fmt(&pre, self.events().await)
    }

    /// the handler of the message `a` is working on fails (`Err` / panic)
    async fn fail(&mut self, a: usize, panic: bool) -> String {
        if a >= self.actors.len() {
            return "bad-actor".into();
        }
        if !self.actors[a].alive || self.actors[a].queued == 0 {
            return Self::fmt("idle", self.events().await);
        }
        let _ = self.actors[a].gate.send(Act::Fail(panic));
        quiesce().await;
        let pre = self.take_log(a);
        self.refresh_alive();
        Self::fmt(&pre, self.events().await)
    }

    fn refresh_alive(&mut self) {
        for (i, ah) in self.actors.iter_mut().enumerate() {
            if ah.alive && ah.r.get_status() == ractor::ActorStatus::Stopped {
                ah.alive = false;
                ah.queued = 0;
                self.newly_dead.push(i);
            }
        }
    }

    async fn later(&mut self, p: u64, act: Act) -> String {
        let mut kept_port = None;
        if let Act::Probe = act {
            // look, do not touch: `RpcReplyPort::is_closed` = the caller has gone (timed out / abandoned)
            let mut seen: Option<bool> = None;
            if let Some(&a) = self.keeper.get(&p) {
                if self.actors[a].alive {
                    if let Some(m) = self.actors[a].kept.upgrade() {
                        seen = m.lock().unwrap().get(&p).map(|port| port.is_closed());
                    }
                } else if let Some(u) = self.actors[a].sup {
                    if self.sups[u].alive {
                        let pre = self.sup_cmd(u, SupCmd::Use(a, p, act)).await;
                        return Self::fmt(&pre, self.events().await);
                    }
                }
            }
            if seen.is_none() {
                seen = self.detached.lock().unwrap().get(&p).map(|port| port.is_closed());
            }
            let pre = match seen {
                Some(true) => "closed",
                Some(false) => "open",
                None => "noport",
            };
            return Self::fmt(pre, self.events().await);
        }
        if let Some(&a) = self.keeper.get(&p) {
            if self.actors[a].alive {
                // the actor itself uses a port it kept in its state
                if let Some(m) = self.actors[a].kept.upgrade() {
                    kept_port = m.lock().unwrap().remove(&p);
                }
            } else if let Some(u) = self.actors[a].sup {
                // the state may live on in a termination event: only the supervisor can reach it
                if self.sups[u].alive {
                    let pre = self.sup_cmd(u, SupCmd::Use(a, p, act)).await;
                    return Self::fmt(&pre, self.events().await);
                }
            }
        }
        let port = kept_port.or_else(|| self.detached.lock().unwrap().remove(&p));
        let pre = match (port, act) {
            (None, _) => "noport".to_string(),
            (Some(port), Act::Reply(v)) => if port.send(v).is_ok() { "sent-ok".into() } else { "sent-err".into() },
            (Some(port), _) => {
                drop(port);
                "dropped".into()
            }
        };
        Self::fmt(&pre, self.events().await)
    }

    /// wrong-type send through `cast` (kind 0), `ActorCell::send_message` (1), `call` (2), or through a
    /// `DerivedActorRef` derived from the wrongly typed `ActorRef`: `cast` (3), `send_message` (4),
    /// `call` (5), `send_after` (6)
    async fn bad(&mut self, a: usize, kind: u8) -> String {
        if a >= self.actors.len() {
            return "bad-actor".into();
        }
        let cell = self.actors[a].r.get_cell();
        let wrong: ActorRef<Wrong> = ActorRef::from(cell.clone());
        let res = match kind {
            0 => match wrong.cast(Wrong::C) {
                Err(ractor::MessagingErr::InvalidActorType) => "invalid-type".to_string(),
                Ok(()) => "accepted".into(),
                Err(_) => "other-err".into(),
            },
            3 => {
                // a DerivedActorRef over the wrong-typed ref: the converter must hand InvalidActorType through
                let d: ractor::DerivedActorRef<DWrong> = wrong.get_derived();
                match d.cast(DWrong) {
                    Err(ractor::MessagingErr::InvalidActorType) => "invalid-type".to_string(),
                    Ok(()) => "accepted".into(),
                    Err(_) => "other-err".into(),
                }
            }
            1 => match cell.send_message(Wrong::C) {
                Err(ractor::MessagingErr::InvalidActorType) => "invalid-type".to_string(),
                Ok(()) => "accepted".into(),
                Err(_) => "other-err".into(),
            },
            4 => {
                // DerivedActorRef::send_message over the wrong-typed ref
                let d: ractor::DerivedActorRef<DWrong> = wrong.get_derived();
                match d.send_message(DWrong) {
                    Err(ractor::MessagingErr::InvalidActorType) => "invalid-type".to_string(),
                    Ok(()) => "accepted".into(),
                    Err(_) => "other-err".into(),
                }
            }
            5 => {
                // DerivedActorRef::call over the wrong-typed ref
                let d: ractor::DerivedActorRef<DWrongCall> = wrong.get_derived();
                match d.call(DWrongCall, Some(Duration::from_millis(5))).await {
                    Err(ractor::MessagingErr::InvalidActorType) => "invalid-type".to_string(),
                    Ok(_) => "accepted".into(),
                    Err(_) => "other-err".into(),
                }
            }
            6 => {
                // DerivedActorRef::send_after (zero delay) over the wrong-typed ref
                let d: ractor::DerivedActorRef<DWrong> = wrong.get_derived();
                let h = d.send_after(Duration::from_millis(0), || DWrong);
                quiesce().await;
                match h.await {
                    Ok(Err(ractor::MessagingErr::InvalidActorType)) => "invalid-type".to_string(),
                    Ok(Ok(())) => "accepted".into(),
                    _ => "other-err".into(),
                }
            }
            _ => match wrong.call(Wrong::W, Some(Duration::from_millis(5))).await {
                Err(ractor::MessagingErr::InvalidActorType) => "invalid-type".to_string(),
                Ok(_) => "accepted".into(),
                Err(_) => "other-err".into(),
            },
        };
        quiesce().await;
        let was_alive = self.actors[a].alive;
        self.refresh_alive();
        let pre = format!("{res} {}", if was_alive && !self.actors[a].alive { "actor-died" } else { "undisturbed" });
        Self::fmt(&pre, self.events().await)
    }

    async fn exit(&mut self, a: usize) -> String {
        if a >= self.actors.len() {
            return "bad-actor".into();
        }
        self.actors[a].r.kill();
        quiesce().await;
        self.refresh_alive();
        Self::fmt("ok", self.events().await)
    }

    async fn stop(&mut self, a: usize, act: Act) -> String {
        if a >= self.actors.len() {
            return "bad-actor".into();
        }
        self.actors[a].r.stop(None);
        let mut pre = "idle".to_string();
        if self.actors[a].alive && self.actors[a].queued > 0 {
            let _ = self.actors[a].gate.send(act);
            quiesce().await;
            pre = self.take_log(a);
            self.note_keeper(a, act, &pre);
        }
        quiesce().await;
        self.refresh_alive();
        Self::fmt(&pre, self.events().await)
    }

    async fn drain(&mut self, a: usize) -> String {
        if a >= self.actors.len() {
            return "bad-actor".into();
        }
        let _ = self.actors[a].r.drain();
        self.actors[a].draining = true;
        quiesce().await;
        self.refresh_alive();
        Self::fmt("ok", self.events().await)
    }

    async fn advance(&mut self, d: u64) -> String {
        tokio::time::advance(Duration::from_millis(d)).await;
        Self::fmt("ok", self.events().await)
    }

    async fn teardown(&mut self) {
        for ah in self.actors.iter() {
            ah.r.kill();
        }
        quiesce().await;
        for sh in self.sups.iter() {
            sh.r.kill();
        }
        quiesce().await;
        for (_, p) in self.pending.drain(..) {
            match p {
                Pending::Call(h) => h.abort(),
                Pending::Fcall(h, _) => h.abort(),
            }
        }
        for g in self.groups.drain(..).flatten() {
            g.abort();
        }
        self.detached.lock().unwrap().clear();
        quiesce().await;
    }

    /// execute one op line; returns the observation
    /// execute one op line; the observation ends with ` # died a,b` when actors were seen to have
    /// stopped during the op (the implementation's own word on who died — the oracle uses only this)
    async fn exec(&mut self, line: &str) -> String {
        let obs = self.exec_inner(line).await;
        self.refresh_alive();
        if self.newly_dead.is_empty() {
            return obs;
        }
        self.newly_dead.sort();
        let d: Vec<String> = self.newly_dead.drain(..).map(|a| a.to_string()).collect();
        format!("{obs} # died {}", d.join(","))
    }

    async fn exec_inner(&mut self, line: &str) -> String {
        let w: Vec<&str> = line.split_whitespace().collect();
        let t = |s: &str| -> Option<u64> { if s == "-" { None } else { s.parse().ok() } };
        match w.as_slice() {
            ["spawn"] => {
                self.spawn(None).await;
                "ok".into()
            }
            ["spawnsup"] => {
                self.spawn_sup().await;
                "ok".into()
            }
            ["spawnl", u] => match u.parse::<usize>() {
                Ok(u) if u < self.sups.len() => if self.spawn(Some(u)).await { "ok".into() } else { "failed".into() },
                _ => "bad-sup".into(),
            },
            ["suphandle", u, what] => self.suphandle(u.parse().unwrap_or(99), *what == "stash").await,
            ["supdrop", u, a] => self.supdrop(u.parse().unwrap_or(99), a.parse().unwrap_or(usize::MAX)).await,
            ["supexit", u] => self.supexit(u.parse().unwrap_or(99)).await,
            ["call", a, tt] => self.call(a.parse().unwrap_or(99), t(tt), 0, false).await,
            ["call", a, tt, "m"] => self.call(a.parse().unwrap_or(99), t(tt), 1, false).await,
            ["call", a, tt, "m0"] => self.call(a.parse().unwrap_or(99), t(tt), 2, false).await,
            ["call", a, tt, "d"] => self.call(a.parse().unwrap_or(99), t(tt), 0, true).await,
            ["call", a, tt, "f"] => self.call(a.parse().unwrap_or(99), t(tt), 9, false).await,
            ["cast", a, v] => self.cast(a.parse().unwrap_or(99), v.parse().unwrap_or(0), "").await,
            ["cast", a, v, fl] => self.cast(a.parse().unwrap_or(99), v.parse().unwrap_or(0), fl).await,
            ["fcall", a, f, tt] => self.fcall(a.parse().unwrap_or(99), f.parse().unwrap_or(99), t(tt), false).await,
            ["fcall", a, f, tt, "m"] => self.fcall(a.parse().unwrap_or(99), f.parse().unwrap_or(99), t(tt), true).await,
            ["fcall", a, f, tt, "f"] => {
                self.free_fcall = true;
                let r = self.fcall(a.parse().unwrap_or(99), f.parse().unwrap_or(99), t(tt), false).await;
                self.free_fcall = false;
                r
            }
            ["mcall", targets, tt] => {
                let v: Vec<usize> = targets.split(',').filter_map(|x| x.parse().ok()).collect();
                self.mcall(&v, t(tt)).await
            }
            ["handle", a, act] => match Act::parse(act) {
                Some(act) => self.handle(a.parse().unwrap_or(99), act, 0).await,
                None => "bad-op".into(),
            },
            ["handle", a, act, d] => match (Act::parse(act), d.strip_prefix('+').and_then(|x| x.parse::<u64>().ok())) {
                (Some(act), Some(d)) => self.handle(a.parse().unwrap_or(99), act, d).await,
                _ => "bad-op".into(),
            },
            ["later", p, act] => match Act::parse(act) {
                Some(act) => self.later(p.parse().unwrap_or(u64::MAX), act).await,
                None => "bad-op".into(),
            },
            ["badcast", a] => self.bad(a.parse().unwrap_or(99), 0).await,
            ["badsend", a] => self.bad(a.parse().unwrap_or(99), 1).await,
            ["badcall", a] => self.bad(a.parse().unwrap_or(99), 2).await,
            ["baddcast", a] => self.bad(a.parse().unwrap_or(99), 3).await,
            ["baddsend", a] => self.bad(a.parse().unwrap_or(99), 4).await,
            ["baddcall", a] => self.bad(a.parse().unwrap_or(99), 5).await,
            ["baddafter", a] => self.bad(a.parse().unwrap_or(99), 6).await,
            ["exit", a] => self.exit(a.parse().unwrap_or(99)).await,
            ["stop", a, act] => match Act::parse(act) {
                Some(act) => self.stop(a.parse().unwrap_or(99), act).await,
                None => "bad-op".into(),
            },
            ["fail", a, how] => self.fail(a.parse().unwrap_or(99), *how == "panic").await,
            ["drain", a] => self.drain(a.parse().unwrap_or(99)).await,
            ["advance", d] => self.advance(d.parse().unwrap_or(0)).await,
            _ => "bad-op".into(),
        }
    }
}

fn gen_act(rng: &mut Rng) -> Act {
    match rng.below(10) {
        0..=4 => Act::Reply(rng.below(100_000)),
        5 => Act::Drop,
        6 | 7 => Act::Keep,
        _ => Act::Detach,
    }
}

fn gen_timeout(rng: &mut Rng) -> String {
    match rng.below(5) {
        0 | 1 => "-".into(),
        _ => rng.pick(&[0u64, 1, 2, 3, 5, 10]).to_string(),
    }
}

async fn gen_case(log: &mut Log, st: &mut Stats, rng: &mut Rng, len: u64) {
    let mut w = World::new();
    log.rec("case", "ok");
    let n = rng.range(1, 4) as usize;
    // supervisors: half of the cases have none, the others 1-2; callees are linked to one with p = 2/3
    let nsup = if rng.chance(1, 2) { 0 } else { rng.range(1, 2) as usize };
    for _ in 0..nsup {
        let o = w.exec("spawnsup").await;
        log.rec("spawnsup", o);
    }
    for _ in 0..n {
        let line = if nsup > 0 && rng.chance(2, 3) { format!("spawnl {}", rng.below(nsup as u64)) } else { "spawn".to_string() };
        let o = w.exec(&line).await;
        log.rec(line, o);
    }
    for _ in 0..len {
        let na = w.actors.len() as u64;
        let a = rng.below(na);
        let mut k = rng.below(100);
        if nsup > 0 && rng.chance(1, 5) {
            k = 100 + rng.below(20);
        }
        // ports sitting in the state of an actor that has stopped (possibly inside a held event)
        let mut in_dead_state: Vec<u64> = w.keeper.iter().filter(|(_, a)| !w.actors[**a].alive).map(|(p, _)| *p).collect();
        in_dead_state.sort();
        let line = match k {
            100..=107 => format!("suphandle {} {}", rng.below(nsup as u64), if rng.chance(2, 3) { "stash" } else { "drop" }),
            108..=111 => {
                if !w.stashed.is_empty() && rng.chance(3, 4) {
                    let (u, b) = *rng.pick(&w.stashed);
                    format!("supdrop {u} {b}")
                } else {
                    format!("supdrop {} {a}", rng.below(nsup as u64))
                }
            }
            112..=115 if !in_dead_state.is_empty() => {
                let p = *rng.pick(&in_dead_state);
                let act = if rng.chance(3, 4) { Act::Reply(rng.below(100_000)) } else { Act::Drop };
                format!("later {p} {}", act.show())
            }
            112..=116 => format!("stop {a} keep"),
            117 => format!("spawnl {}", rng.below(nsup as u64)),
            118 => format!("handle {a} keep"),
            119 => if rng.chance(1, 2) { format!("supexit {}", rng.below(nsup as u64)) } else { format!("handle {a} keep") },
            0..=26 => format!("call {a} {}{}", gen_timeout(rng), *rng.pick(&["", " f", " m", " m0", " d"])),
            27..=29 => format!("cast {a} {}{}", rng.below(1000), *rng.pick(&["", " f", " m", " d", " ds", " dp"])),
            30..=56 => format!("handle {a} {}", gen_act(rng).show()),
            // the handler acts exactly when a deadline is reached (reply at the deadline instant wins)
            57..=59 => format!("handle {a} {} +{}", gen_act(rng).show(), rng.pick(&[1u64, 2, 3, 5])),
            60..=68 => {
                // prefer ports that exist
                let p = if w.next_port > 0 { rng.below(w.next_port) } else { 0 };
                let act = match rng.below(8) {
                    0..=4 => Act::Reply(rng.below(100_000)),
                    5 => Act::Drop,
                    _ => Act::Probe,
                };
                format!("later {p} {}", act.show())
            }
            69..=75 => {
                let m = rng.range(1, 4);
                let ts: Vec<String> = (0..m).map(|_| rng.below(na).to_string()).collect();
                format!("mcall {} {}", ts.join(","), gen_timeout(rng))
            }
            76..=83 => format!("fcall {a} {} {}{}", rng.below(na), gen_timeout(rng), *rng.pick(&["", " m", " m", " f"])),
            84..=91 => format!("advance {}", rng.pick(&[1u64, 1, 2, 3, 7])),
            92 => format!("{} {a}", rng.pick(&["badcast", "badsend", "badcall", "baddcast", "baddsend", "baddcall", "baddafter"])),
            93 => format!("exit {a}"),
            94 => format!("fail {a} {}", if rng.chance(1, 2) { "err" } else { "panic" }),
            95..=97 => format!("stop {a} {}", gen_act(rng).show()),
            _ => format!("drain {a}"),
        };
        st.bump(line.split(' ').next().unwrap());
        if line.starts_with("call ") || line.starts_with("cast ") || line.starts_with("fcall ") {
            // which API surface issued it (function / macro arm / derived ref)
            let w: Vec<&str> = line.split(' ').collect();
            let n_plain = if w[0] == "fcall" { 4 } else { 3 };
            st.bump(&format!("surface_{}_{}", w[0], if w.len() > n_plain { w[n_plain] } else { "fn" }));
        }
        let obs = w.exec(&line).await;
        if obs.contains("senderError") {
            st.bump("obs_senderError");
        }
        if obs.contains("timeout") {
            st.bump("obs_timeout");
        }
        if obs.contains("sent-err") {
            st.bump("obs_reply_to_gone_caller");
        }
        if obs.contains("mdone") {
            st.bump("obs_mdone");
            // one multi_call whose members ended differently (reply / drop / timeout mixed)
            if let Some(m) = obs.split(';').find(|e| e.contains("mdone")) {
                let kinds = ["success", "senderError", "timeout"].iter().filter(|k| m.contains(**k)).count();
                if kinds >= 2 {
                    st.bump("obs_mdone_mixed");
                }
                if kinds == 3 {
                    st.bump("obs_mdone_all_three");
                }
            }
        }
        if line.starts_with("handle") && line.contains(" +") && obs.contains("sent-ok") {
            // the reply was sent in the very op in which the clock reached / passed its caller's deadline?
            st.bump("obs_reply_with_clock_jump");
        }
        if obs.starts_with("closed") || obs.starts_with("open") {
            st.bump(&format!("obs_probe_{}", obs.split(' ').next().unwrap()));
        }
        if obs.contains("fdone") {
            st.bump("obs_fdone");
        }
        if obs.starts_with("evt ") {
            st.bump(if line.ends_with("stash") { "obs_event_stashed" } else { "obs_event_dropped" });
        }
        if line.starts_with("supdrop") && obs.starts_with("dropped") {
            st.bump("obs_stashed_event_dropped");
        }
        if line.starts_with("later") && w.keeper.get(&line.split(' ').nth(1).and_then(|x| x.parse::<u64>().ok()).unwrap_or(u64::MAX)).is_some_and(|a| !w.actors[*a].alive) && (obs.starts_with("sent-") || obs.starts_with("dropped")) {
            st.bump("obs_port_used_from_stashed_state");
        }
        log.rec(line, obs);
    }
    w.teardown().await;
}

async fn replay_file(log: &mut Log, st: &mut Stats, path: &str) {
    let text = std::fs::read_to_string(path).unwrap_or_default();
    let mut w = World::new();
    for line in text.lines() {
        st.bump("replayed_ops");
        if line.trim() == "case" {
            w.teardown().await;
            w = World::new();
            log.rec("case", "ok");
            continue;
        }
        let obs = w.exec(line).await;
        log.rec(line, obs);
    }
    w.teardown().await;
}

#[tokio::main(flavor = "current_thread", start_paused = true)]
async fn main() {
    let args = Args::parse();
    let seed = args.u64("seed", 1);
    let cases = args.u64("cases", 100);
    let len = args.u64("len", 40);
    let out = args.str("out", "/tmp/rpc");
    // handler panics are part of the input (`fail a panic`): keep stderr quiet
    std::panic::set_hook(Box::new(|_| {}));
    let mut rng = Rng::new(seed);
    let mut log = Log::create(std::path::Path::new(&out)).unwrap();
    let mut st = Stats::default();
    for f in args.str("replay-ops", "").split(',').filter(|f| !f.is_empty()) {
        replay_file(&mut log, &mut st, f).await;
    }
    if args.u64("only-replay", 0) != 1 {
        for _ in 0..cases {
            gen_case(&mut log, &mut st, &mut rng, len).await;
        }
    }
    st.add("lines", log.lines);
    st.write_json(&std::path::Path::new(&out).join("stats.json"));
    log.finish();
}
