//! C02 / C07 correspondence harness (E-THR): drives the REAL admission / drain protocol of
//! `ractor/src/actor/actor_properties.rs` one atomic operation at a time.
//!
//! Worker OS threads run small programs (sends with optional nested re-entrant programs executed
//! inside `box_message`, drains, wrong-type sends) against one live actor. Every thread is
//! registered with a `verif::ThreadCtl`, so it parks at every `verif::point` of the send / admit /
//! ticket / drain / marker paths; the controller (this thread) follows a schedule and records,
//! after every granted step, the admission word, the status, the thread's next point and the
//! return value of an op that finished. The actor itself runs on a `current_thread` tokio runtime
//! owned by the controller, so it consumes the mailbox only inside the controller's `rx …` ops.
//!
//! ops.txt / impl.txt (same line numbering):
//!   `case <progs>`            | `ok at=<p0>,<p1>,…`
//!   `step <tid> <point>`      | `<c> <m> <n> st=<status> at=<next point|done>[ ret <kind> <id> <res>]`
//!   `rx run|stop|kill`        | `handled=<ids|-> exit=<reason|-> st=<status> self=<id:res,…|->[ acc=<0|1>]`
//!
//! Round 4: a send can go through `ActorCell::send_serialized` (`z`, cluster build: the serialized
//! variant of `BoxedMessage`, own admission check) or through a `DerivedActorRef` (`v…`, converter
//! closure -> `ActorRef::send_message`); threads can also call `stop(reason)` (`t<n>`, `t` = no
//! reason) and `kill()` (`k`) on the same actor: one schedule point `port.stop` / `port.kill`, then
//! the mutex-protected one-shot port operation; the result is logged as `cret stop <n|-> ok|refused`.
//!   `end <signature>`         | `word=<c> <m> <n> st=<status> handled=<ids|-> sup=<events> alive=<0|1>`
//!
//!   `stress <i> k= m= drain= stop=` | `sends=<id:res:t0:t1,…> handled=<ids> drain=<t0:t1|-> sup=<events> exited=<0|1> calls=<stop:n:ok|refused,kill:-:…|->`
//!                               (free-running threads; t = tickets of one global counter; oracle only)
//!
//! usage: admission --seed S --cases N --out DIR [--enum-cap K] [--enum 0|1] [--stress N]
//!                  [--replay-ops f1,f2 [--only-replay 1]]

use std::cell::RefCell;
use std::sync::atomic::{AtomicU64, Ordering};
use std::sync::{Arc, Mutex};
use std::time::Duration;

use hutil::{Args, Log, Rng, Stats};
use ractor::message::{BoxedDowncastErr, BoxedMessage, SerializedMessage};
use ractor::verif::{self, ThreadCtl, ThreadPhase};
use ractor::{Actor, ActorCell, ActorProcessingErr, ActorRef, DerivedActorRef, Message, MessagingErr, SupervisionEvent};

// ------------------------------------------------------------------------------------------
// programs
// ------------------------------------------------------------------------------------------

#[derive(Clone, Debug, PartialEq)]
enum Op {
    Send { nested: Vec<Op>, box_fails: bool, resend: bool, via: Via },
    Drain,
    Bad,
    /// `cell.stop(reason)`; the reason string is `r<n>`
    Stop(Option<u64>),
    /// `cell.kill()`
    Kill,
}

/// Which API a send goes through.
#[derive(Clone, Copy, Debug, PartialEq)]
enum Via {
    /// `ActorRef::<Msg>::send_message`
    Typed,
    /// `ActorCell::send_serialized` (cluster build)
    Serialized,
    /// `send_serialized` with a payload the actor's `Msg::deserialize` rejects (`zb`)
    SerializedBad,
    /// `DerivedActorRef::<DMsg>::send_message`
    Derived,
}

fn show_ops(ops: &[Op]) -> String {
    ops.iter()
        .map(|o| match o {
            Op::Send { via: Via::Serialized, .. } => "z".into(),
            Op::Send { via: Via::SerializedBad, .. } => "zb".into(),
            Op::Send { nested, box_fails, resend, via } => {
                let mut s = String::from(if *via == Via::Derived { "v" } else { "s" });
                if *box_fails {
                    s.push('f');
                }
                if *resend {
                    s.push('!');
                }
                if !nested.is_empty() {
                    s.push('[');
                    s.push_str(&show_ops(nested));
                    s.push(']');
                }
                s
            }
            Op::Drain => "d".into(),
            Op::Bad => "b".into(),
            Op::Stop(None) => "t".into(),
            Op::Stop(Some(n)) => format!("t{n}"),
            Op::Kill => "k".into(),
        })
        .collect::<Vec<_>>()
        .join(",")
}

fn show_progs(p: &[Vec<Op>]) -> String {
    p.iter().map(|t| if t.is_empty() { "-".to_string() } else { show_ops(t) }).collect::<Vec<_>>().join(";")
}

fn parse_ops(s: &[u8], i: &mut usize) -> Vec<Op> {
    let mut out = Vec::new();
    loop {
        if *i >= s.len() {
            break;
        }
        match s[*i] {
            c @ (b's' | b'v') => {
                let via = if c == b'v' { Via::Derived } else { Via::Typed };
                *i += 1;
                let mut bf = false;
                if *i < s.len() && s[*i] == b'f' {
                    bf = true;
                    *i += 1;
                }
                let mut resend = false;
                if *i < s.len() && s[*i] == b'!' {
                    resend = true;
                    *i += 1;
                }
                let mut nested = Vec::new();
                if *i < s.len() && s[*i] == b'[' {
                    *i += 1;
                    nested = parse_ops(s, i);
                    assert!(*i < s.len() && s[*i] == b']', "unbalanced program");
                    *i += 1;
                }
                out.push(Op::Send { nested, box_fails: bf, resend, via });
            }
            b'z' => {
                *i += 1;
                let mut via = Via::Serialized;
                if *i < s.len() && s[*i] == b'b' {
                    via = Via::SerializedBad;
                    *i += 1;
                }
                out.push(Op::Send { nested: Vec::new(), box_fails: false, resend: false, via });
            }
            b'k' => {
                *i += 1;
                out.push(Op::Kill);
            }
            b't' => {
                *i += 1;
                let st = *i;
                while *i < s.len() && s[*i].is_ascii_digit() {
                    *i += 1;
                }
                let n = if *i > st { Some(std::str::from_utf8(&s[st..*i]).unwrap().parse().unwrap()) } else { None };
                out.push(Op::Stop(n));
            }
            b'd' => {
                *i += 1;
                out.push(Op::Drain);
            }
            b'b' => {
                *i += 1;
                out.push(Op::Bad);
            }
            b'-' => {
                *i += 1;
            }
            _ => break,
        }
        if *i < s.len() && s[*i] == b',' {
            *i += 1;
        } else {
            break;
        }
    }
    out
}

fn parse_progs(s: &str) -> Vec<Vec<Op>> {
    s.split(';')
        .map(|t| {
            let mut i = 0;
            let r = parse_ops(t.as_bytes(), &mut i);
            assert_eq!(i, t.len(), "bad program `{t}`");
            r
        })
        .collect()
}

// ------------------------------------------------------------------------------------------
// the actor under test, its message type and its supervisor
// ------------------------------------------------------------------------------------------

/// shared between the workers, the controller and the actor's handler (no reference to the actor)
struct Shared {
    next_id: AtomicU64,
    rets: Mutex<Vec<String>>,
    /// `<id>:<res>` of the sends the handler issued to its own actor
    selfsends: Mutex<Vec<String>>,
    /// stress mode: global ticket counter (a total order consistent with real time) and the
    /// `(id, res, t0, t1)` records of the handler's own sends
    tick: AtomicU64,
    self_recs: Mutex<Vec<(u64, String, u64, u64)>>,
}

struct Ctx {
    aref: ActorRef<Msg>,
    dref: DerivedActorRef<DMsg>,
    cell: ActorCell,
    sh: Arc<Shared>,
}

thread_local! {
    static CTX: RefCell<Option<Arc<Ctx>>> = const { RefCell::new(None) };
    /// ids of the sends in progress on this thread (innermost last), shared with the controller
    static CUR: RefCell<Option<Arc<Mutex<Vec<u64>>>>> = const { RefCell::new(None) };
}

fn cur_push(id: u64) {
    CUR.with(|c| {
        if let Some(v) = c.borrow().as_ref() {
            v.lock().unwrap().push(id)
        }
    });
}
fn cur_pop() {
    CUR.with(|c| {
        if let Some(v) = c.borrow().as_ref() {
            v.lock().unwrap().pop();
        }
    });
}

struct Msg {
    id: u64,
    nested: Vec<Op>,
    box_fails: bool,
    /// the handler sends one more (plain) message to its own actor
    resend: bool,
}

/// Carrier with the default (library) boxing, so that `Msg` can run a program inside
/// `box_message` and still produce a regular local `BoxedMessage`.
struct Inner(Msg);
impl Message for Inner {}

impl Message for Msg {
    fn box_message(self, pid: &ractor::ActorId) -> Result<BoxedMessage, BoxedDowncastErr> {
        let ctx = CTX.with(|c| c.borrow().clone());
        if let Some(ctx) = ctx {
            for op in &self.nested {
                exec_op(&ctx, op);
            }
        }
        verif::point("box.end");
        if self.box_fails {
            return Err(BoxedDowncastErr);
        }
        Inner(self).box_message(pid)
    }
    fn from_boxed(mut m: BoxedMessage) -> Result<Self, BoxedDowncastErr> {
        // the serialized variant of `BoxedMessage` (what `send_serialized` enqueues)
        if let Some(sm) = m.serialized_msg.take() {
            return match sm {
                SerializedMessage::Cast { args, .. } if args.len() == 8 => {
                    let mut b = [0u8; 8];
                    b.copy_from_slice(&args);
                    Ok(Msg { id: u64::from_be_bytes(b), nested: Vec::new(), box_fails: false, resend: false })
                }
                _ => Err(BoxedDowncastErr),
            };
        }
        Inner::from_boxed(m).map(|i| i.0)
    }
}

/// The message type of the derived ref: convertible into `Msg` and back.
struct DMsg(Msg);
impl From<DMsg> for Msg {
    fn from(d: DMsg) -> Msg {
        d.0
    }
}
impl TryFrom<Msg> for DMsg {
    type Error = ();
    fn try_from(m: Msg) -> Result<DMsg, ()> {
        Ok(DMsg(m))
    }
}

fn ser(id: u64) -> SerializedMessage {
    SerializedMessage::Cast { variant: "m".into(), args: id.to_be_bytes().to_vec(), metadata: None }
}
/// a payload `Msg::from_boxed` cannot decode (9 bytes instead of 8); the id is still readable for
/// the harness's own bookkeeping
fn ser_bad(id: u64) -> SerializedMessage {
    let mut args = id.to_be_bytes().to_vec();
    args.push(0xff);
    SerializedMessage::Cast { variant: "m".into(), args, metadata: None }
}
fn ser_id(m: &SerializedMessage) -> Option<u64> {
    match m {
        SerializedMessage::Cast { args, .. } if args.len() >= 8 => {
            let mut b = [0u8; 8];
            b.copy_from_slice(&args[..8]);
            Some(u64::from_be_bytes(b))
        }
        _ => None,
    }
}

struct Wrong;
impl Message for Wrong {}

fn exec_op(ctx: &Arc<Ctx>, op: &Op) {
    verif::point("op.start");
    match op {
        Op::Send { via: via @ (Via::Serialized | Via::SerializedBad), .. } => {
            let id = ctx.sh.next_id.fetch_add(1, Ordering::SeqCst);
            cur_push(id);
            let r = ctx.cell.send_serialized(if *via == Via::SerializedBad { ser_bad(id) } else { ser(id) });
            cur_pop();
            let s = match r.map_err(|b| *b) {
                Ok(()) => format!("ret send {id} ok"),
                // the id of the message that came back inside the error (`sendErr(<back>)`); the driver
                // compares it with the model's `Res.sendErr back` and the oracle with the send's own id
                Err(MessagingErr::SendErr(m)) => match ser_id(&m) {
                    Some(back) => format!("ret send {id} sendErr({back})"),
                    None => format!("ret send {id} sendErr(?)"),
                },
                Err(MessagingErr::InvalidActorType) => format!("ret send {id} invalidType"),
                Err(MessagingErr::ChannelClosed) => format!("ret send {id} channelClosed"),
            };
            ctx.sh.rets.lock().unwrap().push(s);
        }
        Op::Send { nested, box_fails, resend, via } => {
            let id = ctx.sh.next_id.fetch_add(1, Ordering::SeqCst);
            cur_push(id);
            let m = Msg { id, nested: nested.clone(), box_fails: *box_fails, resend: *resend };
            let r = if *via == Via::Derived {
                ctx.dref.send_message(DMsg(m)).map_err(|e| match e {
                    MessagingErr::SendErr(d) => MessagingErr::SendErr(d.0),
                    MessagingErr::ChannelClosed => MessagingErr::ChannelClosed,
                    MessagingErr::InvalidActorType => MessagingErr::InvalidActorType,
                })
            } else {
                ctx.aref.send_message(m)
            };
            cur_pop();
            let s = match r {
                Ok(()) => format!("ret send {id} ok"),
                Err(MessagingErr::SendErr(m)) => format!("ret send {id} sendErr({})", m.id),
                Err(MessagingErr::InvalidActorType) => format!("ret send {id} invalidType"),
                Err(MessagingErr::ChannelClosed) => format!("ret send {id} channelClosed"),
            };
            ctx.sh.rets.lock().unwrap().push(s);
        }
        Op::Drain => {
            let s = match ctx.cell.drain() {
                Ok(()) => "ret drain 0 ok".to_string(),
                Err(MessagingErr::SendErr(())) => "ret drain 0 drainErr".to_string(),
                Err(e) => format!("ret drain 0 other({e})"),
            };
            ctx.sh.rets.lock().unwrap().push(s);
        }
        Op::Stop(r) => {
            // `send_stop` is one mutex-protected operation: one schedule point in front of it
            verif::point("port.stop");
            let ok = ctx.cell.verif_stop(r.map(|n| format!("r{n}")));
            let s = format!("cret stop {} {}", r.map_or("-".to_string(), |n| n.to_string()), if ok { "ok" } else { "refused" });
            ctx.sh.rets.lock().unwrap().push(s);
        }
        Op::Kill => {
            verif::point("port.kill");
            let ok = ctx.cell.verif_kill();
            ctx.sh.rets.lock().unwrap().push(format!("cret kill - {}", if ok { "ok" } else { "refused" }));
        }
        Op::Bad => {
            verif::point("send.typecheck");
            let s = match ctx.cell.send_message::<Wrong>(Wrong) {
                Err(MessagingErr::InvalidActorType) => "ret bad 0 invalidType".to_string(),
                Ok(()) => "ret bad 0 ok".to_string(),
                Err(_) => "ret bad 0 other".to_string(),
            };
            ctx.sh.rets.lock().unwrap().push(s);
        }
    }
}

struct Target {
    handled: Arc<Mutex<Vec<u64>>>,
    sh: Arc<Shared>,
}

impl Actor for Target {
    type Msg = Msg;
    type State = ();
    type Arguments = ();
    async fn pre_start(&self, _: ActorRef<Msg>, _: ()) -> Result<(), ActorProcessingErr> {
        Ok(())
    }
    async fn handle(&self, myself: ActorRef<Msg>, m: Msg, _: &mut ()) -> Result<(), ActorProcessingErr> {
        self.handled.lock().unwrap().push(m.id);
        if m.resend {
            // a send from the actor to itself (complete, on the actor's own task)
            let id = self.sh.next_id.fetch_add(1, Ordering::SeqCst);
            let t0 = self.sh.tick.fetch_add(1, Ordering::SeqCst);
            let r = match myself.send_message(Msg { id, nested: Vec::new(), box_fails: false, resend: false }) {
                Ok(()) => "ok".to_string(),
                Err(MessagingErr::SendErr(b)) => format!("sendErr({})", b.id),
                Err(MessagingErr::InvalidActorType) => "invalidType".to_string(),
                Err(MessagingErr::ChannelClosed) => "channelClosed".to_string(),
            };
            let t1 = self.sh.tick.fetch_add(1, Ordering::SeqCst);
            self.sh.self_recs.lock().unwrap().push((id, r.clone(), t0, t1));
            self.sh.selfsends.lock().unwrap().push(format!("{id}:{r}"));
        }
        Ok(())
    }
}

struct Sup {
    events: Arc<Mutex<Vec<String>>>,
}
struct SupMsg;
impl Message for SupMsg {}

impl Actor for Sup {
    type Msg = SupMsg;
    type State = ();
    type Arguments = ();
    async fn pre_start(&self, _: ActorRef<SupMsg>, _: ()) -> Result<(), ActorProcessingErr> {
        Ok(())
    }
    async fn handle_supervisor_evt(
        &self,
        _: ActorRef<SupMsg>,
        e: SupervisionEvent,
        _: &mut (),
    ) -> Result<(), ActorProcessingErr> {
        let s = match e {
            SupervisionEvent::ActorStarted(_) => "Started".to_string(),
            SupervisionEvent::ActorTerminated(_, _, r) => format!("Terminated:{}", r.unwrap_or_else(|| "-".into())),
            SupervisionEvent::ActorFailed(_, e) => format!("Failed:{e}"),
            _ => "Other".to_string(),
        };
        self.events.lock().unwrap().push(s);
        Ok(())
    }
}

// ------------------------------------------------------------------------------------------
// one case
// ------------------------------------------------------------------------------------------

#[derive(Clone, Copy, Debug, PartialEq)]
enum Choice {
    T(usize),
    RxRun,
    RxStop,
    RxKill,
}

fn is_local_point(p: &str) -> bool {
    matches!(p, "op.start" | "send.box" | "box.end" | "send.typecheck")
}

fn show_ids(v: &[u64]) -> String {
    hutil::show_u64s(v)
}

struct Env {
    rt: tokio::runtime::Runtime,
    log: Log,
    st: Stats,
}

/// What the chooser sees: enabled worker threads (with the point each is parked at) and whether
/// the actor is still alive.
struct View<'a> {
    enabled: &'a [(usize, &'static str)],
    alive: bool,
    steps: usize,
}

fn quiesce(rt: &tokio::runtime::Runtime) {
    rt.block_on(async { tokio::time::sleep(Duration::from_millis(1)).await });
}

/// Runs one case. `choose` returns the next schedule element; it is called until every worker is
/// done (it must eventually pick workers). `eager_local`: purely local points (`op.start`,
/// `send.box`, `box.end`, `send.typecheck`) are granted immediately instead of being schedule choices.
fn run_case(env: &mut Env, progs: &[Vec<Op>], eager_local: bool, choose: &mut dyn FnMut(&View) -> Choice) {
    let handled = Arc::new(Mutex::new(Vec::new()));
    let events = Arc::new(Mutex::new(Vec::new()));
    let shared = Arc::new(Shared { next_id: AtomicU64::new(0), rets: Mutex::new(Vec::new()), selfsends: Mutex::new(Vec::new()), tick: AtomicU64::new(0), self_recs: Mutex::new(Vec::new()) });
    let (aref, sup_ref) = env.rt.block_on(async {
        let (sup_ref, _) = Actor::spawn(None, Sup { events: events.clone() }, ()).await.expect("spawn sup");
        let (aref, _) = Actor::spawn_linked(None, Target { handled: handled.clone(), sh: shared.clone() }, (), sup_ref.get_cell())
            .await
            .expect("spawn target");
        (aref, sup_ref)
    });
    quiesce(&env.rt);
    let cell = aref.get_cell();
    let ctx = Arc::new(Ctx { aref: aref.clone(), dref: aref.get_derived::<DMsg>(), cell: cell.clone(), sh: shared.clone() });

    let mut ctls = Vec::new();
    let mut joins = Vec::new();
    let mut curs: Vec<Arc<Mutex<Vec<u64>>>> = Vec::new();
    for prog in progs {
        let ctl = ThreadCtl::new();
        let c2 = ctl.clone();
        let cur = Arc::new(Mutex::new(Vec::new()));
        curs.push(cur.clone());
        let ctx2 = ctx.clone();
        let prog = prog.clone();
        joins.push(std::thread::spawn(move || {
            verif::thread_register(c2.clone());
            CTX.with(|c| *c.borrow_mut() = Some(ctx2.clone()));
            CUR.with(|c| *c.borrow_mut() = Some(cur));
            for op in &prog {
                exec_op(&ctx2, op);
            }
            CTX.with(|c| *c.borrow_mut() = None);
            verif::thread_unregister();
            c2.finish();
        }));
        ctls.push(ctl);
    }
    let wait = |ctl: &Arc<ThreadCtl>| -> ThreadPhase {
        ctl.wait_parked_timeout(Duration::from_secs(20)).expect("worker thread neither parked nor done after 20 s")
    };
    let mut phases: Vec<ThreadPhase> = ctls.iter().map(wait).collect();
    let at = |p: &ThreadPhase| -> &'static str {
        match p {
            ThreadPhase::AtPoint(n) => n,
            _ => "done",
        }
    };
    env.log.rec(
        format!("case {}", show_progs(progs)),
        format!("ok at={}", phases.iter().map(at).collect::<Vec<_>>().join(",")),
    );
    env.st.bump("cases");

    let mut rets_seen = 0usize;
    let mut handled_seen = 0usize;
    let mut self_seen = 0usize;
    let mut events_seen = events.lock().unwrap().len(); // "Started"
    let mut alive = true;
    let mut sig = String::new();
    let mut steps = 0usize;
    let status = |c: &ActorCell| c.get_status() as u8;

    // one granted worker step
    macro_rules! do_step {
        ($i:expr) => {{
            let i: usize = $i;
            let p = at(&phases[i]);
            let pre_id = curs[i].lock().unwrap().last().copied();
            ctls[i].grant();
            phases[i] = wait(&ctls[i]);
            let (c, m, n) = cell.verif_admission_word();
            let mut obs = format!("{} {} {} st={} at={}", c as u8, m as u8, n, status(&cell), at(&phases[i]));
            {
                let r = shared.rets.lock().unwrap();
                for s in &r[rets_seen..] {
                    obs.push(' ');
                    obs.push_str(s);
                    env.st.bump(&format!("ret_{}", s.split(' ').skip(1).step_by(2).collect::<Vec<_>>().join("_")));
                }
                rets_seen = r.len();
            }
            // the first real step of a send names the message it is about
            let opline = if p == "send.status" {
                format!("step {i} {p} id={}", pre_id.map_or("?".to_string(), |x| x.to_string()))
            } else {
                format!("step {i} {p}")
            };
            env.log.rec(opline, obs);
            env.st.bump(&format!("pt_{p}"));
            sig.push_str(&i.to_string());
            steps += 1;
        }};
    }
    macro_rules! do_rx {
        ($what:expr) => {{
            let what: &str = $what;
            let acc = match what {
                "stop" => format!(" acc={}", cell.verif_stop(None) as u8),
                "kill" => format!(" acc={}", cell.verif_kill() as u8),
                _ => String::new(),
            };
            quiesce(&env.rt);
            let h = handled.lock().unwrap();
            let e = events.lock().unwrap();
            let new_h = show_ids(&h[handled_seen..]);
            handled_seen = h.len();
            let mut exit = "-".to_string();
            for ev in &e[events_seen.min(e.len())..] {
                if let Some(r) = ev.strip_prefix("Terminated:") {
                    exit = r.to_string();
                    alive = false;
                } else if ev.starts_with("Failed:") {
                    exit = ev.clone();
                    alive = false;
                }
            }
            events_seen = e.len().max(events_seen);
            let ss = shared.selfsends.lock().unwrap();
            let new_self = if ss.len() > self_seen { ss[self_seen..].join(",") } else { "-".to_string() };
            env.st.add("self_sends", (ss.len() - self_seen) as u64);
            self_seen = ss.len();
            env.log.rec(format!("rx {what}"), format!("handled={new_h} exit={exit} st={} self={new_self}{acc}", status(&cell)));
            env.st.bump(&format!("rx_{what}"));
            sig.push(match what {
                "stop" => 'S',
                "kill" => 'K',
                _ => 'R',
            });
        }};
    }

    loop {
        // wave 2: a case whose threads keep taking steps (a CAS loop that spins, a retry path that never
        // ends) must not hang the engine: the ranking measure of the model bounds the steps of any case
        // by a few hundred; give up far above that, the driver reports `no-progress-within-the-measure`
        if steps > STEP_CAP {
            env.log.rec(format!("budget {}", show_progs(progs)), format!("exceeded steps={steps} cap={STEP_CAP}"));
            env.log.flush();
            eprintln!("admission: case exceeded {STEP_CAP} steps, giving up");
            std::process::exit(0);
        }
        if eager_local {
            let mut progress = true;
            while progress {
                progress = false;
                for i in 0..ctls.len() {
                    while is_local_point(at(&phases[i])) {
                        do_step!(i);
                        progress = true;
                    }
                }
            }
        }
        let enabled: Vec<(usize, &'static str)> =
            phases.iter().enumerate().filter(|(_, p)| matches!(p, ThreadPhase::AtPoint(_))).map(|(i, p)| (i, at(p))).collect();
        if enabled.is_empty() {
            break;
        }
        match choose(&View { enabled: &enabled, alive, steps }) {
            Choice::T(i) => {
                assert!(enabled.iter().any(|(k, _)| *k == i), "schedule picks thread {i} which is not enabled");
                do_step!(i);
            }
            Choice::RxRun => do_rx!("run"),
            Choice::RxStop => do_rx!("stop"),
            Choice::RxKill => do_rx!("kill"),
        }
    }
    // let the actor work off the mailbox
    do_rx!("run");
    let (c, m, n) = cell.verif_admission_word();
    env.log.rec(
        format!("end {} {}", show_progs(progs), sig),
        format!(
            "word={} {} {} st={} handled={} sup={} alive={}",
            c as u8,
            m as u8,
            n,
            status(&cell),
            show_ids(&handled.lock().unwrap()),
            events.lock().unwrap().join(","),
            alive as u8
        ),
    );
    env.st.add("steps", steps as u64);
    // cleanup (not part of the case)
    for j in joins {
        j.join().expect("worker panicked");
    }
    cell.stop(None);
    sup_ref.stop(None);
    quiesce(&env.rt);
}

// ------------------------------------------------------------------------------------------
// schedule sources
// ------------------------------------------------------------------------------------------

/// Depth-first enumeration of all schedules by re-execution.
#[derive(Default)]
struct Dfs {
    stack: Vec<(usize, usize)>,
    depth: usize,
}
impl Dfs {
    fn begin(&mut self) {
        self.depth = 0;
    }
    fn choose(&mut self, n: usize) -> usize {
        let c = if self.depth < self.stack.len() {
            assert_eq!(self.stack[self.depth].1, n, "implementation is not deterministic under the schedule");
            self.stack[self.depth].0
        } else {
            self.stack.push((0, n));
            0
        };
        self.depth += 1;
        c
    }
    fn advance(&mut self) -> bool {
        self.stack.truncate(self.depth);
        while let Some((c, n)) = self.stack.pop() {
            if c + 1 < n {
                self.stack.push((c + 1, n));
                return true;
            }
        }
        false
    }
}

/// All schedules of `progs` (local steps eager). `rx_exit`: additionally the receiver's exit
/// (`rx stop`) is a schedule choice, taken exactly once at any position. `rx_runs`: the receiver
/// may additionally be run to quiescence (`rx run`) at up to that many positions.
fn enumerate(env: &mut Env, name: &str, progs: &[Vec<Op>], rx_exit: bool, rx_runs: usize, cap: u64) -> bool {
    let mut dfs = Dfs::default();
    let mut count = 0u64;
    let complete = loop {
        dfs.begin();
        let mut used_rx = false;
        let mut runs = 0usize;
        let mut last_was_run = false;
        run_case(env, progs, true, &mut |v: &View| {
            let mut extra = Vec::new();
            if rx_exit && !used_rx {
                extra.push(Choice::RxStop);
            }
            // two receiver runs in a row are one
            if runs < rx_runs && v.alive && !last_was_run {
                extra.push(Choice::RxRun);
            }
            let k = dfs.choose(v.enabled.len() + extra.len());
            last_was_run = false;
            if k < v.enabled.len() {
                Choice::T(v.enabled[k].0)
            } else {
                let c = extra[k - v.enabled.len()];
                match c {
                    Choice::RxStop => used_rx = true,
                    _ => {
                        runs += 1;
                        last_was_run = true;
                    }
                }
                c
            }
        });
        count += 1;
        if !dfs.advance() {
            break true;
        }
        if count >= cap {
            break false;
        }
    };
    env.st.add(&format!("enum_{name}_schedules"), count);
    env.st.add(&format!("enum_{name}_complete"), complete as u64);
    complete
}

fn gen_ops(rng: &mut Rng, depth: u32, max: u64) -> Vec<Op> {
    let n = rng.range(1, max);
    (0..n)
        .map(|_| {
            let k = rng.below(100);
            if k < 62 {
                // top level: one send in six goes through `send_serialized`, one in six through a derived ref
                let via = match rng.below(6) {
                    0 if depth == 0 => Via::Serialized,
                    1 => Via::Derived,
                    _ => Via::Typed,
                };
                if via == Via::Serialized {
                    // one serialized payload in four cannot be decoded by the actor
                    let via = if rng.chance(1, 4) { Via::SerializedBad } else { via };
                    return Op::Send { nested: Vec::new(), box_fails: false, resend: false, via };
                }
                let nested = if depth < 2 && rng.chance(1, 5) { gen_ops(rng, depth + 1, 2) } else { Vec::new() };
                Op::Send { nested, box_fails: rng.chance(1, 25), resend: rng.chance(1, 8), via }
            } else if k < 90 {
                Op::Drain
            } else {
                Op::Bad
            }
        })
        .collect()
}

fn random_case(env: &mut Env, rng: &mut Rng, progs: &[Vec<Op>], eager: bool) {
    let mode = rng.below(4); // 0 uniform, 1 bursty, 2 uniform + receiver runs, 3 + receiver exits
    let mut last: Option<usize> = None;
    let mut r = rng.fork();
    let mut exited = false;
    run_case(env, progs, eager, &mut |v: &View| {
        if mode >= 2 && v.alive && r.chance(1, 12) {
            return Choice::RxRun;
        }
        if mode == 3 && !exited && r.chance(1, 25) {
            exited = true;
            return if r.chance(1, 2) { Choice::RxStop } else { Choice::RxKill };
        }
        if mode == 1 {
            if let Some(l) = last {
                if v.enabled.iter().any(|(k, _)| *k == l) && r.chance(3, 4) {
                    return Choice::T(l);
                }
            }
        }
        let i = v.enabled[r.below(v.enabled.len() as u64) as usize].0;
        last = Some(i);
        Choice::T(i)
    });
}

/// Re-execute a recorded case: `case` line + the `step <tid> …` / `rx …` lines that follow.
fn replay_file(env: &mut Env, path: &str) {
    let txt = std::fs::read_to_string(path).unwrap_or_else(|e| panic!("cannot read {path}: {e}"));
    let lines: Vec<&str> = txt.lines().collect();
    let mut i = 0;
    while i < lines.len() {
        let Some(p) = lines[i].strip_prefix("case ") else {
            i += 1;
            continue;
        };
        let progs = parse_progs(p.trim());
        let mut sched = Vec::new();
        i += 1;
        while i < lines.len() && !lines[i].starts_with("case ") {
            let w: Vec<&str> = lines[i].split_whitespace().collect();
            match w.as_slice() {
                ["step", t, ..] => sched.push(Choice::T(t.parse().expect("tid"))),
                ["rx", "run"] => sched.push(Choice::RxRun),
                ["rx", "stop"] => sched.push(Choice::RxStop),
                ["rx", "kill"] => sched.push(Choice::RxKill),
                _ => {}
            }
            i += 1;
        }
        // the trailing `rx run` before `end` is added by run_case itself
        if lines[..i].iter().rev().take(2).any(|l| l.starts_with("end ")) && sched.last() == Some(&Choice::RxRun) {
            sched.pop();
        }
        let mut k = 0;
        run_case(env, &progs, false, &mut |v: &View| {
            // follow the recorded schedule as far as it is executable (a shrunk schedule may
            // name a thread that is not enabled any more), then finish round-robin
            while k < sched.len() {
                let c = sched[k];
                k += 1;
                match c {
                    Choice::T(t) if !v.enabled.iter().any(|(e, _)| *e == t) => continue,
                    _ => return c,
                }
            }
            Choice::T(v.enabled[0].0)
        });
        env.st.bump("replayed_cases");
    }
}

/// Free-running stress case (no schedule points, real threads, multi-threaded runtime): K sender
/// threads x M messages, optionally a drainer and a stopper. Every send takes a ticket from one
/// global counter before it starts and after it returned (a total order consistent with real time),
/// so the oracle can judge real-time order without wall-clock times. Judged by the oracle only.
fn stress_case(env: &mut Env, srt: &tokio::runtime::Runtime, rng: &mut Rng, idx: u64) {
    let k = rng.range(2, 4) as usize;
    let m = rng.range(1, 40) as usize;
    let with_drain = rng.chance(3, 4);
    // round 4: one case in four races stoppers with distinct reasons (and sometimes a killer) with the
    // senders and the drainer; every caller's result is recorded
    let stoppers: u64 = if rng.chance(1, 4) { rng.range(1, 3) } else { 0 };
    let with_kill = stoppers > 0 && rng.chance(1, 3);
    let with_stop = stoppers > 0 || with_kill;
    let resend_every = rng.range(0, 6);
    let delay = rng.range(0, 30) * rng.range(0, 1500);
    let handled = Arc::new(Mutex::new(Vec::new()));
    let events = Arc::new(Mutex::new(Vec::new()));
    let shared = Arc::new(Shared {
        next_id: AtomicU64::new(0),
        rets: Mutex::new(Vec::new()),
        selfsends: Mutex::new(Vec::new()),
        tick: AtomicU64::new(0),
        self_recs: Mutex::new(Vec::new()),
    });
    let (aref, handle, sup_ref) = srt.block_on(async {
        let (sup_ref, _) = Actor::spawn(None, Sup { events: events.clone() }, ()).await.expect("spawn sup");
        let (aref, h) = Actor::spawn_linked(None, Target { handled: handled.clone(), sh: shared.clone() }, (), sup_ref.get_cell())
            .await
            .expect("spawn target");
        (aref, h, sup_ref)
    });
    let cell = aref.get_cell();
    let recs: Arc<Mutex<Vec<(u64, String, u64, u64)>>> = Arc::new(Mutex::new(Vec::new()));
    let mut joins = Vec::new();
    let start = Arc::new(std::sync::Barrier::new(k + usize::from(with_drain) + stoppers as usize + usize::from(with_kill)));
    let calls: Arc<Mutex<Vec<String>>> = Arc::new(Mutex::new(Vec::new()));
    for _ in 0..k {
        let aref = aref.clone();
        let sh = shared.clone();
        let recs = recs.clone();
        let start = start.clone();
        joins.push(std::thread::spawn(move || {
            start.wait();
            let mut mine = Vec::new();
            for j in 0..m {
                let id = sh.next_id.fetch_add(1, Ordering::SeqCst);
                let resend = resend_every > 0 && (j as u64) % resend_every == 0;
                let t0 = sh.tick.fetch_add(1, Ordering::SeqCst);
                let r = aref.send_message(Msg { id, nested: Vec::new(), box_fails: false, resend });
                let t1 = sh.tick.fetch_add(1, Ordering::SeqCst);
                let r = match r {
                    Ok(()) => "ok".to_string(),
                    Err(MessagingErr::SendErr(b)) => format!("sendErr({})", b.id),
                    Err(MessagingErr::InvalidActorType) => "invalidType".to_string(),
                    Err(MessagingErr::ChannelClosed) => "channelClosed".to_string(),
                };
                mine.push((id, r, t0, t1));
            }
            recs.lock().unwrap().extend(mine);
        }));
    }
    let drain_rec: Arc<Mutex<Option<(u64, u64)>>> = Arc::new(Mutex::new(None));
    if with_drain {
        let cell = cell.clone();
        let sh = shared.clone();
        let start = start.clone();
        let dr = drain_rec.clone();
        joins.push(std::thread::spawn(move || {
            start.wait();
            for _ in 0..delay {
                std::hint::spin_loop();
            }
            let t0 = sh.tick.fetch_add(1, Ordering::SeqCst);
            let _ = cell.drain();
            let t1 = sh.tick.fetch_add(1, Ordering::SeqCst);
            *dr.lock().unwrap() = Some((t0, t1));
        }));
    }
    for n in 1..=stoppers {
        let cell = cell.clone();
        let start = start.clone();
        let calls = calls.clone();
        let spin = delay * rng.range(0, 4);
        joins.push(std::thread::spawn(move || {
            start.wait();
            for _ in 0..spin {
                std::hint::spin_loop();
            }
            let ok = cell.verif_stop(Some(format!("r{n}")));
            calls.lock().unwrap().push(format!("stop:{n}:{}", if ok { "ok" } else { "refused" }));
        }));
    }
    if with_kill {
        let cell = cell.clone();
        let start = start.clone();
        let calls = calls.clone();
        let spin = delay * rng.range(0, 4);
        joins.push(std::thread::spawn(move || {
            start.wait();
            for _ in 0..spin {
                std::hint::spin_loop();
            }
            let ok = cell.verif_kill();
            calls.lock().unwrap().push(format!("kill:-:{}", if ok { "ok" } else { "refused" }));
        }));
    }
    for j in joins {
        j.join().expect("stress thread panicked");
    }
    // let the actor finish: it exits by itself after a drain / stop; otherwise wait until it has
    // handled everything that was accepted (bounded), then stop it
    let exited = srt.block_on(async {
        if with_drain || with_stop {
            tokio::time::timeout(Duration::from_secs(10), handle).await.is_ok()
        } else {
            let mut all = recs.lock().unwrap().clone();
            for _ in 0..10000 {
                all = recs.lock().unwrap().clone();
                all.extend(shared.self_recs.lock().unwrap().iter().cloned());
                let oks = all.iter().filter(|r| r.1 == "ok").count();
                if handled.lock().unwrap().len() >= oks {
                    break;
                }
                tokio::time::sleep(Duration::from_millis(1)).await;
            }
            let _ = all;
            false
        }
    });
    srt.block_on(async {
        tokio::time::sleep(Duration::from_millis(2)).await;
        // the join handle completes before the supervisor has WORKED OFF the terminal event it was sent:
        // wait (bounded) until it shows up instead of trusting the 2 ms above on a loaded machine
        if exited {
            for _ in 0..3000 {
                if events.lock().unwrap().iter().any(|e: &String| e.starts_with("Terminated") || e.starts_with("Failed")) {
                    break;
                }
                tokio::time::sleep(Duration::from_millis(1)).await;
            }
        }
    });
    let mut all = recs.lock().unwrap().clone();
    all.extend(shared.self_recs.lock().unwrap().iter().cloned());
    all.sort_by_key(|r| r.0);
    let sends = if all.is_empty() {
        "-".to_string()
    } else {
        all.iter().map(|(id, r, t0, t1)| format!("{id}:{r}:{t0}:{t1}")).collect::<Vec<_>>().join(",")
    };
    let drain = drain_rec.lock().unwrap().map_or("-".to_string(), |(a, b)| format!("{a}:{b}"));
    let calls_s = {
        let c = calls.lock().unwrap();
        if c.is_empty() { "-".to_string() } else { c.join(",") }
    };
    let obs = format!(
        "sends={sends} handled={} drain={drain} sup={} exited={} calls={calls_s}",
        show_ids(&handled.lock().unwrap()),
        events.lock().unwrap().join(","),
        exited as u8
    );
    env.log.rec(format!("stress {idx} k={k} m={m} drain={} stop={}", with_drain as u8, with_stop as u8), obs);
    env.st.bump("stress_cases");
    env.st.add("stress_sends", all.len() as u64);
    env.st.add("stress_rejected", all.iter().filter(|r| r.1 != "ok").count() as u64);
    cell.stop(None);
    sup_ref.stop(None);
    srt.block_on(async { tokio::time::sleep(Duration::from_millis(1)).await });
}

fn s(nested: Vec<Op>) -> Op {
    Op::Send { nested, box_fails: false, resend: false, via: Via::Typed }
}
fn sv(via: Via) -> Op {
    Op::Send { nested: Vec::new(), box_fails: false, resend: false, via }
}

/// Round 4: N stoppers with distinct reasons, killers, drainers and senders (typed / serialized /
/// derived) on ONE actor, at most one op of each kind per thread position; more than two closer
/// threads most of the time.
fn gen_ports_progs(rng: &mut Rng) -> Vec<Vec<Op>> {
    let mut progs: Vec<Vec<Op>> = Vec::new();
    let stoppers = rng.range(1, 3);
    for n in 1..=stoppers {
        let mut p = Vec::new();
        if rng.chance(1, 4) {
            p.push(sv(Via::Typed));
        }
        p.push(Op::Stop(if rng.chance(1, 8) { None } else { Some(n) }));
        if rng.chance(1, 5) {
            p.push(if rng.chance(1, 2) { Op::Kill } else { Op::Stop(Some(n + 10)) });
        }
        progs.push(p);
    }
    for _ in 0..rng.range(0, 2) {
        progs.push(vec![Op::Kill]);
    }
    for _ in 0..rng.range(0, 2) {
        let mut p = vec![Op::Drain];
        if rng.chance(1, 4) {
            p.push(Op::Stop(Some(20)));
        }
        progs.push(p);
    }
    for _ in 0..rng.range(1, 2) {
        let n = rng.range(1, 2);
        progs.push((0..n).map(|_| sv(match rng.below(7) { 0 | 1 => Via::Serialized, 2 | 3 => Via::Derived, 4 => Via::SerializedBad, _ => Via::Typed })).collect());
    }
    // shuffle the thread order (thread ids are part of the schedule)
    for i in (1..progs.len()).rev() {
        let j = rng.below(i as u64 + 1) as usize;
        progs.swap(i, j);
    }
    progs
}
/// a send whose handling makes the actor send to itself
fn sr() -> Op {
    Op::Send { nested: Vec::new(), box_fails: false, resend: true, via: Via::Typed }
}

/// see `run_case`: far above `mu (init progs)` of any generated case
const STEP_CAP: usize = 20_000;

fn main() {
    let args = Args::parse();
    let seed = args.u64("seed", 1);
    let cases = args.u64("cases", 300);
    let out = args.str("out", "/tmp/admission");
    let enum_cap = args.u64("enum-cap", 2000);
    let do_enum = args.u64("enum", 1) == 1;
    let rt = tokio::runtime::Builder::new_current_thread().enable_time().start_paused(true).build().expect("runtime");
    let mut env = Env { rt, log: Log::create(std::path::Path::new(&out)).unwrap(), st: Stats::default() };
    let mut rng = Rng::new(seed);

    if let Some(files) = args.0.get("replay-ops") {
        for f in files.split(',').filter(|f| !f.is_empty()) {
            replay_file(&mut env, f);
        }
    }
    // `--stress-only 1`: only the free-running cases (used for the async-std backend, package hcoreas)
    let stress_only = args.u64("stress-only", 0) != 0;
    if args.u64("only-replay", 0) == 0 && !stress_only {
        // fixed cases first: the shape of `drain_defers_marker_for_reentrant_admitted_send`
        // and a sender overtaken by the drain between its status check and its admission
        let fixed: Vec<Vec<Vec<Op>>> = vec![
            vec![vec![s(vec![Op::Drain])]],
            vec![vec![s(vec![]), Op::Bad, s(vec![])], vec![Op::Drain]],
            vec![vec![s(vec![s(vec![]), Op::Drain])], vec![s(vec![])]],
            vec![vec![sr(), sr()], vec![Op::Drain]],
            // round 4: serialized / derived sends overtaken by a drain; stoppers, a killer and a drainer on one actor
            vec![vec![sv(Via::Serialized), sv(Via::Derived)], vec![Op::Drain]],
            vec![vec![sv(Via::Typed), sv(Via::SerializedBad), sv(Via::Serialized)], vec![sv(Via::SerializedBad), Op::Drain]],
            vec![vec![Op::Stop(Some(1))], vec![Op::Stop(Some(2))], vec![Op::Kill], vec![Op::Drain], vec![sv(Via::Serialized)]],
        ];
        for p in &fixed {
            random_case(&mut env, &mut rng, p, false);
        }
        if do_enum {
            // small configurations: every schedule (up to --enum-cap per configuration)
            let cfgs: Vec<(&str, Vec<Vec<Op>>, bool, usize)> = vec![
                ("1s_2d", vec![vec![s(vec![])], vec![Op::Drain], vec![Op::Drain]], false, 0),
                ("1sx2_1d", vec![vec![s(vec![]), s(vec![])], vec![Op::Drain]], false, 0),
                ("2s_1d", vec![vec![s(vec![])], vec![s(vec![])], vec![Op::Drain]], false, 0),
                ("reentrant_1d", vec![vec![s(vec![Op::Drain])], vec![Op::Drain]], false, 0),
                ("1sx2_rxexit", vec![vec![s(vec![]), s(vec![])]], true, 0),
                ("1s_1d_rxexit", vec![vec![s(vec![])], vec![Op::Drain]], true, 0),
                // the actor sends to itself while a drain races: the receiver runs at any two positions
                ("selfsend_1d_rxrun", vec![vec![sr()], vec![Op::Drain]], false, 2),
                // round 4: the one-shot ports; the receiver runs at any one position
                ("2t_1k_rxrun", vec![vec![Op::Stop(Some(1))], vec![Op::Stop(Some(2))], vec![Op::Kill]], false, 1),
                ("2t_1s_rxrun", vec![vec![Op::Stop(Some(1)), Op::Stop(Some(2))], vec![s(vec![])]], false, 1),
                ("1t_1k_1d_rxrun", vec![vec![Op::Stop(Some(1))], vec![Op::Kill], vec![Op::Drain]], false, 1),
                ("1z_1d", vec![vec![sv(Via::Serialized)], vec![Op::Drain]], false, 0),
                ("1v_1d_rxexit", vec![vec![sv(Via::Derived)], vec![Op::Drain]], true, 0),
            ];
            for (name, p, rx, runs) in &cfgs {
                enumerate(&mut env, name, p, *rx, *runs, enum_cap);
            }
            // and random schedules of the same configurations (what the quick tier samples
            // beyond the enumeration cap)
            for _ in 0..cases / 4 {
                let (_, p, _, _) = &cfgs[rng.below(cfgs.len() as u64) as usize];
                let p = p.clone();
                random_case(&mut env, &mut rng, &p, true);
            }
        }
        // round 4: stop / kill / drain mixed on the same actor from more than two threads
        for _ in 0..cases / 3 {
            let progs = gen_ports_progs(&mut rng);
            let eager = rng.chance(1, 2);
            random_case(&mut env, &mut rng, &progs, eager);
            env.st.bump("ports_cases");
        }
        for _ in 0..cases {
            let k = rng.range(1, 4);
            let progs: Vec<Vec<Op>> = (0..k).map(|_| gen_ops(&mut rng, 0, 3)).collect();
            let eager = rng.chance(1, 2);
            random_case(&mut env, &mut rng, &progs, eager);
        }
    }
    let stress = args.u64("stress", 0);
    if stress > 0 && args.u64("only-replay", 0) == 0 {
        let srt = tokio::runtime::Builder::new_multi_thread().worker_threads(2).enable_time().build().expect("stress runtime");
        for i in 0..stress {
            stress_case(&mut env, &srt, &mut rng, i);
        }
    }
    env.st.add("lines", env.log.lines);
    env.st.write_json(&std::path::Path::new(&out).join("stats.json"));
    env.log.finish();
}
