//! C20 correspondence harness.
//!
//! (a) E-PURE on the REAL `RemoteActorState` / `handle_serialized`
//!     (`ractor_cluster::remote_actor_verif_hooks::ProxyProbe`):
//!       proxy                      fresh state                                  -> ok
//!       call <port> <payload>      a caller's Call with a fresh reply port      -> <snap>
//!       cast <payload>                                                          -> <snap>
//!       reply <tag> <data>         CallReply from the session                   -> <snap>
//!       abandon <port>             the caller drops its receiver                -> ok
//!       killsession                the session actor stops                      -> ok
//!     <snap> = `tag=<t> pending=<tags|-> cursor=<c|-> frames=<c:tag:payload|k:payload,…|-> got=<port:data,…|->`
//!
//! (b) E-LTS end to end: two REAL `NodeServer`s in this process connected over
//!     `tokio::io::duplex`, every ractor task gated and polled in PRNG order; see `e2e`.
//!
//! usage: c20 --seed S --cases N --out DIR [--e2e-cases M] [--replay-ops f1,f2 --only-replay 1]

use hutil::{Args, Log, Rng, Stats};
use ractor_cluster::remote_actor_verif_hooks::ProxyProbe;

#[path = "../tcpq.rs"]
mod tcpq;

/// `--tcp 1`: the link between the two nodes is a REAL loopback TCP connection: one node dials
/// (real `client_connect`, node/client.rs) a socket of the relay, the relay dials the other node's
/// real `Listener` (net/listener.rs); the relay's two pump tasks copy between the two sockets.
static TCP: std::sync::atomic::AtomicBool = std::sync::atomic::AtomicBool::new(false);
fn tcp_mode() -> bool {
    TCP.load(std::sync::atomic::Ordering::Relaxed)
}
static LINK_NO: std::sync::atomic::AtomicU32 = std::sync::atomic::AtomicU32::new(0);

/// (b) E-LTS end to end.
///
/// One case = one world: NodeServers A (`a@h<case>`) and B (`b@h<case>`) in this process,
/// joined by ONE connection that runs through a relay (two pump tasks copying bytes in
/// PRNG-sized fragments with PRNG delays, which can be cut after any number of bytes).
/// Both nodes share the process-global pid registry and pg, so each node advertises every
/// probe actor to the other one and each side owns a proxy for every probe:
/// `Remote{node_id = id of A's session, pid}` lives on A and forwards over A→B,
/// `Remote{node_id = id of B's session, pid}` lives on B and forwards over B→A; the real
/// probe receives in both cases. `NodeServer`s number their sessions from 0: a throw-away
/// session is opened on A first so that the two session ids (hence the proxies' `ActorId`s,
/// which key the pg maps) differ.
///
/// ops (`dir` = a|b: which node's proxy is used; `t` = probe index):
///   e2e <case> <nprobes> [a|b|-] [<t>:<s>:<g>,…]   build the world, connect, settle   -> ready a=<nidA> b=<nidB>
///                                   a|b: that relay direction stands still after the authentication frames;
///                                   t:s:g: probe t joins group g of scope s (`-` = default scope) BEFORE the
///                                   nodes connect (these memberships travel in the initial scan)
///   cast <dir> <t> <sender> <seq>   proxy.cast(Cast(sender, seq))          -> ok|err
///   call <dir> <t> <id> <req>       caller task: proxy.call(Call(req))     -> ok
///   hold <dir> <t> <id> <req>       same with a request the probe never answers -> ok
///   holdt <dir> <t> <id> <req> <ms> same, the caller gives up after <ms> (the timeout travels in the frame) -> ok
///   advance <ms>                    the paused clock moves on (kept below the 1 s ping period) -> ok
///   abandon <id>                    abort the caller task                  -> ok
///   sched <n>                       n scheduler steps (PRNG order)         -> ok
///   settle                          run everything to quiescence           -> quiet|busy
///   recv <t>                        the probe's log                        -> k<sender>:<seq>,c<req>,h<req>,…|-
///   result <id>                     the caller's outcome                   -> pending|aborted|ok:<v>|dropped|timeout|senderr
///   join <t> <g> [<s>] / leave <t> <g> [<s>]   pg::join(_scoped) / pg::leave(_scoped) of the real probe -> ok
///   members <g> [<s>]               pg::get_members / get_scoped_members   -> L<t>,Ra<t>,Rb<t>,…|-
///   spawn                           a new probe (index = next)             -> ok
///   stop <t>                        the probe exits                        -> ok
///   status <dir> <t>                status of that side's proxy            -> Running|Stopped|…|none
///   stopproxy <dir> <t>             `stop` on node dir's remote reference of probe t (not on the original) -> ok|none
///   releaseheld <t>                 the original answers every request it holds, oldest first -> ok
///   cutafter <dir> <n>              the link dies after n more bytes in direction dir -> ok
///   cut                             the link dies now                      -> ok
///   fault <dir> read|write|flush    node dir's own end of the link reports an I/O error on its next read /
///                                   write_all / flush (write, flush: half-open - its reads stay silent)  -> ok
///   faultseen <dir>                 has that transport reported the error to the session? -> reported|unreported
mod e2e {
    use std::collections::HashMap;
    use std::sync::atomic::{AtomicI64, Ordering};
    use std::sync::{Arc, Mutex};

    use ractor::rpc::CallResult;
    use ractor::{Actor, ActorCell, ActorId, ActorProcessingErr, ActorRef, RpcReplyPort};
    use ractor_cluster::{BoxRead, BoxWrite, ClusterBidiStream, NodeServer, NodeServerMessage, RactorClusterMessage};
    use tokio::io::{AsyncReadExt, AsyncWriteExt};

    use super::*;

    #[derive(RactorClusterMessage)]
    pub enum ProbeMsg {
        Cast(u64, u64),
        #[rpc]
        Call(u64, RpcReplyPort<u64>),
        #[rpc]
        Hold(u64, RpcReplyPort<u64>),
        /// answer every held request, oldest first
        Release,
    }

    pub fn reply_of(target: u64, req: u64) -> u64 {
        req * 7 + target + 1
    }

    type ProbeLog = Arc<Mutex<Vec<String>>>;
    struct Probe {
        idx: u64,
    }
    struct ProbeState {
        log: ProbeLog,
        held: Vec<(u64, RpcReplyPort<u64>)>,
    }

    impl Actor for Probe {
        type Msg = ProbeMsg;
        type State = ProbeState;
        type Arguments = ProbeLog;
        async fn pre_start(&self, _: ActorRef<ProbeMsg>, log: ProbeLog) -> Result<ProbeState, ActorProcessingErr> {
            Ok(ProbeState { log, held: vec![] })
        }
        async fn handle(&self, _: ActorRef<ProbeMsg>, m: ProbeMsg, st: &mut ProbeState) -> Result<(), ActorProcessingErr> {
            match m {
                ProbeMsg::Cast(sender, seq) => st.log.lock().unwrap().push(format!("k{sender}:{seq}")),
                ProbeMsg::Call(req, port) => {
                    st.log.lock().unwrap().push(format!("c{req}"));
                    let _ = port.send(reply_of(self.idx, req));
                }
                ProbeMsg::Hold(req, port) => {
                    st.log.lock().unwrap().push(format!("h{req}"));
                    st.held.push((req, port));
                }
                ProbeMsg::Release => {
                    for (req, port) in st.held.drain(..) {
                        let _ = port.send(reply_of(self.idx, req));
                    }
                }
            }
            Ok(())
        }
    }

    /// Transport faults a node's own end of the link can be told to report (`fault <dir> <kind>`):
    /// 0 none, 1 the next read fails (ConnectionReset), 2 the next write fails (BrokenPipe),
    /// 3 writes are accepted into a buffer nobody drains and the next flush fails
    /// (ConnectionReset). In modes 2 and 3 the connection is half-open: reads never return
    /// (neither data nor EOF), so only the writer task can notice the loss.
    #[derive(Default)]
    pub struct Fault {
        mode: std::sync::atomic::AtomicU8,
        reader: Mutex<Option<std::task::Waker>>,
        /// how often the transport reported the fault to the session
        reported: std::sync::atomic::AtomicU64,
    }
    impl Fault {
        fn mode(&self) -> u8 {
            self.mode.load(Ordering::SeqCst)
        }
        fn set(&self, m: u8) {
            self.mode.store(m, Ordering::SeqCst);
            if let Some(w) = self.reader.lock().unwrap().take() {
                w.wake();
            }
        }
    }
    struct FaultyRead {
        inner: tokio::io::ReadHalf<tokio::io::DuplexStream>,
        fault: Arc<Fault>,
    }
    impl tokio::io::AsyncRead for FaultyRead {
        fn poll_read(
            mut self: std::pin::Pin<&mut Self>,
            cx: &mut std::task::Context<'_>,
            buf: &mut tokio::io::ReadBuf<'_>,
        ) -> std::task::Poll<std::io::Result<()>> {
            match self.fault.mode() {
                1 => {
                    self.fault.reported.fetch_add(1, Ordering::SeqCst);
                    std::task::Poll::Ready(Err(std::io::Error::new(std::io::ErrorKind::ConnectionReset, "injected read fault")))
                }
                2 | 3 => {
                    *self.fault.reader.lock().unwrap() = Some(cx.waker().clone());
                    std::task::Poll::Pending
                }
                _ => {
                    *self.fault.reader.lock().unwrap() = Some(cx.waker().clone());
                    std::pin::Pin::new(&mut self.inner).poll_read(cx, buf)
                }
            }
        }
    }
    struct FaultyWrite {
        inner: tokio::io::WriteHalf<tokio::io::DuplexStream>,
        fault: Arc<Fault>,
    }
    impl tokio::io::AsyncWrite for FaultyWrite {
        fn poll_write(
            mut self: std::pin::Pin<&mut Self>,
            cx: &mut std::task::Context<'_>,
            buf: &[u8],
        ) -> std::task::Poll<std::io::Result<usize>> {
            match self.fault.mode() {
                2 => {
                    self.fault.reported.fetch_add(1, Ordering::SeqCst);
                    std::task::Poll::Ready(Err(std::io::Error::new(std::io::ErrorKind::BrokenPipe, "injected write fault")))
                }
                3 => std::task::Poll::Ready(Ok(buf.len())),
                _ => std::pin::Pin::new(&mut self.inner).poll_write(cx, buf),
            }
        }
        fn poll_flush(mut self: std::pin::Pin<&mut Self>, cx: &mut std::task::Context<'_>) -> std::task::Poll<std::io::Result<()>> {
            match self.fault.mode() {
                3 => {
                    self.fault.reported.fetch_add(1, Ordering::SeqCst);
                    std::task::Poll::Ready(Err(std::io::Error::new(std::io::ErrorKind::ConnectionReset, "injected flush fault")))
                }
                _ => std::pin::Pin::new(&mut self.inner).poll_flush(cx),
            }
        }
        fn poll_shutdown(mut self: std::pin::Pin<&mut Self>, cx: &mut std::task::Context<'_>) -> std::task::Poll<std::io::Result<()>> {
            std::pin::Pin::new(&mut self.inner).poll_shutdown(cx)
        }
    }

    struct Duplex {
        stream: tokio::io::DuplexStream,
        label: String,
        fault: Arc<Fault>,
    }
    impl ClusterBidiStream for Duplex {
        fn split(self: Box<Self>) -> (BoxRead, BoxWrite) {
            let (r, w) = tokio::io::split(self.stream);
            (Box::new(FaultyRead { inner: r, fault: self.fault.clone() }), Box::new(FaultyWrite { inner: w, fault: self.fault }))
        }
        fn peer_label(&self) -> Option<String> {
            Some(self.label.clone())
        }
        fn local_label(&self) -> Option<String> {
            Some(self.label.clone())
        }
    }

    /// One direction of the relay: copy bytes in PRNG-sized fragments, yielding a PRNG
    /// number of times in between; stop for good when the byte budget is used up or the
    /// kill switch fires.
    /// `hold.0`: number of whole cluster frames (u64 big-endian length + payload) this direction
    /// lets through before it stands still; `hold.1`: the gate that lets it go on.
    type Hold = (Arc<AtomicI64>, tokio::sync::watch::Receiver<bool>);

    #[allow(clippy::too_many_arguments)]
    /// how a relay direction lets go of its write half when the link dies by RST: a TCP write half must
    /// be forgotten (dropping it sends a FIN first), an in-memory one is just dropped
    trait LetGo {
        fn let_go(self);
    }
    impl LetGo for tokio::io::WriteHalf<tokio::io::DuplexStream> {
        fn let_go(self) {}
    }
    impl LetGo for tokio::net::tcp::OwnedWriteHalf {
        fn let_go(self) {
            self.forget()
        }
    }

    async fn pump<R: tokio::io::AsyncRead + Unpin, W: tokio::io::AsyncWrite + Unpin + LetGo>(
        mut r: R,
        mut w: W,
        rst: Vec<std::os::fd::RawFd>,
        mut rng: Rng,
        budget: Arc<AtomicI64>,
        kill: tokio::sync::watch::Sender<bool>,
        mut killed: tokio::sync::watch::Receiver<bool>,
        moved: Arc<AtomicI64>,
        mut hold: Hold,
    ) {
        let mut buf = [0u8; 512];
        // position in the frame structure of the stream
        let mut hdr: Vec<u8> = Vec::new();
        let mut left: u64 = 0; // payload bytes of the current frame still to come
        let mut in_payload = false;
        let mut frames_done: i64 = 0;
        'outer: loop {
            if !in_payload && hdr.is_empty() && frames_done >= hold.0.load(Ordering::SeqCst) {
                // at a frame boundary and told to stand still: wait for the gate
                loop {
                    if *hold.1.borrow() {
                        break;
                    }
                    tokio::select! {
                        _ = killed.changed() => break 'outer,
                        c = hold.1.changed() => if c.is_err() { break 'outer },
                    }
                }
            }
            let to_boundary = if in_payload { left as usize } else { 8 - hdr.len() };
            let max = (*rng.pick(&[1usize, 3, 7, 16, 64, 512])).min(to_boundary.max(1));
            let n = tokio::select! {
                _ = killed.changed() => break,
                r = r.read(&mut buf[..max]) => match r { Ok(0) | Err(_) => break, Ok(n) => n },
            };
            let left_budget = budget.load(Ordering::SeqCst);
            let n = (n as i64).min(left_budget).max(0) as usize;
            if n > 0 {
                budget.fetch_sub(n as i64, Ordering::SeqCst);
                moved.fetch_add(n as i64, Ordering::SeqCst);
                if w.write_all(&buf[..n]).await.is_err() {
                    break;
                }
                if in_payload {
                    left -= n as u64;
                } else {
                    hdr.extend_from_slice(&buf[..n]);
                    if hdr.len() == 8 {
                        left = u64::from_be_bytes(hdr[..8].try_into().unwrap());
                        hdr.clear();
                        in_payload = true;
                    }
                }
                if in_payload && left == 0 {
                    in_payload = false;
                    frames_done += 1;
                }
            }
            if budget.load(Ordering::SeqCst) <= 0 {
                break;
            }
            for _ in 0..rng.below(3) {
                tokio::task::yield_now().await;
            }
        }
        let _ = kill.send(true);
        // real sockets: one time in two the link dies by an abortive close (RST) instead of FIN
        if !rst.is_empty() && rng.chance(1, 2) {
            for fd in rst {
                tcpq::set_reset_on_close(fd);
            }
            w.let_go();
        }
        // both halves are dropped here: the sessions see EOF / a broken pipe / a reset
    }

    /// Poll gated tasks in PRNG order until none is runnable (or the budget ends).
    /// tasks (ids) the scheduler does not poll for the moment: a node session that is "busy
    /// elsewhere" while frames and supervision events pile up in its ports
    static HELD_TASKS: Mutex<Vec<usize>> = Mutex::new(Vec::new());

    pub async fn schedule(ctl: &ractor::verif::Controller, rng: &mut Rng, budget: usize, st: &mut Stats) -> bool {
        for _ in 0..budget {
            let held = HELD_TASKS.lock().unwrap().clone();
            let runnable: Vec<_> = ctl.tasks().into_iter().filter(|t| t.runnable() && !held.contains(&t.id)).collect();
            if runnable.is_empty() {
                if tcp_mode() {
                    // real sockets: rest = no gated task runnable AND the runtime idle AND nothing unread /
                    // unsent / in flight on any socket of the process (observable, not a pause)
                    if tcpq::settle_with(|| ctl.tasks().iter().any(|t| t.runnable() && !held.contains(&t.id))).await {
                        return true;
                    }
                    continue;
                }
                // un-gated helpers (pumps, writer tasks, callers) and IO wake-ups
                let mut woke = false;
                for _ in 0..24 {
                    tokio::task::yield_now().await;
                    if ctl.tasks().iter().any(|t| t.runnable() && !held.contains(&t.id)) {
                        woke = true;
                        break;
                    }
                }
                if !woke {
                    return true;
                }
                continue;
            }
            let t = runnable[rng.below(runnable.len() as u64) as usize].clone();
            let before = t.polls();
            t.grant();
            let mut spins = 0;
            while t.polls() == before && !t.is_done() {
                tokio::task::yield_now().await;
                spins += 1;
                if spins > 10_000 {
                    st.bump("grant_not_polled");
                    break;
                }
            }
            st.bump("polls");
        }
        false
    }

    struct World {
        case: u64,
        ctl: Arc<ractor::verif::Controller>,
        rng: Rng,
        a: ActorRef<NodeServerMessage>,
        b: ActorRef<NodeServerMessage>,
        handles: Vec<tokio::task::JoinHandle<()>>,
        probes: Vec<(ActorRef<ProbeMsg>, ProbeLog)>,
        callers: HashMap<u64, tokio::task::JoinHandle<String>>,
        aborted: Vec<u64>,
        budgets: [Arc<AtomicI64>; 2],
        /// frames each direction lets through before standing still, and the gate that releases both
        holds: [Arc<AtomicI64>; 2],
        gate: tokio::sync::watch::Sender<bool>,
        kill: tokio::sync::watch::Sender<bool>,
        /// fault switches of A's and B's own end of the link
        faults: [Arc<Fault>; 2],
        nid: [u64; 2],
        /// the controlled task that runs the link's NodeSession actor on A / on B
        sess_task: [Option<usize>; 2],
        /// proxies seen so far: (dir, probe) -> cell (kept to observe them after they left pg)
        proxies: HashMap<(usize, usize), ActorCell>,
    }

    /// drive a future of ours while the gated tasks it depends on are scheduled
    async fn drive<T: Send + 'static>(
        ctl: &ractor::verif::Controller,
        rng: &mut Rng,
        st: &mut Stats,
        fut: impl std::future::Future<Output = T> + Send + 'static,
    ) -> Option<T> {
        let h = tokio::spawn(fut);
        let mut guard = 0;
        while !h.is_finished() {
            schedule(ctl, rng, 50, st).await;
            tokio::task::yield_now().await;
            guard += 1;
            if guard > 5000 {
                h.abort();
                return None;
            }
        }
        h.await.ok()
    }

    impl World {
        fn group(&self, g: &str) -> String {
            format!("c{}-{g}", self.case)
        }

        /// `-` = the default scope; named scopes are per case (pg is process-global)
        fn scope(&self, s: &str) -> String {
            if s == "-" { ractor::pg::DEFAULT_SCOPE.to_string() } else { format!("c{}-{s}", self.case) }
        }

        async fn spawn_probe(&mut self, st: &mut Stats) -> bool {
            let idx = self.probes.len() as u64;
            let log: ProbeLog = Arc::new(Mutex::new(Vec::new()));
            let l2 = log.clone();
            let r = drive(&self.ctl, &mut self.rng, st, async move { Actor::spawn(None, Probe { idx }, l2).await }).await;
            match r {
                Some(Ok((actor, _))) => {
                    // every probe sits in its own group so that its proxies can be found through pg
                    ractor::pg::join(self.group(&format!("p{idx}")), vec![actor.get_cell()]);
                    self.probes.push((actor, log));
                    true
                }
                _ => false,
            }
        }

        async fn new(
            case: u64,
            nprobes: usize,
            hold: Option<usize>,
            pre: &[(usize, String, String)],
            seed: u64,
            st: &mut Stats,
        ) -> Option<(World, String)> {
            let ctl = ractor::verif::install();
            let mut rng = Rng::new(seed ^ case.wrapping_mul(0x9E37));
            let host = format!("h{case}");
            let mk = |name: &str| NodeServer::new(0, "cookie".to_string(), name.to_string(), host.clone(), None, None);
            let (na, nb) = (mk("a"), mk("b"));
            let p0 = tcpq::listening_ports();
            let a = drive(&ctl, &mut rng, st, async move { Actor::spawn(None, na, ()).await }).await?.ok()?;
            let p1 = tcpq::listening_ports();
            let b = drive(&ctl, &mut rng, st, async move { Actor::spawn(None, nb, ()).await }).await?.ok()?;
            let p2 = tcpq::listening_ports();
            let port_a = p1.iter().copied().find(|p| !p0.contains(p));
            let port_b = p2.iter().copied().find(|p| !p1.contains(p));
            // throw-away session on A: its peer end is already gone
            {
                let (sa, sb) = tokio::io::duplex(1024);
                drop(sb);
                a.0.cast(NodeServerMessage::ConnectionOpenedExternal {
                    stream: Box::new(Duplex { stream: sa, label: "throwaway".into(), fault: Arc::default() }),
                    is_server: true,
                })
                .ok()?;
                schedule(&ctl, &mut rng, 100_000, st).await;
            }
            let (kill, _) = tokio::sync::watch::channel(false);
            let mut w = World {
                case,
                ctl,
                rng,
                a: a.0,
                b: b.0,
                handles: vec![a.1, b.1],
                probes: vec![],
                callers: HashMap::new(),
                aborted: vec![],
                budgets: [Arc::new(AtomicI64::new(i64::MAX)), Arc::new(AtomicI64::new(i64::MAX))],
                holds: [Arc::new(AtomicI64::new(i64::MAX)), Arc::new(AtomicI64::new(i64::MAX))],
                gate: tokio::sync::watch::channel(false).0,
                kill,
                faults: [Arc::default(), Arc::default()],
                nid: [u64::MAX, u64::MAX],
                sess_task: [None, None],
                proxies: HashMap::new(),
            };
            // some probes exist before the connection (advertised by the initial scan), the
            // others are spawned afterwards (advertised by the pid monitor)
            let before = w.rng.range(0, nprobes as u64) as usize;
            // a probe that joins a group before the connection must exist before it
            let before = before.max(pre.iter().map(|(t, _, _)| t + 1).max().unwrap_or(0)).min(nprobes);
            for _ in 0..before {
                w.spawn_probe(st).await;
            }
            for (t, sc, g) in pre {
                if let Some((a, _)) = w.probes.get(*t) {
                    ractor::pg::join_scoped(w.scope(sc), w.group(g), vec![a.get_cell()]);
                    st.bump("e_pg_before_connect");
                    if sc != "-" {
                        st.bump("e_pg_before_connect_named_scope");
                    }
                }
            }
            if tcp_mode() {
                // the real connection over loopback TCP, through the relay's two sockets
                let a_is_server = w.rng.chance(1, 2);
                let moved = Arc::new(AtomicI64::new(0));
                let g = LINK_NO.fetch_add(1, Ordering::SeqCst);
                let ip = tcpq::link_ip(g);
                let (l, lp) = tcpq::listen_on(ip).ok()?;
                let (dialler, acceptor_port) = if a_is_server { (w.b.clone(), port_a?) } else { (w.a.clone(), port_b?) };
                let h = tokio::spawn(async move { ractor_cluster::client_connect(&dialler, (std::net::Ipv4Addr::from(ip), lp)).await.is_ok() });
                let from_dialler = tcpq::accept_one(&l, 20).await?;
                let mut guard = 0;
                while !h.is_finished() {
                    schedule(&w.ctl, &mut w.rng, 5, st).await;
                    guard += 1;
                    if guard > 2000 {
                        return None;
                    }
                }
                if !h.await.unwrap_or(false) {
                    return None;
                }
                let to_acceptor = tcpq::dial_from(ip, acceptor_port).ok()?;
                use std::os::fd::AsRawFd;
                let fds = vec![from_dialler.as_raw_fd(), to_acceptor.as_raw_fd()];
                let (dr, dw) = from_dialler.into_split();
                let (cr, cw) = to_acceptor.into_split();
                // direction 0 is A->B
                let (d_dir, c_dir) = if a_is_server { (1, 0) } else { (0, 1) };
                tokio::spawn(pump(dr, cw, fds.clone(), w.rng.fork(), w.budgets[d_dir].clone(), w.kill.clone(), w.kill.subscribe(), moved.clone(), (w.holds[d_dir].clone(), w.gate.subscribe())));
                tokio::spawn(pump(cr, dw, fds, w.rng.fork(), w.budgets[c_dir].clone(), w.kill.clone(), w.kill.subscribe(), moved, (w.holds[c_dir].clone(), w.gate.subscribe())));
                st.bump("tcp_links");
            } else {
            // the real connection, through the relay
            let (a_sess, a_relay) = tokio::io::duplex(64 * 1024);
            let (b_relay, b_sess) = tokio::io::duplex(64 * 1024);
            let (ar, aw) = tokio::io::split(a_relay);
            let (br, bw) = tokio::io::split(b_relay);
            let moved = Arc::new(AtomicI64::new(0));
            let a_is_server = w.rng.chance(1, 2);
            // `hold` = the direction (0: A->B, 1: B->A) that stands still after the authentication
            // frames of its sender (a client sends 2: Name, Reply+Challenge; a server sends 3:
            // Status, Challenge, Ack), i.e. before that node's Spawn / PgJoin / Ready
            if let Some(d) = hold {
                let sender_is_server = if d == 0 { a_is_server } else { !a_is_server };
                w.holds[d].store(if sender_is_server { 3 } else { 2 }, Ordering::SeqCst);
            }
            tokio::spawn(pump(ar, bw, vec![], w.rng.fork(), w.budgets[0].clone(), w.kill.clone(), w.kill.subscribe(), moved.clone(), (w.holds[0].clone(), w.gate.subscribe())));
            tokio::spawn(pump(br, aw, vec![], w.rng.fork(), w.budgets[1].clone(), w.kill.clone(), w.kill.subscribe(), moved, (w.holds[1].clone(), w.gate.subscribe())));
            w.a.cast(NodeServerMessage::ConnectionOpenedExternal {
                stream: Box::new(Duplex { stream: a_sess, label: "link".into(), fault: w.faults[0].clone() }),
                is_server: a_is_server,
            })
            .ok()?;
            w.b.cast(NodeServerMessage::ConnectionOpenedExternal {
                stream: Box::new(Duplex { stream: b_sess, label: "link".into(), fault: w.faults[1].clone() }),
                is_server: !a_is_server,
            })
            .ok()?;
            }
            let quiet = schedule(&w.ctl, &mut w.rng, 400_000, st).await;
            for _ in before..nprobes {
                w.spawn_probe(st).await;
            }
            let quiet2 = schedule(&w.ctl, &mut w.rng, 400_000, st).await;
            // session ids of the live link on each node
            for (i, node) in [w.a.clone(), w.b.clone()].into_iter().enumerate() {
                let r = drive(&w.ctl, &mut w.rng, st, async move { ractor::call_t!(node, NodeServerMessage::GetSessions, 60_000) }).await;
                if let Some(Ok(m)) = r {
                    for s in m.values() {
                        if s.peer_addr == "link" || (tcp_mode() && tcpq::link_of(&s.peer_addr).is_some()) {
                            w.nid[i] = s.node_id;
                        }
                    }
                }
            }
            // which controlled task is the link's NodeSession on each node? At rest no task is
            // runnable; a message to the session wakes exactly its task.
            HELD_TASKS.lock().unwrap().clear();
            if hold.is_none() && schedule(&w.ctl, &mut w.rng, 400_000, st).await {
                for (i, node) in [w.a.clone(), w.b.clone()].into_iter().enumerate() {
                    let r = drive(&w.ctl, &mut w.rng, st, async move { ractor::call_t!(node, NodeServerMessage::GetSessions, 60_000) }).await;
                    let Some(Ok(m)) = r else { continue };
                    let Some(s) = m.into_values().find(|s| s.peer_addr == "link") else { continue };
                    if !schedule(&w.ctl, &mut w.rng, 400_000, st).await {
                        continue;
                    }
                    let (tx, rx) = ractor::concurrency::oneshot::<bool>();
                    if s.actor.cast(ractor_cluster::NodeSessionMessage::GetReadyState(tx.into())).is_err() {
                        continue;
                    }
                    let woken: Vec<usize> = w.ctl.tasks().iter().filter(|t| t.runnable()).map(|t| t.id).collect();
                    if let [id] = woken.as_slice() {
                        w.sess_task[i] = Some(*id);
                        st.bump("e_session_task_identified");
                    } else {
                        st.bump("e_session_task_ambiguous");
                    }
                    schedule(&w.ctl, &mut w.rng, 400_000, st).await;
                    drop(rx);
                }
            }
            let mut obs = format!("ready a={} b={}{}", w.nid[0] as i64, w.nid[1] as i64, if quiet && quiet2 { "" } else { " busy" });
            if let Some(d) = hold {
                // which node has completed the initial exchange (received the peer's Ready)?
                let mut flags = vec![];
                for node in [w.a.clone(), w.b.clone()] {
                    let r = drive(&w.ctl, &mut w.rng, st, async move {
                        let m = ractor::call_t!(node, NodeServerMessage::GetSessions, 60_000).ok()?;
                        let s = m.into_values().find(|s| s.peer_addr == "link" || (tcp_mode() && tcpq::link_of(&s.peer_addr).is_some()))?;
                        ractor::call_t!(s.actor, ractor_cluster::NodeSessionMessage::GetReadyState, 60_000).ok()
                    })
                    .await;
                    flags.push(match r {
                        Some(Some(true)) => "ready",
                        Some(Some(false)) => "syncing",
                        _ => "?",
                    });
                }
                obs = format!("{obs} held={} a={} b={}", if d == 0 { "a" } else { "b" }, flags[0], flags[1]);
            }
            Some((w, obs))
        }

        /// the proxy for probe `t` that lives on node `dir` (0 = A, 1 = B)
        fn proxy(&mut self, dir: usize, t: usize) -> Option<ActorCell> {
            let (actor, _) = self.probes.get(t)?;
            let pid = actor.get_id().pid();
            let want = ActorId::Remote { node_id: self.nid[dir], pid };
            let g = self.group(&format!("p{t}"));
            if let Some(c) = ractor::pg::get_members(&g).into_iter().find(|c| c.get_id() == want) {
                self.proxies.insert((dir, t), c.clone());
                return Some(c);
            }
            self.proxies.get(&(dir, t)).cloned()
        }

        fn dir(d: &str) -> usize {
            if d == "a" { 0 } else { 1 }
        }

        async fn exec(&mut self, op: &str, st: &mut Stats) -> String {
            let w: Vec<&str> = op.split_whitespace().collect();
            match w.as_slice() {
                ["cast", d, t, sender, seq] => {
                    st.bump("e_cast");
                    let (t, sender, seq): (usize, u64, u64) = (t.parse().unwrap(), sender.parse().unwrap(), seq.parse().unwrap());
                    match self.proxy(Self::dir(d), t) {
                        None => "noproxy".into(),
                        Some(c) => match ActorRef::<ProbeMsg>::from(c).cast(ProbeMsg::Cast(sender, seq)) {
                            Ok(()) => "ok".into(),
                            Err(_) => "err".into(),
                        },
                    }
                }
                ["advance", ms] => {
                    st.bump("e_advance");
                    if ms.parse::<u64>().unwrap_or(0) >= 5000 {
                        st.bump("e_advance_past_ping_period");
                    }
                    tokio::time::advance(std::time::Duration::from_millis(ms.parse().unwrap())).await;
                    for _ in 0..4 {
                        tokio::task::yield_now().await;
                    }
                    "ok".into()
                }
                ["holdt", d, t, id, req, ms] => {
                    st.bump("e_holdt");
                    let (t, id, req, ms): (usize, u64, u64, u64) =
                        (t.parse().unwrap(), id.parse().unwrap(), req.parse().unwrap(), ms.parse().unwrap());
                    match self.proxy(Self::dir(d), t) {
                        None => "noproxy".into(),
                        Some(c) => {
                            let r = ActorRef::<ProbeMsg>::from(c);
                            let h = tokio::spawn(async move {
                                match r.call(|tx| ProbeMsg::Hold(req, tx), Some(std::time::Duration::from_millis(ms))).await {
                                    Ok(CallResult::Success(v)) => format!("ok:{v}"),
                                    Ok(CallResult::Timeout) => "timeout".to_string(),
                                    Ok(CallResult::SenderError) => "dropped".to_string(),
                                    Err(_) => "senderr".to_string(),
                                }
                            });
                            self.callers.insert(id, h);
                            for _ in 0..4 {
                                tokio::task::yield_now().await;
                            }
                            "ok".into()
                        }
                    }
                }
                [kind @ ("call" | "hold"), d, t, id, req] => {
                    st.bump(if *kind == "call" { "e_call" } else { "e_hold" });
                    let (t, id, req): (usize, u64, u64) = (t.parse().unwrap(), id.parse().unwrap(), req.parse().unwrap());
                    match self.proxy(Self::dir(d), t) {
                        None => "noproxy".into(),
                        Some(c) => {
                            let r = ActorRef::<ProbeMsg>::from(c);
                            let hold = *kind == "hold";
                            let h = tokio::spawn(async move {
                                let res = if hold {
                                    r.call(|tx| ProbeMsg::Hold(req, tx), None).await
                                } else {
                                    r.call(|tx| ProbeMsg::Call(req, tx), None).await
                                };
                                match res {
                                    Ok(CallResult::Success(v)) => format!("ok:{v}"),
                                    Ok(CallResult::Timeout) => "timeout".to_string(),
                                    Ok(CallResult::SenderError) => "dropped".to_string(),
                                    Err(_) => "senderr".to_string(),
                                }
                            });
                            self.callers.insert(id, h);
                            // let the caller task run up to its await point: the call is now in the proxy's mailbox
                            for _ in 0..4 {
                                tokio::task::yield_now().await;
                            }
                            "ok".into()
                        }
                    }
                }
                ["abandon", id] => {
                    st.bump("e_abandon");
                    let id: u64 = id.parse().unwrap();
                    if let Some(h) = self.callers.get(&id) {
                        if !h.is_finished() {
                            h.abort();
                            self.aborted.push(id);
                        }
                    }
                    for _ in 0..4 {
                        tokio::task::yield_now().await;
                    }
                    "ok".into()
                }
                ["sched", n] => {
                    schedule(&self.ctl, &mut self.rng, n.parse().unwrap(), st).await;
                    "ok".into()
                }
                ["settle"] => {
                    st.bump("e_settle");
                    let quiet = schedule(&self.ctl, &mut self.rng, 400_000, st).await;
                    // remember every proxy that exists now, so that it can still be observed
                    // (status, failing sends) after it has left pg
                    for t in 0..self.probes.len() {
                        for d in 0..2 {
                            let _ = self.proxy(d, t);
                        }
                    }
                    if quiet { "quiet".into() } else { "busy".into() }
                }
                ["recv", t] => {
                    let t: usize = t.parse().unwrap();
                    match self.probes.get(t) {
                        None => "noprobe".into(),
                        Some((_, log)) => {
                            let l = log.lock().unwrap();
                            if l.is_empty() { "-".into() } else { l.join(",") }
                        }
                    }
                }
                ["result", id] => {
                    let id: u64 = id.parse().unwrap();
                    for _ in 0..4 {
                        tokio::task::yield_now().await;
                    }
                    if self.aborted.contains(&id) {
                        return "aborted".into();
                    }
                    match self.callers.get_mut(&id) {
                        None => "nocall".into(),
                        Some(h) if !h.is_finished() => "pending".into(),
                        Some(h) => match h.await {
                            Ok(s) => {
                                // keep the outcome for later `result` ops
                                let s2 = s.clone();
                                self.callers.insert(id, tokio::spawn(async move { s2 }));
                                for _ in 0..2 {
                                    tokio::task::yield_now().await;
                                }
                                s
                            }
                            Err(_) => "aborted".into(),
                        },
                    }
                }
                [kind @ ("join" | "leave"), t, g, rest @ ..] if rest.len() <= 1 => {
                    st.bump("e_pg");
                    let sc = rest.first().copied().unwrap_or("-");
                    if sc != "-" {
                        st.bump("e_pg_named_scope");
                    }
                    let t: usize = t.parse().unwrap();
                    match self.probes.get(t) {
                        None => "noprobe".into(),
                        Some((a, _)) => {
                            // the default scope goes through the unscoped API, as an application would
                            match (*kind == "join", sc == "-") {
                                (true, true) => ractor::pg::join(self.group(g), vec![a.get_cell()]),
                                (true, false) => ractor::pg::join_scoped(self.scope(sc), self.group(g), vec![a.get_cell()]),
                                (false, true) => ractor::pg::leave(self.group(g), vec![a.get_cell()]),
                                (false, false) => ractor::pg::leave_scoped(self.scope(sc), self.group(g), vec![a.get_cell()]),
                            }
                            "ok".into()
                        }
                    }
                }
                ["members", g, rest @ ..] if rest.len() <= 1 => {
                    let sc = rest.first().copied().unwrap_or("-");
                    let cells = if sc == "-" {
                        ractor::pg::get_members(&self.group(g))
                    } else {
                        ractor::pg::get_scoped_members(&self.scope(sc), &self.group(g))
                    };
                    let mut v: Vec<String> = Vec::new();
                    for c in cells {
                        let t = self.probes.iter().position(|(a, _)| a.get_id().pid() == c.get_id().pid());
                        let t = t.map(|t| t.to_string()).unwrap_or("?".into());
                        v.push(match c.get_id() {
                            ActorId::Local(_) => format!("L{t}"),
                            ActorId::Remote { node_id, .. } if node_id == self.nid[0] => format!("Ra{t}"),
                            ActorId::Remote { node_id, .. } if node_id == self.nid[1] => format!("Rb{t}"),
                            ActorId::Remote { node_id, .. } => format!("R{node_id}?{t}"),
                        });
                    }
                    v.sort();
                    if v.is_empty() { "-".into() } else { v.join(",") }
                }
                ["spawn"] => {
                    st.bump("e_spawn");
                    if self.spawn_probe(st).await { "ok".into() } else { "failed".into() }
                }
                ["stop", t] => {
                    st.bump("e_stop");
                    let t: usize = t.parse().unwrap();
                    match self.probes.get(t) {
                        None => "noprobe".into(),
                        Some((a, _)) => {
                            a.stop(None);
                            "ok".into()
                        }
                    }
                }
                ["status", d, t] => {
                    let t: usize = t.parse().unwrap();
                    match self.proxy(Self::dir(d), t) {
                        None => "none".into(),
                        Some(c) => format!("{:?}", c.get_status()),
                    }
                }
                ["cutafter", d, n] => {
                    st.bump("e_cut");
                    self.budgets[Self::dir(d)].store(n.parse().unwrap(), Ordering::SeqCst);
                    "ok".into()
                }
                ["stopproxy", d, t] => {
                    // somebody stops the remote REFERENCE (not the original): `ActorCell::stop` on a pg member
                    st.bump("e_stopproxy");
                    let t: usize = t.parse().unwrap();
                    match self.proxy(Self::dir(d), t) {
                        None => "none".into(),
                        Some(c) => {
                            c.stop(None);
                            "ok".into()
                        }
                    }
                }
                ["releaseheld", t] => {
                    // the original answers every request it holds (sent locally, not through a proxy)
                    st.bump("e_releaseheld");
                    let t: usize = t.parse().unwrap();
                    match self.probes.get(t) {
                        None => "noprobe".into(),
                        Some((a, _)) => match a.cast(ProbeMsg::Release) {
                            Ok(()) => "ok".into(),
                            Err(_) => "err".into(),
                        },
                    }
                }
                ["fault", d, kind] => {
                    st.bump("e_fault");
                    st.bump(&format!("e_fault_{kind}"));
                    let m = match *kind { "read" => 1, "write" => 2, "flush" => 3, _ => 0 };
                    self.faults[Self::dir(d)].set(m);
                    for _ in 0..4 {
                        tokio::task::yield_now().await;
                    }
                    "ok".into()
                }
                ["faultseen", d] => {
                    // did the transport get to report the fault to the session?
                    let n = self.faults[Self::dir(d)].reported.load(Ordering::SeqCst);
                    if n > 0 { "reported".into() } else { "unreported".into() }
                }
                ["holdsess", d] => {
                    // node `d`'s session is not polled until `unholdsess`: what is sent to it piles up
                    st.bump("e_holdsess");
                    match self.sess_task[Self::dir(d)] {
                        Some(id) => {
                            HELD_TASKS.lock().unwrap().push(id);
                            "ok".into()
                        }
                        None => "unknown".into(),
                    }
                }
                ["unholdsess", _] => {
                    HELD_TASKS.lock().unwrap().clear();
                    "ok".into()
                }
                ["release"] => {
                    st.bump("e_release");
                    let _ = self.gate.send(true);
                    for _ in 0..4 {
                        tokio::task::yield_now().await;
                    }
                    "ok".into()
                }
                ["cut"] => {
                    st.bump("e_cut");
                    self.budgets[0].store(0, Ordering::SeqCst);
                    self.budgets[1].store(0, Ordering::SeqCst);
                    let _ = self.kill.send(true);
                    for _ in 0..4 {
                        tokio::task::yield_now().await;
                    }
                    "ok".into()
                }
                _ => "bad-op".into(),
            }
        }

        async fn finish(mut self, st: &mut Stats) {
            HELD_TASKS.lock().unwrap().clear();
            for (_, h) in self.callers.drain() {
                h.abort();
            }
            let _ = self.kill.send(true);
            for (a, _) in &self.probes {
                a.stop(None);
            }
            self.a.stop(None);
            self.b.stop(None);
            schedule(&self.ctl, &mut self.rng, 400_000, st).await;
            ractor::verif::uninstall();
            for h in self.handles.drain(..) {
                h.abort();
            }
        }
    }

    pub async fn run_case(ops: &[String], log: &mut Log, st: &mut Stats) {
        let Some(first) = ops.first() else { return };
        let w: Vec<&str> = first.split_whitespace().collect();
        let (case, nprobes, hold): (u64, usize, Option<usize>) = match w.as_slice() {
            ["e2e", c, n] => (c.parse().unwrap_or(0), n.parse().unwrap_or(1), None),
            ["e2e", c, n, h] | ["e2e", c, n, h, _] => {
                (c.parse().unwrap_or(0), n.parse().unwrap_or(1), match *h { "a" => Some(0), "b" => Some(1), _ => None })
            }
            _ => return,
        };
        let mut pre: Vec<(usize, String, String)> = vec![];
        if let ["e2e", _, _, _, p] = w.as_slice() {
            for e in p.split(',') {
                let f: Vec<&str> = e.split(':').collect();
                if let [t, sc, g] = f.as_slice() {
                    if let Ok(t) = t.parse::<usize>() {
                        pre.push((t, sc.to_string(), g.to_string()));
                    }
                }
            }
            st.bump("e2e_cases_with_groups_before_connect");
        }
        st.bump("e2e_cases");
        if hold.is_some() {
            st.bump("e2e_cases_with_held_exchange");
        }
        let Some((mut world, obs)) = World::new(case, nprobes, hold, &pre, 0xC20, st).await else {
            log.rec(first, "setup-failed");
            ractor::verif::uninstall();
            return;
        };
        log.rec(first, obs);
        for op in &ops[1..] {
            let obs = world.exec(op, st).await;
            log.rec(op, obs);
        }
        world.finish(st).await;
    }

    /// An original stops while a frame for it and its exit notice are BOTH waiting at the peer-facing
    /// session (the session was busy). The actor loop's select is biased, so on this single-threaded
    /// runtime the session takes the exit notice first and then rejects the frame; the other order
    /// (frame already dequeued when the actor goes away) needs two threads and is driven handler by
    /// handler in the `adv` ops. Whatever the order, the peer must be told, the reference must stop,
    /// leave its groups, and refuse sends.
    fn gen_race_case(rng: &mut Rng, c: u64) -> Vec<String> {
        let n = 3;
        let mut ops = vec![format!("e2e {c} {n}"), "settle".to_string()];
        for t in 0..n {
            let (d, x) = if rng.chance(1, 2) { ("a", "b") } else { ("b", "a") };
            if rng.chance(1, 2) {
                ops.push(format!("join {t} g1"));
                ops.push("settle".into());
            }
            ops.push(format!("holdsess {x}"));
            ops.push(format!("cast {d} {t} 0 0"));
            ops.push("settle".into());
            ops.push(format!("stop {t}"));
            ops.push("settle".into());
            ops.push(format!("unholdsess {x}"));
            ops.push("settle".into());
            ops.push(format!("status a {t}"));
            ops.push(format!("status b {t}"));
            ops.push(format!("cast {d} {t} 0 1"));
            ops.push(format!("members p{t}"));
            ops.push("members g1".into());
        }
        ops
    }

    pub fn gen_case(rng: &mut Rng, c: u64) -> Vec<String> {
        if rng.chance(1, 6) {
            return gen_race_case(rng, c);
        }
        let nprobes = rng.range(1, 3);
        // a third of the cases: one direction of the relay stands still right after the
        // authentication frames, and actors exit / join / leave / appear in that window
        let hold = if rng.chance(1, 3) { Some(*rng.pick(&["a", "b"])) } else { None };
        // real TCP: a relay direction that stands still leaves bytes unread in a socket, which is exactly
        // what the quiescence test waits out - no held exchange there; and a real socket cannot be told
        // to fail on one end only (the link dies by FIN / RST from the relay instead: cut / cutafter)
        let hold = if tcp_mode() { None } else { hold };
        // the scopes of this case: the default one (`-`) and up to two named ones; the same group
        // names are used in every scope, so that a scope mix-up shows
        let scopes: Vec<&str> = match rng.below(3) {
            0 => vec!["-"],
            1 => vec!["-", "s1"],
            _ => vec!["-", "s1", "s2"],
        };
        let groups = ["g1", "g2"];
        // memberships that exist before the nodes connect (they travel in the initial scan)
        let mut pre: Vec<String> = vec![];
        if rng.chance(1, 2) {
            for _ in 0..rng.range(1, 5) {
                let e = format!("{}:{}:{}", rng.below(nprobes), *rng.pick(&scopes[..]), *rng.pick(&groups[..]));
                if !pre.contains(&e) {
                    pre.push(e);
                }
            }
        }
        let mut ops = vec![match (hold, pre.is_empty()) {
            (Some(h), true) => format!("e2e {c} {nprobes} {h}"),
            (None, true) => format!("e2e {c} {nprobes}"),
            (h, false) => format!("e2e {c} {nprobes} {} {}", h.unwrap_or("-"), pre.join(",")),
        }];
        // `<g>` in the default scope, `<g> <s>` in a named one
        let pg = |g: &str, s: &str| if s == "-" { g.to_string() } else { format!("{g} {s}") };
        let pgr = |rng: &mut Rng| -> String {
            let g: &str = *rng.pick(&groups[..]);
            let s: &str = *rng.pick(&scopes[..]);
            pg(g, s)
        };
        let all_members = |ops: &mut Vec<String>| {
            for s in &scopes {
                for g in groups {
                    ops.push(format!("members {}", pg(g, s)));
                }
            }
        };
        let mut live: Vec<u64> = (0..nprobes).collect();
        let mut all = nprobes;
        if hold.is_none() && !pre.is_empty() {
            // the moment the session is ready
            ops.push("settle".into());
            all_members(&mut ops);
        }
        if hold.is_some() {
            let observe = |ops: &mut Vec<String>, all: u64| {
                ops.push("settle".into());
                all_members(ops);
                for t in 0..all {
                    ops.push(format!("members p{t}"));
                    ops.push(format!("status a {t}"));
                    ops.push(format!("status b {t}"));
                }
            };
            observe(&mut ops, all);
            for _ in 0..rng.range(1, 4) {
                match rng.below(10) {
                    0..=2 if !live.is_empty() => ops.push(format!("join {} {}", rng.pick(&live), pgr(rng))),
                    3 if !live.is_empty() => ops.push(format!("leave {} {}", rng.pick(&live), pgr(rng))),
                    4..=6 if !live.is_empty() => {
                        let i = rng.below(live.len() as u64) as usize;
                        ops.push(format!("stop {}", live.remove(i)));
                    }
                    _ => {
                        ops.push("spawn".into());
                        live.push(all);
                        all += 1;
                    }
                }
                if rng.chance(2, 3) {
                    observe(&mut ops, all);
                }
            }
            ops.push("settle".into());
            ops.push("release".into());
            observe(&mut ops, all);
        }
        let mut seqs: HashMap<(u64, u64, u64), u64> = HashMap::new(); // (dir, target, sender) -> next seq
        let mut ncall = 0u64;
        let mut open_calls: Vec<u64> = vec![];
        let dirs = ["a", "b"];
        let rounds = rng.range(2, 6);
        let mut cut = false;
        let mut clock = 0u64; // total advance stays below the ping period, so no ping traffic
        for _ in 0..rounds {
            // a burst of concurrent traffic from several senders through both proxies
            let burst = rng.range(1, 14);
            for _ in 0..burst {
                let d = rng.below(2);
                let t = if rng.chance(5, 6) && !live.is_empty() { *rng.pick(&live) } else { rng.below(all) };
                let k = rng.below(100);
                if k < 55 {
                    // sender ids tell the direction: 0..2 use A's proxy, 10..12 use B's
                    let sender = d * 10 + rng.below(3);
                    let seq = seqs.entry((d, t, sender)).or_insert(0);
                    ops.push(format!("cast {} {t} {sender} {}", dirs[d as usize], *seq));
                    *seq += 1;
                } else if k < 85 {
                    ops.push(format!("call {} {t} {ncall} {}", dirs[d as usize], 100 + ncall));
                    open_calls.push(ncall);
                    ncall += 1;
                } else if k < 90 {
                    ops.push(format!("hold {} {t} {ncall} {}", dirs[d as usize], 100 + ncall));
                    open_calls.push(ncall);
                    ncall += 1;
                } else if k < 94 {
                    let ms = *rng.pick(&[20u64, 50, 120]);
                    if tcp_mode() {
                        // real TCP: the (virtual) clock is also the idle detector of the quiescence test
                        // and drifts by a few ms per I/O hop - caller timeouts of 20..120 ms are not exact
                        ops.push(format!("hold {} {t} {ncall} {}", dirs[d as usize], 100 + ncall));
                    } else {
                        ops.push(format!("holdt {} {t} {ncall} {} {ms}", dirs[d as usize], 100 + ncall));
                    }
                    open_calls.push(ncall);
                    ncall += 1;
                } else if k < 96 && clock < 800 {
                    let ms = *rng.pick(&[10u64, 30, 60, 100]);
                    clock += ms;
                    ops.push(format!("advance {ms}"));
                } else if !open_calls.is_empty() {
                    ops.push(format!("abandon {}", rng.pick(&open_calls)));
                }
                if rng.chance(1, 5) {
                    ops.push(format!("sched {}", rng.range(1, 60)));
                }
            }
            if rng.chance(1, 4) && clock < 800 {
                let ms = *rng.pick(&[30u64, 60, 130]);
                clock += ms;
                ops.push(format!("advance {ms}"));
            }
            // a quiet period longer than the ping period: both nodes ping, both answer with a pong,
            // nothing else may change
            if !cut && rng.chance(1, 12) {
                ops.push("settle".into());
                ops.push("advance 6000".into());
                ops.push("settle".into());
            }
            // sometimes a lifecycle event races with the traffic, sometimes it comes at rest
            if rng.chance(1, 2) {
                ops.push("settle".into());
            }
            match rng.below(10) {
                0 | 1 if !live.is_empty() => {
                    let t = *rng.pick(&live);
                    ops.push(format!("join {t} {}", pgr(rng)));
                }
                2 if !live.is_empty() => {
                    let t = *rng.pick(&live);
                    ops.push(format!("leave {t} {}", pgr(rng)));
                }
                3 if !live.is_empty() => {
                    let i = rng.below(live.len() as u64) as usize;
                    ops.push(format!("stop {}", live.remove(i)));
                }
                4 => {
                    ops.push("spawn".into());
                    live.push(all);
                    all += 1;
                }
                6 if !cut && !tcp_mode() => {
                    // the transport of one node reports an I/O error: on its next read, or (half-open
                    // connection, reads stay silent) on the next write_all / flush of its writer task -
                    // a new probe makes both nodes send a Spawn frame
                    let kind = *rng.pick(&["read", "write", "flush", "flush"]);
                    if rng.chance(2, 3) {
                        ops.push("settle".into());
                    }
                    let d = *rng.pick(&dirs);
                    ops.push(format!("fault {d} {kind}"));
                    if kind != "read" {
                        if rng.chance(1, 2) {
                            ops.push("spawn".into());
                            live.push(all);
                            all += 1;
                        } else {
                            // nobody sends anything: the ping loop (period 1-5 s) is what meets the fault
                            ops.push("advance 6000".into());
                        }
                    }
                    ops.push("settle".into());
                    ops.push(format!("faultseen {d}"));
                    // every remote reference must refuse sends now
                    for t in 0..all {
                        for d in dirs {
                            let sender = if d == "a" { 0 } else { 10 };
                            let seq = seqs.entry((sender / 10, t, sender)).or_insert(0);
                            ops.push(format!("cast {d} {t} {sender} {}", *seq));
                            *seq += 1;
                        }
                    }
                    cut = true;
                }
                7 if !cut && !live.is_empty() && rng.chance(1, 2) => {
                    // somebody stops one remote REFERENCE (not its original)
                    if rng.chance(2, 3) {
                        ops.push("settle".into());
                    }
                    ops.push(format!("stopproxy {} {}", rng.pick(&dirs), rng.pick(&live)));
                    cut = true;
                }
                5 if !cut => {
                    if rng.chance(1, 2) {
                        ops.push("cut".into());
                    } else {
                        ops.push(format!("cutafter {} {}", rng.pick(&dirs), rng.below(300)));
                    }
                    cut = true;
                }
                _ => {}
            }
            ops.push("settle".into());
            for t in 0..all {
                ops.push(format!("recv {t}"));
            }
            for id in 0..ncall {
                ops.push(format!("result {id}"));
            }
            all_members(&mut ops);
            for t in 0..all {
                ops.push(format!("members p{t}"));
                ops.push(format!("status a {t}"));
                ops.push(format!("status b {t}"));
            }
        }
        ops
    }
}

fn be(v: u64) -> Vec<u8> {
    v.to_be_bytes().to_vec()
}
fn un(v: &[u8]) -> u64 {
    let mut b = [0u8; 8];
    let n = v.len().min(8);
    b[8 - n..].copy_from_slice(&v[v.len() - n..]);
    u64::from_be_bytes(b)
}

async fn settle() {
    tokio::time::sleep(std::time::Duration::from_millis(1)).await;
}

struct PureWorld {
    probe: Option<ProxyProbe>,
    /// wave 2: the fields of the node messages built by the real `handle_serialized`
    fprobe: Option<ractor_cluster::remote_actor_verif_fields::FieldProbe>,
    ports: Vec<u64>,
    /// a real NodeSession + state driven handler by handler (allow-list / Spawn / Terminate announcements)
    adv: Option<ractor_cluster::node::node_session::verif_advert::AdvertProbe>,
    /// actors that stopped and whose Terminate lifecycle event the session has not handled yet
    adv_pend: Vec<usize>,
    adv_n: usize,
}

impl PureWorld {
    async fn snap(&mut self) -> String {
        settle().await;
        let p = self.probe.as_mut().unwrap();
        let (tag, pending, cursor) = p.snapshot();
        let frames: Vec<String> = p
            .take_frames()
            .iter()
            .map(|(is_call, _to, tag, what)| if *is_call { format!("c:{tag}:{}", un(what)) } else { format!("k:{}", un(what)) })
            .collect();
        let mut got = Vec::new();
        for port in self.ports.clone() {
            if let Some(d) = p.received(port) {
                got.push(format!("{port}:{}", un(&d)));
            }
        }
        let l = |v: Vec<String>| if v.is_empty() { "-".to_string() } else { v.join(",") };
        format!(
            "tag={tag} pending={} cursor={} frames={} got={}",
            l(pending.iter().map(|t| t.to_string()).collect()),
            cursor.map(|c| c.to_string()).unwrap_or("-".into()),
            l(frames),
            l(got)
        )
    }

    async fn exec(&mut self, op: &str, st: &mut Stats) -> String {
        let w: Vec<&str> = op.split_whitespace().collect();
        match w.as_slice() {
            ["adv", "new"] => {
                if let Some(mut p) = self.adv.take() {
                    p.shutdown();
                }
                self.adv = Some(ractor_cluster::node::node_session::verif_advert::AdvertProbe::new().await);
                self.adv_pend.clear();
                self.adv_n = 0;
                st.bump("adv_cases");
                "ok".into()
            }
            ["adv", rest @ ..] => {
                let Some(p) = self.adv.as_mut() else { return "no-adv".into() };
                match rest {
                    ["spawn"] => {
                        st.bump("adv_spawn");
                        let i = p.spawn_actor().await;
                        self.adv_n = i + 1;
                        p.lifecycle_evt(i, true).await;
                    }
                    ["stop", i] => {
                        let i: usize = i.parse().unwrap();
                        if i < self.adv_n && !self.adv_pend.contains(&i) && p.pid(i).is_some_and(|pid| ractor::registry::where_is_pid(ractor::ActorId::Local(pid)).is_some()) {
                            st.bump("adv_stop");
                            p.stop_actor(i).await;
                            self.adv_pend.push(i);
                        }
                    }
                    ["evt", i] => {
                        let i: usize = i.parse().unwrap();
                        if let Some(k) = self.adv_pend.iter().position(|x| *x == i) {
                            st.bump("adv_terminate_evt");
                            self.adv_pend.remove(k);
                            p.lifecycle_evt(i, false).await;
                        }
                    }
                    ["frame", i, kind] => {
                        let i: usize = i.parse().unwrap();
                        st.bump("adv_frame");
                        if self.adv_pend.contains(&i) {
                            // the seeded window: the actor left the registry, its event is not handled yet
                            st.bump("adv_frame_between_exit_and_event");
                        }
                        let pid = p.pid(i).unwrap_or(4_000_000_000 + i as u64);
                        p.inbound(pid, *kind == "call");
                    }
                    ["rest"] => {}
                    _ => return "bad-op".into(),
                }
                settle().await;
                let wire: Vec<String> = {
                    let pids: Vec<Option<u64>> = (0..self.adv_n).map(|i| p.pid(i)).collect();
                    let idx = |pid: u64| pids.iter().position(|q| *q == Some(pid)).map(|i| i.to_string()).unwrap_or(format!("?{pid}"));
                    p.take_wire().await.into_iter().map(|(sp, pid)| format!("{}{}", if sp { "S" } else { "T" }, idx(pid))).collect()
                };
                let pids: Vec<Option<u64>> = (0..self.adv_n).map(|i| p.pid(i)).collect();
                let adv: Vec<String> = p
                    .advertised()
                    .into_iter()
                    .filter_map(|pid| pids.iter().position(|q| *q == Some(pid)))
                    .map(|i| i.to_string())
                    .collect();
                let recv: Vec<String> = (0..self.adv_n).map(|i| p.received(i).to_string()).collect();
                let l = |v: Vec<String>| if v.is_empty() { "-".to_string() } else { v.join(",") };
                format!("wire={} adv={} recv={}", l(wire), l(adv), l(recv))
            }
            ["proxy"] => {
                if let Some(p) = self.probe.take() {
                    p.shutdown();
                }
                self.probe = Some(ProxyProbe::new().await);
                if let Some(fp) = self.fprobe.take() {
                    fp.shutdown();
                }
                self.ports.clear();
                st.bump("proxy");
                "ok".into()
            }
            // wave 2: `fcast <variant> <args> <meta|->` / `fcall <variant> <args> <meta|-> <timeout ms|->`
            ["fcast", variant, args, meta] | ["fcall", variant, args, meta, _] => {
                st.bump("p_fields");
                if self.fprobe.is_none() {
                    self.fprobe = Some(ractor_cluster::remote_actor_verif_fields::FieldProbe::new().await);
                }
                let fp = self.fprobe.as_mut().unwrap();
                let md = if *meta == "-" { None } else { Some(be(meta.parse().unwrap())) };
                if w[0] == "fcast" {
                    fp.cast(format!("V{variant}"), be(args.parse().unwrap()), md).await;
                } else {
                    let tmo = if w[4] == "-" { None } else { Some(w[4].parse().unwrap()) };
                    fp.call(format!("V{variant}"), be(args.parse().unwrap()), md, tmo).await;
                }
                settle().await;
                let pid = fp.pid();
                let frames: Vec<String> = fp
                    .take()
                    .iter()
                    .map(|(is_call, to, tag, what, variant, metadata, tmo)| {
                        format!(
                            "call={} to={} tag={} what={} variant={} meta={} tmo={}",
                            *is_call as u8,
                            (*to == pid) as u8,
                            tag,
                            un(what),
                            variant,
                            metadata.as_ref().map(|m| un(m).to_string()).unwrap_or("-".into()),
                            tmo.map(|t| t.to_string()).unwrap_or("-".into())
                        )
                    })
                    .collect();
                if frames.is_empty() { "none".into() } else { frames.join(";") }
            }
            _ if self.probe.is_none() => "no-proxy".into(),
            ["call", port, payload] => {
                st.bump("p_call");
                let port: u64 = port.parse().unwrap();
                self.ports.push(port);
                self.probe.as_mut().unwrap().call(port, be(payload.parse().unwrap())).await;
                self.snap().await
            }
            ["cast", payload] => {
                st.bump("p_cast");
                self.probe.as_mut().unwrap().cast(be(payload.parse().unwrap())).await;
                self.snap().await
            }
            ["reply", tag, data] => {
                st.bump("p_reply");
                self.probe.as_mut().unwrap().reply(tag.parse().unwrap(), be(data.parse().unwrap())).await;
                self.snap().await
            }
            ["abandon", port] => {
                st.bump("p_abandon");
                self.probe.as_mut().unwrap().abandon(port.parse().unwrap());
                "ok".into()
            }
            ["killsession"] => {
                st.bump("p_killsession");
                self.probe.as_mut().unwrap().kill_session().await;
                "ok".into()
            }
            _ => "bad-op".into(),
        }
    }
}

/// The allow-list and the Spawn / Terminate announcements of a session, with inbound frames for
/// live, stopping, stopped and unknown actors at every point (in particular between an actor's
/// exit from the pid registry and the session handling its Terminate event).
fn gen_adv(rng: &mut Rng) -> Vec<String> {
    let mut ops = vec!["adv new".to_string()];
    let mut n = 0u64;
    let mut alive: Vec<u64> = vec![];
    let mut pend: Vec<u64> = vec![];
    let frame = |rng: &mut Rng, i: u64| format!("adv frame {i} {}", if rng.chance(1, 3) { "call" } else { "cast" });
    for _ in 0..rng.range(4, 30) {
        match rng.below(10) {
            0..=2 => {
                ops.push("adv spawn".into());
                alive.push(n);
                n += 1;
            }
            3..=4 if !alive.is_empty() => {
                let i = alive.remove(rng.below(alive.len() as u64) as usize);
                ops.push(format!("adv stop {i}"));
                pend.push(i);
                // most of the time something for it is still in flight
                if rng.chance(2, 3) {
                    for _ in 0..rng.range(1, 2) {
                        ops.push(frame(rng, i));
                    }
                }
            }
            5..=6 if !pend.is_empty() => {
                let i = pend.remove(rng.below(pend.len() as u64) as usize);
                ops.push(format!("adv evt {i}"));
            }
            _ => {
                let i = rng.below(n + 2);
                ops.push(frame(rng, i));
            }
        }
    }
    while let Some(i) = pend.pop() {
        ops.push(format!("adv evt {i}"));
    }
    ops.push("adv rest".into());
    ops
}

fn gen_pure(rng: &mut Rng) -> Vec<String> {
    let mut ops = vec!["proxy".to_string()];
    let n = rng.range(3, 90);
    let mut nport = 0u64;
    let mut open: Vec<u64> = Vec::new(); // ports not yet abandoned
    let mut tags = 0u64;
    // personalities: few calls / many outstanding (beyond the budget of 16) / mass abandon
    let call_w = *rng.pick(&[20u64, 45, 70]);
    let abandon_w = *rng.pick(&[5u64, 15, 30]);
    let mut killed = false;
    for _ in 0..n {
        let k = rng.below(100);
        if k < call_w {
            ops.push(format!("call {nport} {}", 1000 + nport));
            open.push(nport);
            nport += 1;
            if !killed {
                tags += 1;
            } else {
                tags += 1;
            }
        } else if k < call_w + abandon_w && !open.is_empty() {
            let i = rng.below(open.len() as u64) as usize;
            ops.push(format!("abandon {}", open.remove(i)));
            if rng.chance(1, 3) {
                // mass abandon
                while !open.is_empty() && rng.chance(2, 3) {
                    let i = rng.below(open.len() as u64) as usize;
                    ops.push(format!("abandon {}", open.remove(i)));
                }
            }
        } else if k < call_w + abandon_w + 3 {
            // wave 2: the fields of a cast / call with arbitrary variant, metadata, timeout
            let meta = if rng.chance(1, 2) { "-".to_string() } else { (1 + rng.below(1000)).to_string() };
            if rng.chance(1, 2) {
                ops.push(format!("fcast {} {} {meta}", rng.below(5), rng.below(100000)));
            } else {
                let tmo = if rng.chance(1, 3) { "-".to_string() } else { rng.below(100000).to_string() };
                ops.push(format!("fcall {} {} {meta} {tmo}", rng.below(5), rng.below(100000)));
            }
        } else if k < call_w + abandon_w + 8 {
            ops.push(format!("cast {}", rng.below(50)));
        } else if k < 98 || killed {
            // known / unknown / repeated tags
            let tag = if tags > 0 && rng.chance(5, 6) { rng.range(1, tags) } else { rng.range(tags + 1, tags + 3) };
            ops.push(format!("reply {tag} {}", 5000 + tag));
        } else {
            ops.push("killsession".to_string());
            killed = true;
        }
    }
    ops
}

async fn replay_file(path: &str, log: &mut Log, st: &mut Stats, world: &mut PureWorld) {
    let Ok(txt) = std::fs::read_to_string(path) else { return };
    let lines: Vec<String> = txt.lines().map(|l| l.trim().to_string()).filter(|l| !l.is_empty() && !l.starts_with('#')).collect();
    let mut i = 0;
    while i < lines.len() {
        if lines[i].starts_with("e2e ") {
            let mut j = i + 1;
            while j < lines.len() && !lines[j].starts_with("e2e ") && lines[j] != "proxy" && lines[j] != "adv new" {
                j += 1;
            }
            e2e::run_case(&lines[i..j], log, st).await;
            i = j;
        } else {
            let obs = world.exec(&lines[i], st).await;
            log.rec(&lines[i], obs);
            i += 1;
        }
    }
}

#[tokio::main(flavor = "current_thread", start_paused = true)]
async fn main() {
    let args = Args::parse();
    let seed = args.u64("seed", 1);
    let cases = args.u64("cases", 200);
    let e2e_cases = args.u64("e2e-cases", 20);
    let out = args.str("out", "/tmp/ports-c20");
    let mut rng = Rng::new(seed);
    let mut log = Log::create(std::path::Path::new(&out)).unwrap();
    let mut st = Stats::default();
    let mut world = PureWorld { probe: None, fprobe: None, ports: vec![], adv: None, adv_pend: vec![], adv_n: 0 };

    let tcp = args.u64("tcp", 0) == 1;
    TCP.store(tcp, std::sync::atomic::Ordering::Relaxed);
    tcpq::STRICT.store(tcp, std::sync::atomic::Ordering::Relaxed);
    for f in args.str("replay-ops", "").split(',').filter(|f| !f.is_empty()) {
        replay_file(f, &mut log, &mut st, &mut world).await;
    }
    if args.u64("only-replay", 0) != 1 {
        for _ in 0..cases {
            for op in gen_pure(&mut rng) {
                let obs = world.exec(&op, &mut st).await;
                log.rec(&op, obs);
            }
        }
        for _ in 0..cases / 4 {
            for op in gen_adv(&mut rng) {
                let obs = world.exec(&op, &mut st).await;
                log.rec(&op, obs);
            }
        }
        for c in 0..e2e_cases {
            let ops = e2e::gen_case(&mut rng, c);
            e2e::run_case(&ops, &mut log, &mut st).await;
        }
    }
    if let Some(p) = world.probe.take() {
        p.shutdown();
    }
    if tcp {
        tcpq::stats(&mut st);
    }
    if let Some(mut p) = world.adv.take() {
        p.shutdown();
    }
    st.add("lines", log.lines);
    st.write_json(&std::path::Path::new(&out).join("stats.json"));
    log.finish();
}
