import RactorModel.Extracted
import RactorModel.Lemmas.LifeC04
import RactorModel.Lemmas.LifeWorld
import RactorModel.Lemmas.LifeResidue
import RactorModel.Lemmas.LifeDelivery
import RactorModel.Lemmas.LifeC04Spec

/-!
# C04 — Failures are contained and reported to the supervisor exactly once

`Life.C04.ok me tr` (defined in `Model/Life.lean`) is acceptance of actor `me`'s trace by the
automaton `Life.C04.next true me`:

* every supervision event about `me` is handed to the actor observed as `me`'s supervisor at that
  moment (`c04.target`), and is about `me` (`c04.who`);
* at most one terminal event (`ActorTerminated | ActorFailed`), nothing after it;
* its constructor and text are what the trace explains: `ActorFailed` with the text of the `Err` /
  panic of the last failed callback (not `pre_start`); `ActorTerminated(Some(state), reason)` only
  after `post_stop` returned ok, with the reason of the accepted stop or "Drained" after a drain;
  reason "killed" only after an accepted kill, **and without state**; "actor_task_cancelled"
  only after an abort, without state;
* `ActorStarted` at most once, immediately after `post_start` returned ok (before any handler),
  before the terminal event;
* after a `pre_start` failure / cancelled start-up: no event at all, and the spawner got `Err`;
* when the task ends (`join`) a supervised actor has reported its end; the join handle completes
  normally unless the task was aborted.

## Former finding `c04.kill-state` (repaired)

On the pinned commit the clause "kill ⇒ no state" was false: a kill observed *inside the message
loop* (idle, or racing a message / supervision handler) left through `ActorLoopResult::signal`,
`processing_loop` returned `Ok(Some("killed"))` and `start()` built
`ActorTerminated(cell, Some(state), Some("killed"))`, whereas a kill observed around
`post_start` / `post_stop` yields `ActorTerminated(cell, None, Some("killed"))`. The check
rediscovered it (witness `corpus/C04/e-lts-kill-idle-state.ops`, replayed on every run); the repo
commit `fix: report no state when an actor is killed inside its message loop` makes the loop-kill
path return `Err(ActorErr::Cancelled)` like the other two, the model follows the repaired code and
the statement below is proved at full strength. On a tree without the repair the oracle clause
`c04.kill-state` fails on the witness and the check reports a VIOLATION.
-/

namespace C04
open Life

/-- **C04, all schedules, full strength.** For every actor and every sequence of operations the
actor's trace is accepted by the supervision-event automaton. -/
theorem reported_once (id : Nat) (ops : List AOp) : Life.C04.ok id (trace id ops) = true := by
  obtain ⟨s', h, _⟩ := Life.C04.run_sim id ops (Actor.init id) {} (Life.C04.inv_init id) {} (Life.C01.inv_init id) (cellOk_init id)
  simp [Life.C04.ok, trace, h, Except.isOk, Except.toBool]

/-- **The same for the composed world** (what the driver replays): in every run of `World.step`
from the empty world (one harness case: any number of actors, supervision links, effects routed
between them), the trace projection of every actor `i` satisfies the property — because the world
changes actors only through `Actor.step` (`Life.world_actor_run`). -/
theorem reported_once_world (ops : List Op) (h : ∀ op ∈ ops, op ≠ .case) (i : Nat) :
    Life.C04.ok i (projEvs i (({} : World).run ops).2) = true := by
  obtain ⟨aops, e⟩ := world_actor_run ops h i
  have := reported_once i aops
  simp only [trace, e] at this
  exact this

/-- The op sequence that exhibited the former finding: a supervised child killed while idle. -/
def witness : List AOp :=
  [.spawn (some 0) none true false true, .resume ⟨[], .ok⟩, .pollSpawn true, .poll, .resume ⟨[], .ok⟩, .poll, .kill, .poll]

/-- The invariant behind it (see `Life.C04.Core`): while the actor lives no terminal event was
emitted and the guard is armed; `ActorStarted` was emitted only past `post_start`; a pending stop
reason / drain marker / kill is known to the automaton; the automaton's supervisor is the actor's. -/
theorem invariant (id : Nat) (ops : List AOp) :
    ∃ s, accepts (Life.C04.next id) {} (trace id ops) = .ok s ∧
      Life.C04.Inv id ((Actor.init id).run ops).1 s :=
  Life.C04.run_sim id ops (Actor.init id) {} (Life.C04.inv_init id) {} (Life.C01.inv_init id) (cellOk_init id)

/-- A failed start-up (`pre_start` Err / panic, kill during start-up, refused link) emits nothing
and the actor is done: `failSpawn` produces only the spawn result. -/
theorem prestart_failure_silent (a : Actor) (r : SpawnRet) :
    (failSpawn a r).1.phase = .done ∧ ∀ p e, Ev.emit p e ∉ evs (failSpawn a r).2 := by
  refine ⟨by simp [failSpawn, Actor.dropPorts], ?_⟩
  intro p e
  simp [failSpawn, (Life.C04.cleanup_none a).1]

/-- Clause (iv) in full, for all schedules: after a spawn that failed (`pre_start` Err / panic, kill
during start-up, refused link) or whose future was dropped — at any await point, after any side
effects — the trace is accepted by `Life.Residue.next`: no callback of that actor ever runs, no
supervision event is emitted for it, every later observable snapshot shows status `Stopped`, no
supervisor, no child-set membership, the name released, no group membership; sends are refused,
pending waiters are released, calls queued to it are resolved (never answered). (This is the
`Life`-level statement of what C08 demands; C08 itself is decided by its own check. The driver
model `life-residue` runs this automaton, plus the registry frame clauses, on the implementation's
traces.) -/
theorem failed_spawn_leaves_nothing (id : Nat) (ops : List AOp)
    (hops : ∀ op ∈ ops, Life.Residue.AOp.notInstant op = true) : Life.Residue.ok (trace id ops) = true :=
  Life.Residue.residue_ok id ops hops

/-! ### Round 4: instant spawns, re-linking -/

/-- `spawn_instant*`: a kill that reaches the cell while it is still `Unstarted` wins against
`pre_start`: the first poll of the start task enters no callback, emits no supervision event (even
though a thread-local cell was linked to its supervisor an instant before), reports
`Err("Actor killed during startup")` through the start handle and leaves the cell `done`. -/
theorem instant_kill_before_start (a : Actor) (supOk : Bool) (hph : a.phase = .cell)
    (hst : a.status = .unstarted) (hk : a.sigVal = true) :
    (∀ e ∈ evs (opPollSpawn a supOk).2, e = .spawnRet .killed ∨ e = .spawnRet .nolink) ∧
    (opPollSpawn a supOk).1.phase = .done := by
  have hc := Life.C04.cleanup_none
  unfold opPollSpawn startInstant
  simp only [hph, hst, ne_eq, not_true_eq_false, ↓reduceIte]
  have hb : ∀ b : Actor, b.sigVal = true →
      (∀ e ∈ evs (beginPre b).2, e = .spawnRet .killed ∨ e = .spawnRet .nolink) ∧ (beginPre b).1.phase = .done := by
    intro b hb
    unfold beginPre
    simp only [hb, ↓reduceIte]
    refine ⟨?_, by simp [failSpawn, Actor.dropPorts]⟩
    intro e he
    simp [handleSignal, failSpawn, (hc _).1] at he
    exact Or.inl he
  split
  · split
    · split
      · refine ⟨?_, by simp [failSpawn, Actor.dropPorts]⟩
        intro e he
        simp [failSpawn, (hc _).1] at he
        exact Or.inr he
      · refine ⟨?_, ?_⟩
        · intro e he
          simp only [andThen_snd, evs_append, evs_doLink, List.nil_append] at he
          exact (hb _ (by simpa using hk)).1 e he
        · exact (hb _ (by simpa using hk)).2
    · exact hb _ (by simpa using hk)
  · exact hb _ (by simpa using hk)

/-- **A cell handed out by `spawn_instant` is always started**: in every reachable state a cell whose start
task has not run is `Unstarted` (`Lemmas/LifeCell.lean`), so the "cannot start an actor more than once" test of
`start()` never fires — no sequence of sends, stops, kills, drains, links, … on the `ActorRef` makes the
start task return `Err(ActorAlreadyStarted)` (this is repo fix e926850, for all op sequences). -/
theorem instant_start_never_refused (id : Nat) (ops : List AOp) :
    CellOk ((Actor.init id).run ops).1 ∧ Ev.spawnRet .already ∉ trace id ops := by
  refine ⟨cellOk_run ops (Actor.init id) {} (Life.C01.inv_init id) (cellOk_init id), ?_⟩
  obtain ⟨s', h, _⟩ := Life.C04.run_sim id ops (Actor.init id) {} (Life.C04.inv_init id) {} (Life.C01.inv_init id) (cellOk_init id)
  -- an accepted trace cannot contain an event the automaton rejects in every state
  have key : ∀ (tr : List Ev) (s s1 : Life.C04.St), accepts (Life.C04.next id) s tr = .ok s1 →
      Ev.spawnRet .already ∉ tr := by
    intro tr
    induction tr with
    | nil => intro _ _ _ hm; cases hm
    | cons e es ih =>
      intro s s1 hacc hm
      rw [accepts_cons] at hacc
      cases hn : Life.C04.next id s e with
      | error c => simp [hn] at hacc
      | ok s2 =>
        simp only [hn] at hacc
        rcases List.mem_cons.mp hm with hm | hm
        · subst hm; simp [Life.C04.next] at hn
        · exact ih s2 s1 hacc hm
  exact key _ _ _ h

/-- The public `ActorCell::link` / `unlink` emit nothing: a re-link never produces (or duplicates) a
lifecycle event; it only changes who the supervisor *is* (`supIs` after the op), and `reported_once`
then demands that every later event goes to exactly that actor. -/
theorem relink_silent (a : Actor) (p : Nat) (supOk : Bool) :
    evs (opLink a p supOk).2 = [] ∧ evs (opUnlink a p).2 = [] := by
  constructor
  · unfold opLink; split <;> simp
  · unfold opUnlink; split <;> simp

/-- After an accepted `link p` the supervisor IS `p` (and the actor left the previous supervisor's
child set: effect `unlink q`); a refused one changes nothing. -/
theorem relink_target (a : Actor) (p : Nat) (supOk : Bool) :
    (opLink a p supOk).1.sup = (if Status.draining.rank ≤ a.status.rank || !supOk then a.sup else some p) := by
  unfold opLink; split <;> simp

/-- Non-vacuity: an instant spawn that receives a message, a stop and then a relink before its start task
runs; the terminal event goes to the supervisor of that instant (7, not the requested 3). -/
example : traceNoSnap 5 [.spawnInstant (some 3) none true false, .send 1, .link 7 true, .pollSpawn true,
      .resume ⟨[], .ok⟩, .pollSpawn true, .unlink 3, .link 7 true, .poll, .resume ⟨[], .ok⟩, .poll,
      .resume ⟨[], .err 4⟩, .poll] =
    [.instant, .sendRet false 1 true, .supIs (some 7), .enter .preStart .none, .tick .preStart,
     .exit .preStart .ok, .spawnRet .ok, .supIs (some 3), .supIs none, .supIs (some 7),
     .enter .postStart .none, .tick .postStart, .exit .postStart .ok, .emit 7 (.started 5),
     .enter .handle (.msg 1), .tick .handle, .exit .handle (.err 4), .emit 7 (.failed 5 false 4), .join .ok,
     .supIs none] := by decide

/-- Non-vacuity: a kill before the start task's first poll. -/
example : traceNoSnap 5 [.spawnInstant none none true false, .kill, .pollSpawn true, .send 2] =
    [.instant, .killRet false true, .spawnRet .killed, .sendRet false 2 false] := by decide

/-- **`ActorStarted` exactly once iff `post_start` returned Ok — the positive half, trace level.**
In an accepted trace: if `post_start` returns ok (`exit post_start ok` after the prefix `p`) while a supervisor
`q` is observed (`observedSup p = some q`), then before any further callback is entered and before any terminal
event is emitted, `ActorStarted` has been emitted (`mid` = what lies between that `exit` and the next such event
`e`; `post_start` returns once). Together with the clauses "at most once", "only right after `exit post_start
ok`", "to the observed supervisor" of `reported_once` this is: exactly once, iff `post_start` succeeded. -/
theorem started_is_emitted (me : Nat) (tr p mid r : List Ev) (e : Ev) (q : Nat)
    (h : Life.C04.ok me tr = true)
    (hsplit : tr = p ++ .exit .postStart .ok :: (mid ++ e :: r))
    (hsup : Life.C04.observedSup p none = some q)
    (hone : ∀ x ∈ mid, x ≠ .exit .postStart .ok)
    (he : Life.C04.needsStarted e = true) :
    ∃ x ∈ mid, Life.C04.isStartedEmit x = true := by
  obtain ⟨s, hs⟩ := Life.C04.ok_iff.mp h
  subst hsplit
  obtain ⟨s1, h1, h2⟩ := Life.C01.accepts_append_inv _ p _ hs
  rw [accepts_cons] at h2
  cases hn : Life.C04.next me s1 (.exit .postStart .ok) with
  | error c => simp [hn] at h2
  | ok s2 =>
    simp only [hn] at h2
    obtain ⟨s3, h3, h4⟩ := Life.C01.accepts_append_inv _ mid _ h2
    have hms : s2.mustStart = true := by
      rw [Life.C04.next_exit_postStart hn, Life.C04.accepts_sup h1]
      show (Life.C04.observedSup p none).isSome = true
      rw [hsup]; rfl
    -- by contradiction: if no `ActorStarted` in `mid`, `mustStart` is still up at `e`
    cases hall : mid.all (fun x => !Life.C04.isStartedEmit x) with
    | false =>
      simp only [List.all_eq_false] at hall
      obtain ⟨x, hx, hxs⟩ := hall
      exact ⟨x, hx, by simpa using hxs⟩
    | true =>
      exfalso
      have hno : ∀ x ∈ mid, Life.C04.isStartedEmit x = false ∧ x ≠ .exit .postStart .ok := by
        intro x hx
        have := (List.all_eq_true.mp hall) x hx
        exact ⟨by simpa using this, hone x hx⟩
      obtain ⟨hm3, _⟩ := Life.C04.accepts_mustStart h3 hms hno
      rw [accepts_cons] at h4
      cases hn4 : Life.C04.next me s3 e with
      | error c => simp [hn4] at h4
      | ok s4 =>
        by_cases hse : Life.C04.isStartedEmit e = true
        · cases e <;> simp [Life.C04.isStartedEmit] at hse
          rename_i to x
          cases x <;> simp [Life.C04.needsStarted, SupEv.isTerminal] at he hse
        · by_cases hex : e = .exit .postStart .ok
          · subst hex; simp [Life.C04.needsStarted] at he
          · have := ((Life.C04.next_fields hn4).2 hm3 (by simpa using hse) hex).2
            rw [this] at he; cases he

/-! ### Known finding F15 (`c04.missing-terminal-in-cycle`): supervision cycles

ractor's `link()` accepts a link that closes a supervision cycle. An actor that exits while it is on such a
cycle does not send its terminal event: its own `terminate()` walks back to it and clears its supervisor
before `notify_supervisor`. The model's `cleanup` does send the event, so the model describes the code on
**acyclic** runs only; the full statement ("for every run of the real system the trace of every actor is accepted")
is false of the code, as the witness shows. -/

/-- The trace of actor 0 that the REAL code produces on the witness `corpus/C04/e-lts-link-cycle.ops`
(events of actor 0 as the driver derives them from the implementation's observations: `link 0 1`, then — after
`link 1 0` closed the cycle — `stop 0`, `post_stop`, and the end of the task with NO terminal event although
the observed supervisor is 1). -/
def cycleWitnessImplTrace : List Ev :=
  [.enter .preStart .none, .tick .preStart, .exit .preStart .ok, .spawnRet .ok,
   .enter .postStart .none, .tick .postStart, .exit .postStart .ok,
   .supIs (some 1),
   .stopRet false .none true, .enter .postStop .none, .tick .postStop, .exit .postStop .ok,
   .join .ok]

/-- **Negation on the witness**: the property's own oracle rejects what the implementation does there
(`c04.missing-terminal`, reported by the driver as `c04.missing-terminal-in-cycle`). -/
theorem reported_once_false_on_cycle_witness : Life.C04.ok 0 cycleWitnessImplTrace = false := by decide

/-- …while the model, on such ops (the same links, shortened: both actors only started, then `abort 0`), emits the terminal event to the supervisor of that instant (this is
where model and code part; the driver renders the model's line without that event when the exiting actor is on
a cycle, so the witness replays without a DIFF and the oracle reports the finding). -/
def cycleWitnessOps : List Op :=
  [.spawn 0 none none false, .resume 0 ⟨[], .ok⟩, .pollSpawn 0,
   .spawn 1 none none false, .resume 1 ⟨[], .ok⟩, .pollSpawn 1, .link 0 1, .link 1 0]

def cycleWorld : World := (({} : World).run cycleWitnessOps).1

example : cycleWorld.onCycle 0 = true := by decide
example : (cycleWorld.step (.abort 0)).2.1.any
    (fun o => o.2 == .ev (.emit 1 (.terminated 0 false .cancelled))) = true := by decide

/-- No op of the run closes a supervision cycle (a public `link`, or the link a start is going to make,
whose new supervisor is the actor itself or one of its descendants) — decidable, evaluated along the run. -/
def acyclicRun (w : World) : List Op → Bool
  | [] => true
  | op :: ops => !op.closesCycle w && acyclicRun (w.step op).1 ops

/-- **C04 for the composed world, partial form (F15 excluded)**: on runs that never close a supervision
cycle — the runs on which the model is claimed to describe the code — the trace projection of every actor is
accepted. (The hypothesis is not needed for the model, whose `cleanup` always reports; it marks the runs the
check's generator produces and the tie covers.) -/
theorem reported_once_world_partial (ops : List Op) (h : ∀ op ∈ ops, op ≠ .case)
    (_hac : acyclicRun ({} : World) ops = true) (i : Nat) :
    Life.C04.ok i (projEvs i (({} : World).run ops).2) = true :=
  reported_once_world ops h i

-- not an acyclic run: its 8th op `link 1 0` closes the cycle (0 is already under 1)
example : (Op.link 1 0).closesCycle (({} : World).run (cycleWitnessOps.take 7)).1 = true := by decide
example : (Op.link 0 1).closesCycle (({} : World).run (cycleWitnessOps.take 6)).1 = false := by decide
example : acyclicRun ({} : World) cycleWitnessOps = false := by decide
example : acyclicRun ({} : World) (cycleWitnessOps.take 7) = true := by decide

/-! ### Round 4: delivery and frame in the composed world

`C04.reported_once` is about what an actor *emits*; these two are about the rest of the world
(`Lemmas/LifeDelivery.lean`). `World.stepDone` (the fuel of `World.effects` sufficed) is evaluated by
the driver on every replayed step and reported as `model-fuel-exhausted` if ever false, so no effect is
dropped silently. -/

/-- **Delivery**: in every step of the composed world whose effects were processed completely, the
supervision events arriving at other actors' ports are exactly the events the target emitted in that
step (to targets that have a cell): the same events, in emission order, each exactly once, and
nobody else receives anything; routing the effects emits no further event. (`noSpawn`: no callback of
the step spawned a child — then the set of actors that have a cell is the same before and after.) -/
theorem emitted_is_delivered (w : World) (op : Op) (hd : w.stepDone op = true)
    (hns : noSpawn (w.step op).2.1) :
    arrivalsOf (w.step op).2.2 = deliverable (w.step op).1 (emitsOf (w.step op).2.1) ∧
    emitsOf (w.step op).2.2 = [] :=
  step_delivery w op hd hns

/-- An event handed to a live supervisor (ports open) is in its supervision queue afterwards, behind
what was already queued; C03 (`pick_supervision`, `priority`) then has it handled before any message. -/
theorem delivered_is_enqueued (a : Actor) (e : SupEv) (h : a.portsOpen = true) :
    (opSupArrive a e).1.supQ = a.supQ ++ [e] :=
  supArrive_enqueues a e h

/-- **Frame** ("unrelated actors keep running"): an actor that is not the target of the op and shows no
output among the routed effects of the step (it is neither the supervisor that was notified / linked /
unlinked nor a descendant reached by `terminate()`) is left exactly as it was. -/
theorem unrelated_untouched (w : World) (op : Op) (i : Nat)
    (htgt : ∀ a aop, op.target w = some (a, aop) → a ≠ i)
    (hi : ∀ o ∈ (w.step op).2.2, o.1 ≠ i) (hc : op ≠ .case) : (w.step op).1.get i = w.get i :=
  step_frame w op i htgt hi hc

/-- Non-vacuity: the fuel of a concrete three-actor step suffices and the failure of actor 2 is delivered
to its supervisor 0 and to nobody else; actor 1 is untouched. -/
def dWorld : World := (({} : World).run
  [.spawn 0 none none false, .resume 0 ⟨[], .ok⟩, .pollSpawn 0, .spawn 1 none none false,
   .spawn 2 (some 0) none false, .resume 2 ⟨[], .ok⟩, .pollSpawn 2, .poll 2, .resume 2 ⟨[], .panic 9⟩]).1

example : dWorld.stepDone (.poll 2) = true := by decide
example : arrivalsOf (dWorld.step (.poll 2)).2.2 = [(0, .failed 2 true 9)] := by decide
example : ((dWorld.step (.poll 2)).1.get 0).supQ = [.failed 2 true 9] := by decide
example : (dWorld.step (.poll 2)).1.get 1 = dWorld.get 1 := by decide

/-! ### Round 4: the `monitors` feature

`Actor.mons` (ops `monAdd` / `monDel` = `m.monitor(me)` / `m.unmonitor(me)`, `monDrop` = a failed send to a dead
monitor) and `notifyOuts`: every `notify_supervisor` first hands a state-less copy to each monitor (trace
event `monFan reg tg e`, one routing effect `monSend m e` per monitor), then the event to the supervisor.
`reported_once` covers it through the automaton clauses `c04.monitor-set` (targets = the monitors
registered at that instant: nobody missed, nobody else, nobody twice), `c04.monitor-state`,
`c04.after-terminal` (at most one terminal fan-out), `c04.started-not-after-post_start`,
`c04.monitor-event-differs` (the supervisor's event is the same event). The ops only occur in the
`monitors` build of the harness (`hcoremon/life_mon`), which is a run of this check. -/

/-- **Exactly one copy per monitor registered at that instant, same constructor / text / reason as the
supervisor's event, no state.** What one `notify_supervisor(e)` puts out for an actor with monitor set
`a.mons`: the routing effects are exactly one `monSend m e.strip` per `m ∈ a.mons` (in that order), the
trace event says `targets = registered = a.mons`, and the only other output is the supervisor's `emit p e`
(if supervised) — whose state-less form is the monitors' copy. -/
theorem monitors_each_exactly_once (a : Actor) (e : SupEv) :
    (notifyOuts a e).filterMap (fun o => match o with | .eff (.monSend m x) => some (m, x) | _ => none)
      = a.mons.map (fun m => (m, e.strip)) ∧
    evs (notifyOuts a e) =
      (if a.mons = [] then [] else [.monFan a.mons a.mons e.strip]) ++
      (match a.sup with | some p => [.emit p e] | none => []) := by
  unfold notifyOuts
  constructor
  · cases hm : a.mons with
    | nil => cases a.sup <;> simp
    | cons m ms =>
      cases a.sup <;> simp [List.filterMap_append, List.filterMap_map, Function.comp_def]
  · cases hm : a.mons with
    | nil => cases a.sup <;> simp
    | cons m ms => cases a.sup <;> simp

/-- The monitor set is what the `monitor` / `unmonitor` calls (and drops after failed sends) made it:
ascending, and a monitor is in it iff it was added and not removed since. -/
theorem monitor_set_ops (a : Actor) (m x : Nat) :
    (x ∈ (a.envOp (.monDel m)).1.mons ↔ x ∈ a.mons ∧ x ≠ m) ∧
    (x ∈ (a.envOp (.monDrop m)).1.mons ↔ x ∈ a.mons ∧ x ≠ m) ∧
    (x ∈ (a.envOp (.monAdd m)).1.mons ↔ x = m ∨ x ∈ a.mons) := by
  have hins : ∀ l : List Nat, x ∈ insertAsc m l ↔ x = m ∨ x ∈ l := by
    intro l
    induction l with
    | nil => simp [insertAsc]
    | cons y l ih =>
      simp only [insertAsc]
      split
      · simp
      · split
        · rename_i h; subst h; simp
        · simp [ih]; constructor
          · rintro (h | h | h) <;> simp [h]
          · rintro (h | h | h) <;> simp [h]
  refine ⟨by simp [Actor.envOp], by simp [Actor.envOp], by simpa [Actor.envOp] using hins a.mons⟩

/-- Non-vacuity: an actor supervised by 0 and monitored by 2 and 3 (3 un-monitors again) panics. -/
example : traceNoSnap 1 [.spawn (some 0) none true false true, .monAdd 3, .monAdd 2, .resume ⟨[], .ok⟩,
      .pollSpawn true, .monDel 3, .poll, .resume ⟨[], .panic 4⟩, .poll] =
    [.enter .preStart .none, .tick .preStart, .exit .preStart .ok, .spawnRet .ok, .supIs (some 0),
     .enter .postStart .none, .tick .postStart, .exit .postStart (.panic 4),
     .monFan [2] [2] (.failed 1 true 4), .emit 0 (.failed 1 true 4), .join .ok, .supIs none] := by decide

example : Life.C04.ok 1 [.supIs (some 0), .exit .handle (.err 3), .monFan [2, 3] [2, 3] (.failed 1 false 3),
    .emit 0 (.failed 1 false 3)] = true := by decide
-- a monitor missed, a monitor told twice, an outsider told, a different event for the supervisor, state leaked
example : Life.C04.ok 1 [.supIs (some 0), .exit .handle (.err 3), .monFan [2, 3] [2] (.failed 1 false 3)] = false := by decide
example : Life.C04.ok 1 [.supIs (some 0), .exit .handle (.err 3), .monFan [2] [2, 2] (.failed 1 false 3)] = false := by decide
example : Life.C04.ok 1 [.supIs (some 0), .exit .handle (.err 3), .monFan [] [5] (.failed 1 false 3)] = false := by decide
example : Life.C04.ok 1 [.supIs (some 0), .exit .handle (.err 3), .monFan [2] [2] (.failed 1 false 3),
    .emit 0 (.failed 1 true 3)] = false := by decide
example : Life.C04.ok 1 [.stopRet false .none true, .enter .postStop .none, .exit .postStop .ok,
    .monFan [2] [2] (.terminated 1 true .none)] = false := by decide

/-! ### Round 4: children spawned from inside a callback

`Fx.spawnChild c` = the callback calls `ActorRuntime::spawn_linked_instant(None, child, args, myself)`
(the instant form: nothing is awaited inside the callback). The parent's own state does not change (the
link is made by the child's start task); the composed world gives the child a `cell` that asks for the
parent as supervisor, and from then on the child is an ordinary instant spawn — all theorems above apply to
it and to the parent (both are single-actor runs, `world_actor_run`). -/

/-- What the side effect does to the parent: nothing but the trace event and the routing effect. -/
theorem callback_spawn_parent_unchanged (a : Actor) (c : Nat) :
    (runFx a (.spawnChild c)).1 = a ∧
    (runFx a (.spawnChild c)).2 = [.ev (.fxSpawn c a.isLocal), .eff (.spawnChild c a.isLocal)] := ⟨rfl, rfl⟩

/-- Non-vacuity (composed world): actor 1 (child of 0) spawns actor 2 from its message handler and fails
in the same segment. The child's cell exists (`Unstarted`); its start task runs `pre_start` and then finds the supervisor gone:
`Err(nolink)` through the start handle, no supervision event for it, and actor 1's failure went to 0. -/
def sWorld : World := (({} : World).run
  [.spawn 0 none none false, .resume 0 ⟨[], .ok⟩, .pollSpawn 0, .spawn 1 (some 0) none false,
   .resume 1 ⟨[], .ok⟩, .pollSpawn 1, .poll 1, .resume 1 ⟨[], .ok⟩, .send 1 5, .poll 1,
   .resume 1 ⟨[.spawnChild 2], .err 3⟩, .poll 1]).1

example : (sWorld.get 2).phase = .cell ∧ (sWorld.get 2).status = .unstarted ∧ (sWorld.get 2).wantSup = some 1 := by decide
example : (sWorld.get 0).supQ = [.started 1, .failed 1 false 3] := by decide
example : ((sWorld.run [.pollSpawn 2, .resume 2 ⟨[], .ok⟩, .pollSpawn 2]).2.filter
    (fun o => o.1 = 2 ∧ o.2 = .ev (.spawnRet .nolink))).length = 1 := by decide

/-! ### E-SRC obligations -/

theorem src_cleanup_order : Extracted.cleanupOrder = Life.cleanupSteps := by decide
theorem src_terminate_condition : Extracted.terminateKillCondition = Life.terminateKillCondition := by decide
theorem src_status : Extracted.statusDiscriminants = Life.statusTable := by decide

/-! ### Non-vacuity and rejection examples -/

/-- Handler panic: exactly one `ActorFailed` with the panic text, after `ActorStarted`. -/
example : traceNoSnap 1 [.spawn (some 0) none true false true, .resume ⟨[], .ok⟩, .pollSpawn true, .poll, .resume ⟨[], .ok⟩, .poll,
      .send 5, .poll, .resume ⟨[], .panic 9⟩, .poll] =
    [.enter .preStart .none, .tick .preStart, .exit .preStart .ok, .spawnRet .ok, .supIs (some 0),
     .enter .postStart .none, .tick .postStart, .exit .postStart .ok, .emit 0 (.started 1),
     .sendRet false 5 true, .enter .handle (.msg 5), .tick .handle, .exit .handle (.panic 9),
     .emit 0 (.failed 1 true 9), .join .ok, .supIs none] := by decide

/-- Abort of a suspended handler: "actor_task_cancelled", no state. -/
example : traceNoSnap 1 [.spawn (some 0) none true false true, .resume ⟨[], .ok⟩, .pollSpawn true, .poll, .abort] =
    [.enter .preStart .none, .tick .preStart, .exit .preStart .ok, .spawnRet .ok, .supIs (some 0),
     .enter .postStart .none, .aborted, .cancelled .postStart,
     .emit 0 (.terminated 1 false .cancelled), .join .cancelled, .supIs none] := by decide

/-- A thread-local child: linked before `pre_start`, graceful stop reports NO state (it is not
`Send`), exactly once. -/
example : traceNoSnap 1 [.spawn (some 0) none true true true, .resume ⟨[], .ok⟩, .pollSpawn true, .poll,
      .resume ⟨[], .ok⟩, .poll, .stop (some "bye"), .poll, .resume ⟨[], .ok⟩, .poll] =
    [.isLocal, .enter .preStart .none, .supIs (some 0), .tick .preStart, .exit .preStart .ok, .spawnRet .ok,
     .enter .postStart .none, .tick .postStart, .exit .postStart .ok, .emit 0 (.started 1),
     .stopRet false (.text "bye") true, .enter .postStop .none, .tick .postStop, .exit .postStop .ok,
     .emit 0 (.terminated 1 false (.text "bye")), .join .ok, .supIs none] := by decide

/-- The witness of the former finding, spelled out: no state any more. -/
example : traceNoSnap 1 witness =
    [.enter .preStart .none, .tick .preStart, .exit .preStart .ok, .spawnRet .ok, .supIs (some 0),
     .enter .postStart .none, .tick .postStart, .exit .postStart .ok, .emit 0 (.started 1),
     .killRet false true, .emit 0 (.terminated 1 false .killed), .join .ok, .supIs none] := by decide

/-- what the unrepaired code produced on the witness is rejected (`c04.kill-state`) -/
example : Life.C04.ok 1 [.supIs (some 0), .exit .postStart .ok, .emit 0 (.started 1), .killRet false true,
    .emit 0 (.terminated 1 true .killed), .join .ok] = false := by decide
example : Life.C04.ok 1 [.supIs (some 0), .exit .postStart .ok, .emit 0 (.started 1), .emit 0 (.started 1)] = false := by decide
example : Life.C04.ok 1 [.supIs (some 0), .emit 0 (.started 1)] = false := by decide
example : Life.C04.ok 1 [.supIs (some 0), .exit .handle (.err 3), .emit 0 (.failed 1 false 3),
    .emit 0 (.terminated 1 false .cancelled)] = false := by decide
example : Life.C04.ok 1 [.supIs (some 0), .exit .handle (.err 3), .emit 0 (.failed 1 true 3)] = false := by decide
example : Life.C04.ok 1 [.supIs (some 0), .exit .handle (.err 3), .emit 2 (.failed 1 false 3)] = false := by decide
example : Life.C04.ok 1 [.supIs (some 0), .exit .preStart (.err 3), .emit 0 (.failed 1 false 3)] = false := by decide
example : Life.C04.ok 1 [.supIs (some 0), .drainRet true, .enter .postStop .none, .exit .postStop .ok,
    .emit 0 (.terminated 1 true .drained), .join .ok] = true := by decide
example : Life.C04.ok 1 [.supIs (some 0), .drainRet true, .enter .postStop .none, .exit .postStop .ok, .join .ok] = false := by decide
-- round 4: `ActorStarted` is due right after `post_start` returned ok (positive form)
example : Life.C04.ok 1 [.supIs (some 0), .exit .postStart .ok, .enter .handle (.msg 1)] = false := by decide
example : Life.C04.ok 1 [.supIs (some 0), .exit .postStart .ok, .killRet false true,
    .emit 0 (.terminated 1 false .killed)] = false := by decide
example : Life.C04.ok 1 [.exit .postStart .ok, .enter .handle (.msg 1)] = true := by decide   -- unsupervised
-- round 4: the reason is the one of the request the loop took: a stop accepted before `post_stop` was
-- entered wins over the drain marker, a stop accepted afterwards does not change the reason
example : Life.C04.ok 1 [.supIs (some 0), .drainRet true, .stopRet false (.text "r") true, .enter .postStop .none,
    .exit .postStop .ok, .emit 0 (.terminated 1 true .drained)] = false := by decide
example : Life.C04.ok 1 [.supIs (some 0), .drainRet true, .stopRet false (.text "r") true, .enter .postStop .none,
    .exit .postStop .ok, .emit 0 (.terminated 1 true (.text "r"))] = true := by decide
example : Life.C04.ok 1 [.supIs (some 0), .drainRet true, .enter .postStop .none, .stopRet false (.text "r") true,
    .exit .postStop .ok, .emit 0 (.terminated 1 true (.text "r"))] = false := by decide
example : Life.C04.ok 1 [.supIs (some 0), .drainRet true, .enter .postStop .none, .stopRet false (.text "r") true,
    .exit .postStop .ok, .emit 0 (.terminated 1 true .drained)] = true := by decide

/-! ### E-SRC, async-std backend (round 4)

`Life`'s `abort` op (the join handle's `abort()`: the task's future is dropped at its current await point, the
join handle reports `Cancelled`) is written after tokio. With `--features async-std` the handle is ractor's own
wrapper: `abort` only sets the `AbortHandle`; every spawn form (`spawn` = `spawn_named(None, ..)`) hands async-std a
task whose FIRST await is `Abortable::new(future, abort_registration)` (so the abort flag is looked at before every
poll of the actor's future and the future is dropped when the wrapper returns), sets the `is_done` flag after it, and
`JoinHandle::poll` maps an aborted task to `Err(())`. The `verif::controlled` hook wraps the future before the
`Abortable` wrapper, as it wraps the future handed to `tokio::spawn`. -/
theorem src_async_std_abort :
    Extracted.asyncStdAbortBody = "self.abort_handle.abort();"
    ∧ Extracted.asyncStdSpawnCalls = ["async_std::task::spawn_local", "async_std::task::Builder::new()", "async_std::task::spawn"]
    ∧ Extracted.asyncStdSpawnAwaits = List.replicate 3 "Abortable::new(future,abort_registration)"
    ∧ Extracted.asyncStdSpawnThen = List.replicate 3 "inner_signal.fetch_or(true,Ordering::Relaxed)"
    ∧ Extracted.asyncStdPlainSpawnBody = "spawn_named(None,future)"
    ∧ Extracted.asyncStdJoinPollArms =
        ["Poll::Pending=>Poll::Pending", "Poll::Ready(Ok(v))=>Poll::Ready(Ok(v))", "Poll::Ready(Err(_))=>Poll::Ready(Err(()))"] := by decide
theorem src_async_std_verif_hooks : Extracted.asyncStdVerifHooks = ["spawn_local", "spawn_named"] := by decide

end C04

#print axioms C04.reported_once
#print axioms C04.reported_once_world
#print axioms C04.invariant
#print axioms C04.prestart_failure_silent
#print axioms C04.failed_spawn_leaves_nothing
#print axioms C04.instant_kill_before_start
#print axioms C04.instant_start_never_refused
#print axioms C04.started_is_emitted
#print axioms C04.relink_silent
#print axioms C04.relink_target
#print axioms C04.reported_once_false_on_cycle_witness
#print axioms C04.reported_once_world_partial
#print axioms C04.emitted_is_delivered
#print axioms C04.delivered_is_enqueued
#print axioms C04.unrelated_untouched
#print axioms C04.monitors_each_exactly_once
#print axioms C04.monitor_set_ops
#print axioms C04.callback_spawn_parent_unchanged
#print axioms C04.src_cleanup_order
#print axioms C04.src_terminate_condition
#print axioms C04.src_status
#print axioms C04.src_async_std_abort
#print axioms C04.src_async_std_verif_hooks
