import RactorModel.Lemmas.PgDemonitor

namespace Pg
open AList

theorem del_of_not_mem {α : Type} [DecidableEq α] {a : α} {l : List α} (h : a ∉ l) : del a l = l := by
  unfold del
  rw [List.filter_eq_self]
  intro x hx
  simp only [Bool.not_eq_eq_eq_not, Bool.not_true, decide_eq_false_iff_not]
  intro e; exact h (e ▸ hx)

/-- the raw scope index after removing a list of keys one by one -/
theorem get_foldl_removeFromIndex (ks : List Key) (idx : List (Nat × List Nat)) (s : Nat) :
    (get (ks.foldl removeFromIndex idx) s).getD [] = ((get idx s).getD []).filter (fun g => decide ((s, g) ∉ ks)) ∧
    (get idx s ≠ some [] → get (ks.foldl removeFromIndex idx) s ≠ some []) := by
  induction ks generalizing idx with
  | nil =>
    refine ⟨?_, fun h => h⟩
    simp only [List.foldl_nil, List.not_mem_nil, not_false_eq_true, decide_true]
    exact (List.filter_eq_self.mpr (fun _ _ => rfl)).symm
  | cons k ks ih =>
    rw [List.foldl_cons]
    obtain ⟨ih1, ih2⟩ := ih (removeFromIndex idx k)
    have hstep : (get (removeFromIndex idx k) s).getD [] =
        ((get idx s).getD []).filter (fun g => decide ((s, g) ≠ k)) := by
      unfold removeFromIndex
      rw [get_alter]
      by_cases e : s = k.1
      · rw [if_pos e, ← e]
        cases hh : get idx s with
        | none => simp
        | some l =>
          simp only [Option.bind_some, Option.getD_some]
          have hd : del k.2 l = l.filter (fun g => decide ((s, g) ≠ k)) := by
            unfold del
            apply List.filter_congr
            intro g _
            have : ((s, g) = k) ↔ g = k.2 := by
              constructor
              · intro x; rw [← x]
              · intro x; rw [x, e]
            simp [this]
          by_cases c : del k.2 l = []
          · rw [if_pos c, ← hd, c]; rfl
          · rw [if_neg c, ← hd]; rfl
      · rw [if_neg e]
        symm
        rw [List.filter_eq_self]
        intro g _
        simp only [ne_eq, decide_not, Bool.not_eq_eq_eq_not, Bool.not_true, decide_eq_false_iff_not]
        intro x; exact e (by rw [← x])
    have hne : get idx s ≠ some [] → get (removeFromIndex idx k) s ≠ some [] := by
      intro h0
      unfold removeFromIndex
      rw [get_alter]
      by_cases e : s = k.1
      · rw [if_pos e]
        cases hh : get idx k.1 with
        | none => simp
        | some l =>
          simp only [Option.bind_some]
          by_cases c : del k.2 l = []
          · rw [if_pos c]; simp
          · rw [if_neg c]; simpa using c
      · rw [if_neg e]; exact h0
    refine ⟨?_, fun h0 => ih2 (hne h0)⟩
    rw [ih1, hstep, List.filter_filter]
    apply List.filter_congr
    intro g _
    simp only [List.mem_cons, not_or, ne_eq, decide_not]
    by_cases h1 : (s, g) ∈ ks <;> by_cases h2 : (s, g) = k <;> simp [h1, h2]

theorem nodupKeys_foldl_removeFromIndex (ks : List Key) (idx : List (Nat × List Nat)) (h : NodupKeys idx) :
    NodupKeys (ks.foldl removeFromIndex idx) := by
  induction ks generalizing idx with
  | nil => exact h
  | cons k ks ih => exact ih _ (nodupKeys_alter h _ _)

theorem dropListener_idem (a : Nat) (o : Option GS) : dropListener a (dropListener a o) = dropListener a o := by
  cases o with
  | none => rfl
  | some gs =>
    simp only [dropListener, Option.bind_some]
    unfold gsNorm
    by_cases c : gs.members = [] ∧ del a gs.listeners = []
    · simp [c]
    · simp only [c, ↓reduceIte, Option.bind_some]
      have : del a (del a gs.listeners) = del a gs.listeners := by simp [del, List.filter_filter]
      simp [this, c]

theorem dropWorldListener_idem (a : Nat) (o : Option (List Nat)) :
    dropWorldListener a (dropWorldListener a o) = dropWorldListener a o := by
  cases o with
  | none => rfl
  | some l =>
    simp only [dropWorldListener, Option.bind_some]
    by_cases c : del a l = []
    · simp [c]
    · have : del a (del a l) = del a l := by simp [del, List.filter_filter]
      simp [c, this]

theorem dropMember_idem (a : Nat) (o : Option GS) : dropMember a (dropMember a o) = dropMember a o := by
  cases o with
  | none => rfl
  | some gs =>
    simp only [dropMember, Option.bind_some]
    by_cases c : a ∈ gs.members
    · rw [if_pos c]
      unfold gsNorm
      by_cases c2 : del a gs.members = [] ∧ gs.listeners = []
      · simp [c2]
      · simp only [c2, ↓reduceIte, Option.bind_some]
        have : a ∉ del a gs.members := by simp [mem_del]
        simp [this]
    · simp [c]

/-- what the whole exit does to one forward entry -/
def purge (a : Nat) (o : Option GS) : Option GS :=
  o.bind (fun gs => gsNorm ⟨del a gs.members, del a gs.listeners⟩)

end Pg

namespace Pg
open AList

theorem exit_dead_noop (st : State) (a : Nat) (hd : a ∈ st.dead) : exit st a = (st, []) := by
  simp [exit, hd]

theorem exit_norel (st : State) (a : Nat) (hd : a ∉ st.dead) (hr : get st.rel a = none) :
    exit st a = ({ st with dead := st.dead ++ [a] }, []) := by
  simp [exit, hd, demonitorAll, leaveAll, hr]

/-- state after `demonitor_all` of a live-until-now actor with a reverse-index entry -/
def afterDemon (st : State) (a : Nat) (r : Rel) : State :=
  { st with dead := st.dead ++ [a],
            rel := set st.rel a { r with gmon := [], wmon := [] },
            map := alterMany st.map r.gmon (dropListener a),
            world := alterMany st.world r.wmon (dropWorldListener a) }

theorem exit_rel (st : State) (a : Nat) (hd : a ∉ st.dead) {r : Rel} (hr : get st.rel a = some r) :
    exit st a = leaveAll (afterDemon st a r) a := by
  simp [exit, hd, demonitorAll, hr, afterDemon]

theorem afterDemon_rel_get (st : State) (a : Nat) (r : Rel) :
    get (afterDemon st a r).rel a = some { r with gmon := [], wmon := [] } := by
  simp [afterDemon]

section exitfacts
variable {st : State} (h : Inv st) {a : Nat} (hd : a ∉ st.dead) {r : Rel} (hr : get st.rel a = some r)
include h hd hr

theorem rel_fields : relMem st a = r.mem ∧ relGmon st a = r.gmon ∧ relWmon st a = r.wmon := by
  simp [relMem, relGmon, relWmon, relOf, hr]

theorem afterDemon_map_get (k : Key) :
    get (afterDemon st a r).map k =
      (get st.map k).bind (fun gs => gsNorm ⟨gs.members, del a gs.listeners⟩) := by
  simp only [afterDemon]
  rw [get_alterMany _ _ _ (dropListener_idem a)]
  by_cases c : k ∈ r.gmon
  · rw [if_pos c]; rfl
  · rw [if_neg c]
    have hna : a ∉ listenersOf st k := by
      intro x
      exact c ((rel_fields h hd hr).2.1 ▸ (h.gmon k a).mp x)
    cases hg : get st.map k with
    | none => rfl
    | some gs =>
      have : listenersOf st k = gs.listeners := by unfold listenersOf; rw [hg]; rfl
      rw [this] at hna
      simp only [Option.bind_some, del_of_not_mem hna]
      obtain hh := h.mapNE k gs hg
      unfold gsNorm
      rw [if_neg]
      intro x
      rcases hh with y | y
      · exact y x.1
      · exact y x.2

theorem afterDemon_members (k : Key) : membersOf (afterDemon st a r) k = membersOf st k := by
  unfold membersOf
  rw [afterDemon_map_get h hd hr]
  cases get st.map k with
  | none => rfl
  | some gs => simp only [Option.bind_some, members_gsNorm]; rfl

theorem afterDemon_listeners (k : Key) : listenersOf (afterDemon st a r) k = del a (listenersOf st k) := by
  unfold listenersOf
  rw [afterDemon_map_get h hd hr]
  cases get st.map k with
  | none => rfl
  | some gs => simp only [Option.bind_some, listeners_gsNorm]; rfl

theorem afterDemon_world_get (s : Nat) :
    get (afterDemon st a r).world s = dropWorldListener a (get st.world s) := by
  simp only [afterDemon]
  rw [get_alterMany _ _ _ (dropWorldListener_idem a)]
  by_cases c : s ∈ r.wmon
  · rw [if_pos c]
  · rw [if_neg c]
    have hna : a ∉ worldOf st s := by
      intro x
      exact c ((rel_fields h hd hr).2.2 ▸ (h.wmon s a).mp x)
    cases hg : get st.world s with
    | none => rfl
    | some l =>
      have : worldOf st s = l := by unfold worldOf; rw [hg]; rfl
      rw [this] at hna
      simp only [dropWorldListener, Option.bind_some, del_of_not_mem hna]
      rw [if_neg]
      intro x
      exact h.worldNE s (by rw [hg, x])

/-- the forward map after the whole exit -/
theorem exit_map_get (k : Key) : get (exit st a).1.map k = purge a (get st.map k) := by
  rw [exit_rel st a hd hr]
  unfold leaveAll
  rw [afterDemon_rel_get]
  simp only
  rw [get_alterMany _ _ _ (dropMember_idem a), afterDemon_map_get h hd hr]
  by_cases c : k ∈ r.mem
  · rw [if_pos c]
    have ha : a ∈ membersOf st k := (h.mem k a).mpr ((rel_fields h hd hr).1 ▸ c)
    cases hg : get st.map k with
    | none => unfold membersOf at ha; rw [hg] at ha; cases ha
    | some gs =>
      have hm : membersOf st k = gs.members := by unfold membersOf; rw [hg]; rfl
      rw [hm] at ha
      simp only [Option.bind_some, purge]
      have hn : gsNorm ⟨gs.members, del a gs.listeners⟩ = some ⟨gs.members, del a gs.listeners⟩ := by
        unfold gsNorm
        rw [if_neg]
        intro x
        rw [x.1] at ha; cases ha
      rw [hn]
      simp [dropMember, ha]
  · rw [if_neg c]
    have hna : a ∉ membersOf st k := fun x => c ((rel_fields h hd hr).1 ▸ (h.mem k a).mp x)
    cases hg : get st.map k with
    | none => rfl
    | some gs =>
      have hm : membersOf st k = gs.members := by unfold membersOf; rw [hg]; rfl
      rw [hm] at hna
      simp only [Option.bind_some, purge, del_of_not_mem hna]

theorem exit_world_get (s : Nat) : get (exit st a).1.world s = dropWorldListener a (get st.world s) := by
  rw [exit_rel st a hd hr]
  unfold leaveAll
  rw [afterDemon_rel_get]
  simp only
  exact afterDemon_world_get h hd hr s

theorem exit_rel_get (b : Nat) : get (exit st a).1.rel b = if b = a then none else get st.rel b := by
  rw [exit_rel st a hd hr]
  unfold leaveAll
  rw [afterDemon_rel_get]
  simp only [removeEmptyRel_get, get_set, ↓reduceIte, Option.bind_some]
  by_cases e : b = a
  · rw [if_pos e, if_pos e]; rfl
  · rw [if_neg e, if_neg e]
    simp [afterDemon, e]

theorem exit_dead_eq : (exit st a).1.dead = st.dead ++ [a] := by
  rw [exit_rel st a hd hr]
  unfold leaveAll
  rw [afterDemon_rel_get]
  rfl

theorem exit_idxOf (s : Nat) :
    idxOf (exit st a).1 s = (idxOf st s).filter (fun g => decide (del a (membersOf st (s, g)) ≠ [])) ∧
    get (exit st a).1.index s ≠ some [] := by
  rw [exit_rel st a hd hr]
  unfold leaveAll
  rw [afterDemon_rel_get]
  simp only
  unfold idxOf
  have hidx : (afterDemon st a r).index = st.index := rfl
  rw [hidx]
  obtain ⟨f1, f2⟩ := get_foldl_removeFromIndex
    (List.filter (fun k => decide (del a (membersOf (afterDemon st a r) k) = []))
      (List.filter (fun k => decide (a ∈ membersOf (afterDemon st a r) k)) r.mem)) st.index s
  refine ⟨?_, f2 (h.idxNE s)⟩
  rw [f1]
  apply List.filter_congr
  intro g hg
  have hne : membersOf st (s, g) ≠ [] := (h.idx s g).mp hg
  simp only [afterDemon_members h hd hr, List.mem_filter, decide_eq_true_eq, ne_eq, decide_not]
  have hmem : (s, g) ∈ r.mem ↔ a ∈ membersOf st (s, g) := by
    rw [h.mem, (rel_fields h hd hr).1]
  by_cases c : del a (membersOf st (s, g)) = []
  · have ha : a ∈ membersOf st (s, g) := by
      obtain ⟨x, hx⟩ := List.exists_mem_of_ne_nil _ hne
      by_cases e : x = a
      · exact e ▸ hx
      · have : x ∈ del a (membersOf st (s, g)) := mem_del.mpr ⟨hx, e⟩
        rw [c] at this; cases this
    simp [c, ha, hmem]
  · simp [c]

end exitfacts

end Pg

namespace Pg
open AList

theorem purge_members (a : Nat) (o : Option GS) :
    ((purge a o).map (·.members)).getD [] = del a ((o.map (·.members)).getD []) := by
  cases o with
  | none => rfl
  | some gs => simp only [purge, Option.bind_some, members_gsNorm]; rfl

theorem purge_listeners (a : Nat) (o : Option GS) :
    ((purge a o).map (·.listeners)).getD [] = del a ((o.map (·.listeners)).getD []) := by
  cases o with
  | none => rfl
  | some gs => simp only [purge, Option.bind_some, listeners_gsNorm]; rfl

theorem purge_some {a : Nat} {o : Option GS} {gs : GS} (h : purge a o = some gs) :
    gs.members ≠ [] ∨ gs.listeners ≠ [] := by
  cases o with
  | none => cases h
  | some g0 =>
    simp only [purge, Option.bind_some] at h
    obtain ⟨rfl, hh⟩ := gsNorm_some h
    exact hh

theorem exit_keys {st : State} (h : Inv st) (a : Nat) :
    NodupKeys (exit st a).1.map ∧ NodupKeys (exit st a).1.index ∧ NodupKeys (exit st a).1.world ∧
    NodupKeys (exit st a).1.rel := by
  by_cases hd : a ∈ st.dead
  · rw [exit_dead_noop st a hd]; exact ⟨h.kMap, h.kIdx, h.kWorld, h.kRel⟩
  cases hr : get st.rel a with
  | none => rw [exit_norel st a hd hr]; exact ⟨h.kMap, h.kIdx, h.kWorld, h.kRel⟩
  | some r =>
    rw [exit_rel st a hd hr]
    unfold leaveAll
    rw [afterDemon_rel_get]
    dsimp only [afterDemon, removeEmptyRel]
    refine ⟨?_, ?_, ?_, ?_⟩
    · exact nodupKeys_alterMany (nodupKeys_alterMany h.kMap _ _) _ _
    · exact nodupKeys_foldl_removeFromIndex _ _ h.kIdx
    · exact nodupKeys_alterMany h.kWorld _ _
    · exact nodupKeys_alter (nodupKeys_set (nodupKeys_set h.kRel _ _) _ _) _ _

theorem inv_exit {st : State} (h : Inv st) (a : Nat) : Inv (exit st a).1 := by
  by_cases hd : a ∈ st.dead
  · rw [exit_dead_noop st a hd]; exact h
  cases hr : get st.rel a with
  | none =>
    rw [exit_norel st a hd hr]
    refine { h with dead := ?_ }
    intro b hb
    simp only [List.mem_append, List.mem_singleton] at hb
    rcases hb with hb | rfl
    · exact h.dead b hb
    · exact hr
  | some r =>
    obtain ⟨k1, k2, k3, k4⟩ := exit_keys h a
    have hM : ∀ k, membersOf (exit st a).1 k = del a (membersOf st k) := by
      intro k; unfold membersOf; rw [exit_map_get h hd hr, purge_members]
    have hL : ∀ k, listenersOf (exit st a).1 k = del a (listenersOf st k) := by
      intro k; unfold listenersOf; rw [exit_map_get h hd hr, purge_listeners]
    have hW : ∀ s, worldOf (exit st a).1 s = del a (worldOf st s) := by
      intro s; unfold worldOf; rw [exit_world_get h hd hr, dropWorld_list]
    have hR : ∀ b, relOf (exit st a).1 b = if b = a then Rel.empty else relOf st b := by
      intro b; unfold relOf; rw [exit_rel_get h hd hr]
      by_cases e : b = a
      · rw [if_pos e, if_pos e]; rfl
      · rw [if_neg e, if_neg e]
    constructor
    · exact k1
    · exact k2
    · exact k3
    · exact k4
    · intro k b
      rw [hM, mem_del, h.mem]
      unfold relMem; rw [hR]
      by_cases e : b = a
      · rw [if_pos e]; simp [e, Rel.empty]
      · rw [if_neg e]; simp [e]
    · intro k b
      rw [hL, mem_del, h.gmon]
      unfold relGmon; rw [hR]
      by_cases e : b = a
      · rw [if_pos e]; simp [e, Rel.empty]
      · rw [if_neg e]; simp [e]
    · intro s b
      rw [hW, mem_del, h.wmon]
      unfold relWmon; rw [hR]
      by_cases e : b = a
      · rw [if_pos e]; simp [e, Rel.empty]
      · rw [if_neg e]; simp [e]
    · intro s g
      rw [(exit_idxOf h hd hr s).1, hM]
      simp only [List.mem_filter, decide_eq_true_eq, h.idx]
      constructor
      · exact fun x => x.2
      · intro x
        refine ⟨?_, x⟩
        intro e; rw [e] at x; exact x rfl
    · intro s; exact (exit_idxOf h hd hr s).2
    · intro k gs
      rw [exit_map_get h hd hr]
      exact purge_some
    · intro s
      rw [exit_world_get h hd hr]
      exact dropWorld_ne _ _
    · intro b hb
      rw [exit_dead_eq h hd hr] at hb
      rw [exit_rel_get h hd hr]
      simp only [List.mem_append, List.mem_singleton] at hb
      by_cases e : b = a
      · rw [if_pos e]
      · rw [if_neg e]
        rcases hb with hb | hb
        · exact h.dead b hb
        · exact absurd hb e
    · intro k; rw [hM]; exact nodup_del (h.ndM k)
    · intro k; rw [hL]; exact nodup_del (h.ndL k)
    · intro s; rw [hW]; exact nodup_del (h.ndW s)
    · intro s; rw [(exit_idxOf h hd hr s).1]; exact (h.ndI s).filter _
    · intro b
      unfold relMem relGmon relWmon
      rw [hR]
      by_cases e : b = a
      · rw [if_pos e]; simp [Rel.empty]
      · rw [if_neg e]; exact h.ndR b

theorem inv_step {st : State} (h : Inv st) (op : Op) : Inv (step st op).1 := by
  cases op with
  | join s g as => exact inv_join h s g as
  | leave s g as => exact inv_leave h s g as
  | monitor g a => exact inv_monitor h g a
  | monitorScope s a => exact inv_monitorScope h s a
  | demonitor g a => exact inv_demonitor h g a
  | demonitorScope s a => exact inv_demonitorScope h s a
  | exit a => exact inv_exit h a
  | newRemote a => exact { h with }
  | drain a => exact h

theorem inv_run {st : State} (h : Inv st) (ops : List Op) : Inv (run st ops) := by
  induction ops generalizing st with
  | nil => exact h
  | cons op ops ih => exact ih (inv_step h op)

end Pg
