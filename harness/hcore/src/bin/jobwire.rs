//! C13 (TTL clause) correspondence harness, E-PURE: the wire format of `JobOptions`
//! (`BytesConvertable`, ractor's `cluster` feature) — what a job's TTL looks like after the job crossed a
//! node boundary to a remote factory.
//!
//! usage: jobwire --seed S --cases N --out DIR [--replay-ops f1,f2,..] [--only-replay 1]
//!
//! ops:  `jo <ttl_ns|->`     JobOptions::new(ttl) -> into_bytes -> from_bytes
//!                           -> `len=<bytes> wire=<ttl field, u64> back=<ttl_ns|-> submit_same=<0|1>`
//!       `jobytes <hex>`     from_bytes of an arbitrary byte string -> `back=<ttl_ns|->`

use hutil::{Args, Log, Rng, Stats};
use ractor::factory::JobOptions;
use ractor::BytesConvertable;
use std::time::Duration;

fn dur(ns: u128) -> Duration {
    Duration::new((ns / 1_000_000_000) as u64, (ns % 1_000_000_000) as u32)
}

fn show(t: Option<Duration>) -> String {
    match t {
        Some(d) => d.as_nanos().to_string(),
        None => "-".to_string(),
    }
}

fn exec(op: &str) -> String {
    let ws: Vec<&str> = op.split_whitespace().collect();
    match ws.as_slice() {
        ["jo", ttl] => {
            let ttl = if *ttl == "-" { None } else { Some(dur(ttl.parse().unwrap())) };
            let o = JobOptions::new(ttl);
            let submit = o.submit_time();
            let bytes = o.into_bytes();
            let wire = if bytes.len() == 16 { u64::from_be_bytes(bytes[8..16].try_into().unwrap()).to_string() } else { "?".into() };
            let len = bytes.len();
            let back = JobOptions::from_bytes(bytes);
            format!("len={len} wire={wire} back={} submit_same={}", show(back.ttl()), (back.submit_time() == submit) as u8)
        }
        ["jobytes", hex] => {
            let h = if *hex == "-" { "" } else { hex };
            let bytes: Vec<u8> = (0..h.len() / 2).map(|i| u8::from_str_radix(&h[2 * i..2 * i + 2], 16).unwrap()).collect();
            let back = JobOptions::from_bytes(bytes);
            format!("back={}", show(back.ttl()))
        }
        _ => "badop".to_string(),
    }
}

fn main() {
    let args = Args::parse();
    let seed = args.u64("seed", 1);
    let cases = if args.u64("only-replay", 0) == 1 { 0 } else { args.u64("cases", 300) };
    let replay = args.str("replay-ops", "");
    let out = args.str("out", "/tmp/factory-jobwire-out");
    let mut log = Log::create(std::path::Path::new(&out)).unwrap();
    let mut st = Stats::default();
    for f in replay.split(',').filter(|s| !s.is_empty()) {
        for line in std::fs::read_to_string(f).unwrap_or_default().lines() {
            let line = line.trim();
            if line.is_empty() || line.starts_with('#') {
                continue;
            }
            st.bump("corpus_op");
            let r = exec(line);
            log.rec(line.to_string(), r);
        }
    }
    let mut rng = Rng::new(seed);
    let dmax = Duration::MAX.as_nanos();
    let two64 = 1u128 << 64;
    let corners: Vec<u128> = vec![0, 1, 2, 999, 1_000_000, 1_000_000_000, two64 - 2, two64 - 1, two64, two64 + 1, 2 * two64, 3 * two64 + 7, dmax - 1, dmax];
    for k in 0..cases {
        let op = match rng.below(10) {
            0 => "jo -".to_string(),
            1..=3 => format!("jo {}", corners[(k as usize + rng.below(3) as usize) % corners.len()]),
            4..=7 => format!("jo {}", match rng.below(4) {
                0 => rng.below(5) as u128,
                1 => rng.below(1_000_000_000_000) as u128,
                2 => two64 - 1 - rng.below(3) as u128 + rng.below(6) as u128,
                _ => (rng.below(u64::MAX) as u128) * (1 + rng.below(1 << 20) as u128),
            }.min(dmax)),
            _ => {
                let n = *rng.pick(&[0usize, 1, 8, 15, 16, 16, 16, 17, 32]);
                let mut h = String::new();
                for i in 0..n {
                    let b = if i >= 8 && rng.chance(1, 2) { 0 } else { rng.below(256) as u8 };
                    h.push_str(&format!("{b:02x}"));
                }
                format!("jobytes {}", if h.is_empty() { "-".to_string() } else { h })
            }
        };
        st.bump(&format!("op_{}", op.split(' ').next().unwrap()));
        if op == "jo 0" {
            st.bump("zero_ttl");
        }
        let r = exec(&op);
        log.rec(op, r);
    }
    st.write_json(&log.dir.join("stats.json"));
    log.finish();
}
