import RactorModel.Lemmas.Handshake
import RactorModel.Lemmas.Election

/-! The handshake steps are the `NodeServerState` operations of `Model/Election.lean` (the ones
tied to `ractor_cluster/src/node.rs` by the C18 correspondence run) applied to the node's view
of the world. -/

namespace Election

/-- node A's `NodeServerState` in world `w`: one registered session per connection still open
on A (a closed session's actor has stopped and was removed) -/
def sessA (nameB : String) (l : Link) : Session :=
  ⟨l.c.idA, !l.c.aInit, some nameB, nz l.c.nonce, l.authA⟩

def nsOfA (nameA nameB : String) (w : List Link) : NS :=
  { thisName := nameA, sessions := (w.filter (·.openA)).map (sessA nameB) }

theorem nsOfA_candidates (nameA nameB : String) (w : List Link) :
    (nsOfA nameA nameB w).candidatesFor nameB true = (activeA w).map viewA := by
  unfold NS.candidatesFor nsOfA activeA
  simp only [List.filter_map, List.map_map, List.filter_filter]
  congr 1
  apply List.filter_congr
  intro l _
  simp [sessA, Bool.and_comm]

theorem nsOfA_markAuth (nameA nameB : String) (w : List Link) (a : Nat) :
    (nsOfA nameA nameB w).markAuth a = nsOfA nameA nameB (markA w a) := by
  unfold NS.markAuth nsOfA markA
  simp only [List.filter_map, List.map_map]
  congr 1
  have : (fun l : Link => l.openA) ∘ (fun l : Link => if l.c.idA == a then { l with authA := true } else l)
      = (fun l : Link => l.openA) := by
    funext l; simp only [Function.comp]; split <;> rfl
  rw [this]
  apply List.map_congr_left
  intro l _
  simp only [Function.comp, sessA]
  by_cases hc : (l.c.idA == a) = true <;> simp [hc]

theorem nsOfA_find (nameA nameB : String) (w : List Link) (a : Nat) (h : pendingA w a = true) :
    ∃ s, (nsOfA nameA nameB w).find a = some s ∧ s.peerName = some nameB := by
  unfold pendingA at h
  rw [List.any_eq_true] at h
  obtain ⟨l, hl, hc⟩ := h
  simp only [Bool.and_eq_true, beq_iff_eq, Bool.not_eq_true'] at hc
  unfold NS.find nsOfA
  have hin : sessA nameB l ∈ (w.filter (·.openA)).map (sessA nameB) :=
    List.mem_map.mpr ⟨l, List.mem_filter.mpr ⟨hl, hc.1.2⟩, rfl⟩
  cases hf : ((w.filter (·.openA)).map (sessA nameB)).find? (·.id == a) with
  | none =>
    rw [List.find?_eq_none] at hf
    exact absurd (hf _ hin) (by simp [sessA, hc.1.1])
  | some s =>
    refine ⟨s, rfl, ?_⟩
    obtain ⟨l', _, rfl⟩ := List.mem_map.mp (List.mem_of_find?_eq_some hf)
    rfl

theorem nsOfA_losers (nameA nameB : String) (w : List Link) (el : List Nat) :
    (nsOfA nameA nameB w).losersOf nameB el =
      (w.filter (fun l => l.authA && l.openA && !el.contains l.c.idA)).map (·.c.idA) := by
  unfold NS.losersOf nsOfA
  simp only [List.filter_map, List.map_map, List.filter_filter]
  have hm : (fun x : Session => x.id) ∘ sessA nameB = fun l : Link => l.c.idA := by funext l; rfl
  rw [hm]
  congr 1
  apply List.filter_congr
  intro l _
  simp only [Function.comp, sessA]
  cases l.authA <;> cases l.openA <;> simp

/-- `commit_authenticated` on node A's state = the `authA` step: it elects among
`activeA (markA w a)` with node A's ordering and names as losers exactly the sessions the step
closes. -/
theorem commit_is_stepAuthA (nameA nameB : String) (w : List Link) (a : Nat)
    (h : pendingA w a = true) :
    ∃ st', (nsOfA nameA nameB w).commit a =
      some (st', (electA (nameOrd nameB nameA) (activeA (markA w a))).contains a,
        ((markA w a).filter (fun l => l.authA && l.openA &&
          !(electA (nameOrd nameB nameA) (activeA (markA w a))).contains l.c.idA)).map (·.c.idA)) := by
  obtain ⟨s, hs, hp⟩ := nsOfA_find nameA nameB w a h
  unfold NS.commit
  rw [hs]; simp only [hp]
  rw [nsOfA_markAuth, nsOfA_candidates, nsOfA_losers]
  exact ⟨_, rfl⟩


/-! ### `check_candidate` = the `preA` step -/

theorem filter_or_perm {α : Type} (p q : α → Bool) (l : α) (hp : p l = false) :
    ∀ (w : List α), w.filter q = [l] →
      (w.filter (fun x => p x || q x)).Perm (w.filter p ++ [l]) := by
  intro w
  induction w with
  | nil => intro h; simp at h
  | cons x t ih =>
    intro h
    cases hqx : q x
    · rw [List.filter_cons, hqx] at h
      simp only [Bool.false_eq_true, if_false] at h
      have ih' := ih h
      simp only [List.filter_cons, hqx, Bool.or_false]
      cases hpx : p x
      · simpa using ih'
      · simpa using ih'.cons x
    · rw [List.filter_cons, hqx] at h
      simp only [if_true] at h
      have hx : x = l := by injection h
      have ht : t.filter q = [] := by injection h
      have hcongr : t.filter (fun x => p x || q x) = t.filter p := by
        apply List.filter_congr
        intro y hy
        have : q y = false := by
          rw [List.filter_eq_nil_iff] at ht
          simpa using ht y hy
        simp [this]
      subst hx
      simp only [List.filter_cons, hqx, hp, Bool.or_true, if_true, hcongr, Bool.false_eq_true, if_false]
      exact (List.perm_append_singleton x _).symm

theorem candA_perm (w : List Link) (a : Nat) (hnd : ((w.map (·.c)).map (·.idA)).Nodup) (l : Link)
    (hl : l ∈ w) (hid : l.c.idA = a) (ho : l.openA = true) (hna : l.authA = false) :
    (candA w a).Perm (activeA w ++ [l.c]) := by
  unfold candA activeA
  have hq : w.filter (fun x => x.c.idA == a && x.openA) = [l] := by
    have hnd' : (w.map (fun x => x.c.idA)).Nodup := by rw [List.map_map] at hnd; exact hnd
    have h1 := filter_key_singleton (fun x : Link => x.c.idA) hl hnd'
    have h2 : w.filter (fun x => x.c.idA == a && x.openA) =
        (w.filter (fun c => [l.c.idA].contains c.c.idA)).filter (·.openA) := by
      rw [List.filter_filter]; apply List.filter_congr; intro x _
      cases x.openA <;> simp [hid]
      by_cases hxa : x.c.idA = a
      · simp [hxa]
      · have : ¬ a = x.c.idA := fun h => hxa h.symm
        simp [hxa, this]
    rw [h2, h1]; simp [ho]
  have hpred : w.filter (fun x => (x.authA || x.c.idA == a) && x.openA) =
      w.filter (fun x => (x.authA && x.openA) || (x.c.idA == a && x.openA)) := by
    apply List.filter_congr; intro x _
    cases x.authA <;> cases x.openA <;> simp
  rw [hpred]
  have := filter_or_perm (fun x : Link => x.authA && x.openA) (fun x => x.c.idA == a && x.openA) l
    (by simp [hna]) w hq
  simpa using this.map (·.c)

/-- `check_candidate` for a session that has not authenticated yet answers
`OtherConnectionContinues` (the session then closes itself) exactly when the `preA` step closes
it: when it would not be elected among the authenticated open sessions plus itself. -/
theorem checkCandidate_is_stepPreA (nameA nameB : String) (w : List Link) (a : Nat)
    (hnd : ((w.map (·.c)).map (·.idA)).Nodup) (h : pendingA w a = true) :
    ((nsOfA nameA nameB w).checkCandidate a = .otherContinues) ↔
      (electA (nameOrd nameB nameA) (candA w a)).contains a = false := by
  -- the pending link
  have h' := h
  unfold pendingA at h'
  rw [List.any_eq_true] at h'
  obtain ⟨l, hl, hc⟩ := h'
  simp only [Bool.and_eq_true, beq_iff_eq, Bool.not_eq_true'] at hc
  obtain ⟨⟨hid, ho⟩, hna⟩ := hc
  -- the session `find` returns is this link's
  have hfind : (nsOfA nameA nameB w).find a = some (sessA nameB l) := by
    unfold NS.find nsOfA
    have hnd' : (w.map (fun x => x.c.idA)).Nodup := by rw [List.map_map] at hnd; exact hnd
    cases hf : ((w.filter (·.openA)).map (sessA nameB)).find? (·.id == a) with
    | none =>
      rw [List.find?_eq_none] at hf
      exact absurd (hf _ (List.mem_map.mpr ⟨l, List.mem_filter.mpr ⟨hl, ho⟩, rfl⟩)) (by simp [sessA, hid])
    | some s =>
      obtain ⟨l', hl', rfl⟩ := List.mem_map.mp (List.mem_of_find?_eq_some hf)
      have hid' : l'.c.idA = a := by simpa [sessA] using List.find?_some hf
      have : l' = l := nodup_map_inj' (fun x : Link => x.c.idA) hnd' (List.mem_filter.mp hl').1 hl (hid'.trans hid.symm)
      rw [this]
  have hperm := candA_perm w a hnd l hl hid ho hna
  have hel : (electA (nameOrd nameB nameA) (candA w a)).contains a =
      (elect (nameOrd nameB nameA) ((activeA w).map viewA ++ [viewA l.c])).contains a := by
    unfold electA
    have hp2 : ((candA w a).map viewA).Perm ((activeA w).map viewA ++ [viewA l.c]) := by
      simpa using hperm.map viewA
    have hp3 := (pipeline_perm (nameOrd nameB nameA) hp2).map (·.id)
    rw [← elect_eq_pipeline, ← elect_eq_pipeline] at hp3
    have := hp3.mem_iff (a := a)
    cases h1 : (elect (nameOrd nameB nameA) ((candA w a).map viewA)).contains a <;>
      cases h2 : (elect (nameOrd nameB nameA) ((activeA w).map viewA ++ [viewA l.c])).contains a <;>
      simp_all
  rw [hel]
  unfold NS.checkCandidate
  rw [hfind]
  simp only [sessA, hna, nsOfA_candidates]
  have htc : Session.toCand ⟨l.c.idA, !l.c.aInit, some nameB, nz l.c.nonce, false⟩ = viewA l.c := rfl
  rw [htc]
  have hthis : (nsOfA nameA nameB w).thisName = nameA := rfl
  rw [hthis]
  cases hcont : (elect (nameOrd nameB nameA) ((activeA w).map viewA ++ [viewA l.c])).contains a <;>
    simp <;> split <;> simp_all

end Election
