import RactorModel.Lemmas.ExitRace

/-!
Progress (no lost wake-up), monotonicity and once-only lemmas for the `ExitRace` model.
-/

namespace ExitRace

/-- program counter of waiter `i` -/
def pcOf (g : G) (i : Nat) : Option WPc := (g.waiters[i]?).map (·.pc)

/-- steps waiter `i` still needs (0 for a returned / abandoned / non-existent waiter) -/
def remaining (g : G) (i : Nat) : Nat :=
  match pcOf g i with
  | some pc => pc.rank
  | none => 0

def isReturned (g : G) (i : Nat) : Bool :=
  match pcOf g i with
  | some (.returned _) => true
  | _ => false

def isAbandoned (g : G) (i : Nat) : Bool :=
  match pcOf g i with
  | some .abandoned => true
  | _ => false

/-! ### `Notify` operations never touch a waiter's program counter -/

theorem wakeAll_pcs (ws : List Waiter) : (wakeAll ws).map (·.pc) = ws.map (·.pc) := by
  simp only [wakeAll, List.map_map]
  apply List.map_congr_left
  intro w _
  simp only [Function.comp]
  split <;> rfl

theorem wakeOne_pcs {ws ws' : List Waiter} (e : wakeOne ws = some ws') :
    ws'.map (·.pc) = ws.map (·.pc) := by
  induction ws generalizing ws' with
  | nil => simp [wakeOne] at e
  | cons a l ih =>
    simp only [wakeOne] at e
    split at e
    · simp only [Option.some.injEq] at e; subst e; rfl
    · simp only [Option.map_eq_some_iff] at e
      obtain ⟨l', hl', rfl⟩ := e
      simp [ih hl']

theorem notifyOne_pcs (sh : Sh) (ws : List Waiter) :
    (notifyOne sh ws).2.map (·.pc) = ws.map (·.pc) := by
  unfold notifyOne
  split
  · rename_i ws' e; exact wakeOne_pcs e
  · rfl

theorem stepSet_pcs (sh : Sh) (ws : List Waiter) (c : SPc) :
    (stepSet sh ws c).2.1.map (·.pc) = ws.map (·.pc) := by
  cases c <;> simp only [stepSet] <;> (try split) <;> first | rfl | exact wakeAll_pcs ws | exact notifyOne_pcs sh ws

theorem pc_of_map_eq {ws ws' : List Waiter} (h : ws'.map (·.pc) = ws.map (·.pc)) (i : Nat) :
    (ws'[i]?).map (·.pc) = (ws[i]?).map (·.pc) := by
  have := congrArg (fun l => l[i]?) h
  simpa [List.getElem?_map] using this

theorem stepExiter_pcs (sh : Sh) (ws : List Waiter) (ex : Exiter) :
    (stepExiter sh ws ex).2.1.map (·.pc) = ws.map (·.pc) := by
  obtain ⟨pc, post, lc⟩ := ex
  cases pc <;> simp only [stepExiter] <;>
    first
    | rfl
    | (rename_i c; have := stepSet_pcs sh ws c; revert this; generalize stepSet sh ws c = r;
       obtain ⟨a, b, c'⟩ := r; intro this; cases c' <;> exact this)
    | (rename_i c rest; have := stepSet_pcs sh ws c; revert this; generalize stepSet sh ws c = r;
       obtain ⟨a, b, c'⟩ := r; intro this; cases c' <;> exact this)

theorem stepSetter_pcs (sh : Sh) (ws : List Waiter) (t : Setter) :
    (stepSetter sh ws t).2.1.map (·.pc) = ws.map (·.pc) := by
  obtain ⟨call, rest⟩ := t
  cases call with
  | some c => simp only [stepSetter]; exact stepSet_pcs sh ws c
  | none =>
    cases rest with
    | nil => rfl
    | cons s rest => simp only [stepSetter]; exact stepSet_pcs sh ws (.publish s)

theorem pcOf_of_pcs {g g' : G} (h : g'.waiters.map (·.pc) = g.waiters.map (·.pc)) (i : Nat) :
    pcOf g' i = pcOf g i := pc_of_map_eq h i

theorem pcOf_set_ne (g : G) (sh : Sh) (k i : Nat) (x : Waiter) (hk : k ≠ i) :
    pcOf { g with sh := sh, waiters := g.waiters.set k x } i = pcOf g i := by
  simp [pcOf, List.getElem?_set_ne hk]

/-- Only waiter `i`'s own steps (and its abandonment) change its program counter. -/
theorem other_steps_keep_pc (g : G) (tid : Tid) (i : Nat) (h1 : tid ≠ .w i) (h2 : tid ≠ .abandon i) :
    pcOf (step g tid) i = pcOf g i := by
  cases tid with
  | e => exact pcOf_of_pcs (by simp only [step]; exact stepExiter_pcs _ _ _) i
  | s k =>
    simp only [step]
    split
    · rfl
    · exact pcOf_of_pcs (by exact stepSetter_pcs _ _ _) i
  | w k =>
    have hk : k ≠ i := fun e => h1 (e ▸ rfl)
    simp only [step]
    split
    · rfl
    · exact pcOf_set_ne g _ k i _ hk
  | abandon k =>
    have hk : k ≠ i := fun e => h2 (e ▸ rfl)
    simp only [step]
    split
    · rfl
    · rename_i w hw
      split
      · rfl
      · rfl
      · split
        · have hp := notifyOne_pcs g.sh (g.waiters.set k { w with pc := .abandoned })
          have := pcOf_of_pcs (g := { g with waiters := g.waiters.set k { w with pc := .abandoned } })
            (g' := { g with sh := (notifyOne g.sh (g.waiters.set k { w with pc := .abandoned })).1,
                            waiters := (notifyOne g.sh (g.waiters.set k { w with pc := .abandoned })).2 }) hp i
          exact this.trans (pcOf_set_ne g g.sh k i _ hk)
        · exact pcOf_set_ne g g.sh k i _ hk

theorem pcOf_own_step (g : G) (i : Nat) (w : Waiter) (hi : g.waiters[i]? = some w) :
    pcOf (step g (.w i)) i = some (stepWaiter g.sh (okNow g) w).2.pc := by
  have hlt : i < g.waiters.length := (List.getElem?_eq_some_iff.mp hi).1
  simp [pcOf, step, hi, List.getElem?_set_self hlt]

/-- The exiter stays finished. -/
theorem finished_step (g : G) (tid : Tid) (h : g.exiter.finished = true) :
    (step g tid).exiter.finished = true := by
  cases tid with
  | e =>
    obtain ⟨sh, ex, setters, ws⟩ := g
    obtain ⟨pc, post, lc⟩ := ex
    simp only [step]
    cases pc <;> simp only [Exiter.finished, Bool.false_eq_true] at h
    · rename_i c rest
      simp only [stepExiter]
      generalize stepSet sh ws c = r
      obtain ⟨a, b, c'⟩ := r
      cases c' with
      | some c'' => rfl
      | none => cases rest <;> rfl
    · rfl
  | s k => simp only [step]; split <;> exact h
  | w k => simp only [step]; split <;> exact h
  | abandon k =>
    simp only [step]
    split
    · exact h
    · split
      · exact h
      · exact h
      · split <;> exact h

theorem finished_stage {ex : Exiter} (h : ex.finished = true) : ex.pc.stage = 15 := by
  obtain ⟨pc, post, lc⟩ := ex
  cases pc <;> simp only [Exiter.finished, Bool.false_eq_true] at h <;> rfl

/-- **Progress.** Once the exiter has finished, every step of a waiter that has not returned
moves it strictly closer to returning: it is never blocked. -/
theorem waiter_progress (g : G) (i : Nat) (h : Inv g) (hf : g.exiter.finished = true)
    (hr : 0 < remaining g i) : remaining (step g (.w i)) i < remaining g i := by
  cases hi : g.waiters[i]? with
  | none => simp [remaining, pcOf, hi] at hr
  | some w =>
    have hwo := h.ws w (List.mem_of_getElem? hi)
    have h15 := finished_stage hf
    have hst : g.sh.status = stStopped := h.sh.s12 (by omega)
    have e1 : remaining g i = w.pc.rank := by simp [remaining, pcOf, hi]
    have e2 : remaining (step g (.w i)) i = (stepWaiter g.sh (okNow g) w).2.pc.rank := by
      simp [remaining, pcOf_own_step g i w hi]
    rw [e1] at hr ⊢; rw [e2]
    obtain ⟨pc, wk⟩ := w
    cases pc with
    | start => simp [stepWaiter, WPc.rank]
    | created snap => simp [stepWaiter, WPc.rank, hst]
    | registered =>
      have hp := hwo.park (by omega)
      simp only [Waiter.parked, Bool.and_eq_false_iff, beq_eq_false_iff_ne, ne_eq, not_true_eq_false, false_or] at hp
      have : (wk != Woken.no) = true := by simpa using hp
      simp [stepWaiter, WPc.rank, this]
    | returned ok => simp [WPc.rank] at hr
    | abandoned => simp [WPc.rank] at hr

/-- A waiter whose remaining steps reached 0 without being abandoned has returned. -/
theorem returned_of_remaining_zero (g : G) (i : Nat) (hi : i < g.waiters.length)
    (h0 : remaining g i = 0) (ha : isAbandoned g i = false) : isReturned g i = true := by
  unfold remaining at h0; unfold isAbandoned at ha; unfold isReturned
  have : pcOf g i = some g.waiters[i].pc := by simp [pcOf, List.getElem?_eq_getElem hi]
  rw [this] at h0 ha ⊢
  generalize g.waiters[i].pc = pc at *
  cases pc <;> simp_all [WPc.rank]

theorem length_step (g : G) (tid : Tid) : (step g tid).waiters.length = g.waiters.length := by
  have key : ∀ g' : G, g'.waiters.map (·.pc) = g.waiters.map (·.pc) → g'.waiters.length = g.waiters.length :=
    fun g' h => by simpa using congrArg List.length h
  cases tid with
  | e => exact key _ (by simp only [step]; exact stepExiter_pcs _ _ _)
  | s k => simp only [step]; split; rfl; exact key _ (stepSetter_pcs _ _ _)
  | w k => simp only [step]; split; rfl; simp
  | abandon k =>
    simp only [step]
    split
    · rfl
    · split
      · rfl
      · rfl
      · split
        · have := congrArg List.length (notifyOne_pcs g.sh (g.waiters.set k { (‹Waiter›) with pc := .abandoned }))
          simpa using this
        · simp

theorem stepWaiter_not_abandoned (sh : Sh) (fl : Bool) (w : Waiter) (h : w.pc ≠ .abandoned) :
    (stepWaiter sh fl w).2.pc ≠ .abandoned := by
  obtain ⟨pc, wk⟩ := w
  cases pc <;> simp only [stepWaiter] <;> (repeat' split) <;> simp_all

/-- own steps never abandon a waiter -/
theorem own_step_not_abandoned (g : G) (i : Nat) (ha : isAbandoned g i = false) :
    isAbandoned (step g (.w i)) i = false := by
  cases hi : g.waiters[i]? with
  | none =>
    have : step g (.w i) = g := by simp [step, hi]
    rw [this]; exact ha
  | some w =>
    have hw : w.pc ≠ .abandoned := by
      intro e
      simp [isAbandoned, pcOf, hi, e] at ha
    have := stepWaiter_not_abandoned g.sh (okNow g) w hw
    unfold isAbandoned
    rw [pcOf_own_step g i w hi]
    generalize (stepWaiter g.sh (okNow g) w).2.pc = pc at *
    cases pc <;> simp_all

/-- **No lost wake-up (fairness form).** From any reachable state in which the exiter has
finished, a waiter that is scheduled three times (whatever else runs in between, including other
waiters being abandoned) and is not itself abandoned has returned. -/
theorem returns_when_scheduled (g : G) (i : Nat) (sched : List Tid) (h : Inv g)
    (hf : g.exiter.finished = true) (hi : i < g.waiters.length) (ha : isAbandoned g i = false)
    (hcount : remaining g i ≤ sched.count (.w i)) (hna : Tid.abandon i ∉ sched) :
    isReturned (run g sched) i = true := by
  induction sched generalizing g with
  | nil =>
    simp only [List.count_nil, Nat.le_zero_eq] at hcount
    exact returned_of_remaining_zero g i hi hcount ha
  | cons t l ih =>
    simp only [run, List.foldl_cons]
    have hna' : Tid.abandon i ∉ l := fun hm => hna (List.mem_cons_of_mem _ hm)
    have hta : t ≠ .abandon i := fun e => hna (e ▸ List.mem_cons_self)
    have hlen := length_step g t
    by_cases ht : t = .w i
    · subst ht
      simp only [List.count_cons_self] at hcount
      refine ih (step g (.w i)) (inv_step g _ h) (finished_step g _ hf) (by omega)
        (own_step_not_abandoned g i ha) ?_ hna'
      by_cases hr : 0 < remaining g i
      · have := waiter_progress g i h hf hr; omega
      · have h0 : remaining g i = 0 := by omega
        -- a returned waiter stays where it is
        have : remaining (step g (.w i)) i = 0 := by
          cases hw : g.waiters[i]? with
          | none =>
            have : step g (.w i) = g := by simp [step, hw]
            rw [this]; exact h0
          | some w =>
            have e1 : remaining g i = w.pc.rank := by simp [remaining, pcOf, hw]
            have e2 : remaining (step g (.w i)) i = (stepWaiter g.sh (okNow g) w).2.pc.rank := by
              simp [remaining, pcOf_own_step g i w hw]
            rw [e1] at h0; rw [e2]
            obtain ⟨pc, wk⟩ := w
            cases pc <;> simp_all [WPc.rank, stepWaiter]
        omega
    · have hk := other_steps_keep_pc g t i ht hta
      have hc : (t :: l).count (.w i) = l.count (.w i) := by
        simp [List.count_cons, ht]
      have hr : remaining (step g t) i = remaining g i := by simp [remaining, hk]
      have hab : isAbandoned (step g t) i = isAbandoned g i := by simp [isAbandoned, hk]
      refine ih (step g t) (inv_step g _ h) (finished_step g _ hf) (by omega) (hab ▸ ha) ?_ hna'
      rw [hr]; omega

/-! ### Once-only elections and monotone status (any `set_status` callers, any values) -/

structure OnceInv (sh : Sh) : Prop where
  cleanup : sh.cleanupRuns ≤ (if stStopping ≤ sh.status then 1 else 0)
  notify : sh.notifyRuns ≤ (if stStopped ≤ sh.status then 1 else 0)

theorem stepSet_once (sh : Sh) (ws : List Waiter) (c : SPc) (h : OnceInv sh) :
    OnceInv (stepSet sh ws c).1 ∧ sh.status ≤ (stepSet sh ws c).1.status := by
  obtain ⟨h1, h2⟩ := h
  cases c <;> simp only [stepSet, notifyOne] <;> (repeat' split) <;>
    (refine ⟨⟨?_, ?_⟩, ?_⟩ <;> simp only [stStopping, stStopped] at * <;> grind)

theorem step_once (g : G) (tid : Tid) (h : OnceInv g.sh) :
    OnceInv (step g tid).sh ∧ g.sh.status ≤ (step g tid).sh.status := by
  have flagsOnly : ∀ sh' : Sh, sh'.status = g.sh.status → sh'.cleanupRuns = g.sh.cleanupRuns →
      sh'.notifyRuns = g.sh.notifyRuns → OnceInv sh' ∧ g.sh.status ≤ sh'.status := by
    intro sh' e1 e2 e3
    exact ⟨⟨by rw [e1, e2]; exact h.cleanup, by rw [e1, e3]; exact h.notify⟩, by omega⟩
  cases tid with
  | e =>
    obtain ⟨sh, ex, setters, ws⟩ := g
    obtain ⟨pc, post, lc⟩ := ex
    simp only [step]
    cases pc <;> simp only [stepExiter] <;>
      first
      | exact flagsOnly _ rfl rfl rfl
      | (rename_i c; have := stepSet_once sh ws c h; revert this
         generalize stepSet sh ws c = r; obtain ⟨a, b, c'⟩ := r; intro this; cases c' <;> exact this)
      | (rename_i c rest; have := stepSet_once sh ws c h; revert this
         generalize stepSet sh ws c = r; obtain ⟨a, b, c'⟩ := r; intro this; cases c' <;> exact this)
  | s k =>
    simp only [step]
    split
    · exact flagsOnly _ rfl rfl rfl
    · rename_i t ht
      obtain ⟨call, rest⟩ := t
      cases call with
      | some c => simp only [stepSetter]; exact stepSet_once g.sh g.waiters c h
      | none =>
        cases rest with
        | nil => exact flagsOnly _ rfl rfl rfl
        | cons s rest => simp only [stepSetter]; exact stepSet_once g.sh g.waiters (.publish s) h
  | w k =>
    simp only [step]
    split
    · exact flagsOnly _ rfl rfl rfl
    · rename_i w hw
      obtain ⟨pc, wk⟩ := w
      cases pc <;> simp only [stepWaiter] <;> (repeat' split) <;> exact flagsOnly _ rfl rfl rfl
  | abandon k =>
    simp only [step]
    split
    · exact flagsOnly _ rfl rfl rfl
    · split
      · exact flagsOnly _ rfl rfl rfl
      · exact flagsOnly _ rfl rfl rfl
      · split
        · simp only [notifyOne]; split <;> exact flagsOnly _ rfl rfl rfl
        · exact flagsOnly _ rfl rfl rfl

theorem run_once (g : G) (sched : List Tid) (h : OnceInv g.sh) :
    OnceInv (run g sched).sh ∧ g.sh.status ≤ (run g sched).sh.status := by
  induction sched generalizing g with
  | nil => exact ⟨h, Nat.le_refl _⟩
  | cons t l ih =>
    have h1 := step_once g t h
    have h2 := ih (step g t) h1.1
    exact ⟨h2.1, Nat.le_trans h1.2 h2.2⟩

/-! ### The exiter itself always finishes -/

/-- The exiter is never blocked: each of its steps moves it to a strictly later stage of the exit
sequence, until it has finished. -/
theorem exiter_progress (g : G) (h : Inv g) (hf : g.exiter.finished = false) :
    g.exiter.pc.stage < (step g .e).exiter.pc.stage := by
  obtain ⟨hv, hs, hw, hset⟩ := h
  obtain ⟨sh, ex, setters, ws⟩ := g
  obtain ⟨pc, post, lateCalls⟩ := ex
  simp only at hv hs hw hf
  cases pc with
  | set1 c =>
    cases c <;> simp only [EPc.valid, Bool.false_eq_true, Bool.and_eq_true, beq_iff_eq, decide_eq_true_eq] at hv
    case publish s =>
      subst hv
      have h0 := hs.s0 rfl
      have : (decide (stStopping ≥ stStopping) && decide (sh.status < stStopping)) = true := by simp [h0]
      simp only [step, stepExiter, stepSet, this, if_true]
      simp [EPc.stage]
    case unregPid s p => simp [step, stepExiter, stepSet, EPc.stage]
    case unregName s p => simp [step, stepExiter, stepSet, EPc.stage]
    case pgDemon s p => simp [step, stepExiter, stepSet, EPc.stage]
    case pgLeave s p =>
      obtain ⟨rfl, hp⟩ := hv
      have : (stStopping == stStopped && decide (p < stStopped)) = false := by simp [stStopping, stStopped]
      cases post <;> simp [step, stepExiter, stepSet, afterCleanup, this, EPc.stage]
  | postStop => simp [step, stepExiter, EPc.stage]
  | set2 c =>
    cases c <;> simp only [EPc.valid, Bool.false_eq_true, Bool.and_eq_true, beq_iff_eq, decide_eq_true_eq] at hv
    case publish s =>
      subst hv
      have h1 := hs.s1 (by simp [EPc.stage])
      have e1 : (decide (stStopping ≥ stStopping) && decide (sh.status < stStopping)) = false := by
        rw [Bool.and_eq_false_iff]; right
        exact decide_eq_false (by simp only [stStopping, stStopped, EPc.stage] at *; omega)
      have e2 : (stStopping == stStopped && decide (sh.status < stStopped)) = false := by simp [stStopping, stStopped]
      simp only [step, stepExiter, stepSet, afterCleanup, e1, e2]
      simp [EPc.stage]
  | terminate => simp [step, stepExiter, EPc.stage]
  | notifySup => simp [step, stepExiter, EPc.stage]
  | unlink => simp [step, stepExiter, EPc.stage]
  | stopped => simp [step, stepExiter, EPc.stage]
  | set3 c =>
    cases c <;> simp only [EPc.valid, Bool.false_eq_true, Bool.and_eq_true, beq_iff_eq, decide_eq_true_eq] at hv
    case publish s =>
      subst hv
      have h1 := hs.s1 (by simp [EPc.stage])
      have h2 := hs.s11 (by simp [EPc.stage])
      have e1 : (decide (stStopped ≥ stStopping) && decide (sh.status < stStopping)) = false := by
        rw [Bool.and_eq_false_iff]; right
        exact decide_eq_false (by simp only [stStopping, stStopped, EPc.stage] at *; omega)
      have e2 : (stStopped == stStopped && decide (sh.status < stStopped)) = true := by simp [h2]
      simp only [step, stepExiter, stepSet, afterCleanup, e1, e2]
      simp [EPc.stage]
    case statusNotify => simp [step, stepExiter, stepSet, EPc.stage]
    case notifyWaiters => simp [step, stepExiter, stepSet, EPc.stage]
    case notifyOne =>
      simp only [step, stepExiter, stepSet]
      cases lateCalls <;> simp [lateEntry, EPc.stage]
  | late c rest => simp [Exiter.finished] at hf
  | done => simp [Exiter.finished] at hf


theorem stage_finished {g : G} (h : g.exiter.pc.stage = 15) : (run g []).exiter.finished = true := by
  show g.exiter.finished = true
  obtain ⟨sh, ex, st, ws⟩ := g
  obtain ⟨pc, post, lc⟩ := ex
  simp only at h ⊢
  cases pc <;> (try rename_i c; cases c) <;> simp [EPc.stage] at h <;> rfl

theorem other_steps_keep_exiter (g : G) (tid : Tid) (h : tid ≠ .e) : (step g tid).exiter = g.exiter := by
  cases tid with
  | e => exact absurd rfl h
  | s k => simp only [step]; split <;> rfl
  | w k => simp only [step]; split <;> rfl
  | abandon k =>
    simp only [step]
    split
    · rfl
    · split
      · rfl
      · rfl
      · split <;> rfl

/-- The exit sequence always completes: whatever else is scheduled in between, after 15 steps of
the exiter it has finished (`notify_one` of the final `set_status(Stopped)` executed). -/
theorem exiter_finishes (g : G) (sched : List Tid) (h : Inv g)
    (hcount : 15 - g.exiter.pc.stage ≤ sched.count .e) : (run g sched).exiter.finished = true := by
  induction sched generalizing g with
  | nil =>
    simp only [List.count_nil, Nat.le_zero_eq] at hcount
    exact stage_finished (g := g) (by have := stage_le g.exiter.pc; omega)
  | cons t l ih =>
    simp only [run, List.foldl_cons]
    by_cases ht : t = .e
    · subst ht
      simp only [List.count_cons_self] at hcount
      apply ih (step g .e) (inv_step g _ h)
      cases hf : g.exiter.finished
      · have := exiter_progress g h hf; omega
      · have h1 := finished_stage hf
        have h2 := finished_stage (finished_step g .e hf)
        omega
    · have hc : (t :: l).count .e = l.count .e := by simp [ht]
      apply ih (step g t) (inv_step g _ h)
      rw [other_steps_keep_exiter g t ht]; omega


/-! ### Initial states -/

theorem initial_init (post : Bool) (late : List Nat) (setters : List (List Nat)) (n : Nat)
    (h : settersOk setters = true) : Initial (init post late setters n) := by
  refine ⟨rfl, by simp [init, stStopping], rfl, rfl, ⟨rfl, rfl⟩, ?_, ?_⟩
  · intro w hw
    simp only [init, List.mem_replicate] at hw
    exact hw.2
  · simp only [settersBelowStopping, init, List.all_map]
    simp only [settersOk] at h
    rw [List.all_eq_true] at h ⊢
    intro l hl
    simp [Function.comp, h l hl]

theorem inv_initial (g : G) (h : Initial g) : Inv g := by
  obtain ⟨h1, h2, h3, h4, ⟨h5, h6⟩, h7, h8⟩ := h
  refine ⟨by simp [h1, EPc.valid], ?_, ?_, h8⟩
  · rw [h1]
    constructor <;> simp_all [EPc.stage, stStopping, stStopped] <;> omega
  · intro w hw
    rw [h7 w hw, h1]
    constructor <;> simp [EPc.stage, Waiter.parked]

theorem hasPostStop_run (g : G) (l : List Tid) : (run g l).exiter.hasPostStop = g.exiter.hasPostStop := by
  induction l generalizing g with
  | nil => rfl
  | cons t l ih =>
    simp only [run, List.foldl_cons] at ih ⊢
    rw [ih]
    cases t with
    | e =>
      obtain ⟨sh, ex, st, ws⟩ := g
      obtain ⟨pc, p, lc⟩ := ex
      simp only [step]
      cases pc <;> simp only [stepExiter] <;>
        first
        | rfl
        | (rename_i c; generalize stepSet sh ws c = r; obtain ⟨a, b, c'⟩ := r; cases c' <;> rfl)
        | (rename_i c rest; generalize stepSet sh ws c = r; obtain ⟨a, b, c'⟩ := r; cases c' <;> rfl)
    | s k => simp only [step]; split <;> rfl
    | w k => simp only [step]; split <;> rfl
    | abandon k =>
      simp only [step]
      split
      · rfl
      · split
        · rfl
        · rfl
        · split <;> rfl

theorem length_run (g : G) (l : List Tid) : (run g l).waiters.length = g.waiters.length := by
  induction l generalizing g with
  | nil => rfl
  | cons t l ih => simp only [run, List.foldl_cons] at ih ⊢; rw [ih, length_step]

end ExitRace
