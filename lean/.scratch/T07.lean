import RactorModel.Lemmas.GenAdmission
namespace C07
section XlateTie
open Generated.Admission GenAdmission

/-- `try_admit_message`, one iteration on the word `enc w` (pcs `aLoad`/`aCas` of the model):
closed ⇒ `None`; else exchange `w` for `w` with one more ticket. -/
theorem generated_try_admit_eq_model (enq : Except MessagingErr Unit) (w : Admission.Word)
    (h : w.count + 1 < 2 ^ 62) :
    ActorProperties.try_admit_message enq (st w)
      = if w.closed then .done none
        else .cas (enc w) (enc { w with count := w.count + 1 }) (some ()) := by
  have hc := closed_bit w (by omega)
  unfold ActorProperties.try_admit_message
  simp only [st, hc]
  rcases w with ⟨c, m, n⟩
  cases c
  · have : Rust.wAdd 64 (enc ⟨false, m, n⟩) 1 = enc ⟨false, m, n + 1⟩ := by
      unfold Rust.wAdd enc; cases m <;> simp at h ⊢ <;> omega
    simp [this]
  · simp

/-- `close_message_admission` (pc `dClose`): `fetch_or(CLOSED)` sets `closed`. -/
theorem generated_close_admission_eq_model (enq : Except MessagingErr Unit) (w : Admission.Word)
    (h : w.count < 2 ^ 62) :
    ActorProperties.close_message_admission enq (st w) = st { w with closed := true } := by
  simp [ActorProperties.close_message_admission, st, or_closed w h]

/-- `send_drain_marker`, one iteration (pcs `mLoad`/`mCas`/`mEnq`): the exchange is attempted
exactly under `Admission.markerCond`, sets `marker`, and the value returned on success is the
outcome of the enqueue with its error mapped to `SendErr(())`. -/
theorem generated_send_drain_marker_eq_model (enq : Except MessagingErr Unit) (w : Admission.Word)
    (h : w.count < 2 ^ 62) :
    ActorProperties.send_drain_marker enq (st w)
      = if Admission.markerCond w then
          .cas (enc w) (enc { w with marker := true }) (enq.mapError fun _ => MessagingErr.SendErr ())
        else .done (.ok ()) := by
  unfold ActorProperties.send_drain_marker Admission.markerCond
  simp only [st, closed_bit w h, marker_bit w h, count_bits w h]
  rcases w with ⟨c, m, n⟩
  cases c <;> cases m <;> simp
  by_cases hn : n = 0
  · subst hn
    simp [enc, consts.2.1, Rust.bor]
  · simp [hn]

/-- `MessageAdmission::drop` (pc `rel`): one ticket fewer, and the marker program is entered
iff the word seen was closed with exactly this ticket outstanding. -/
theorem generated_ticket_release_eq_model (enq : Except MessagingErr Unit) (w : Admission.Word)
    (h : w.count < 2 ^ 62) (hpos : 0 < w.count) :
    MessageAdmission.drop enq (st w)
      = (st { w with count := w.count - 1 }, w.closed && w.count == 1) := by
  unfold MessageAdmission.drop
  simp only [st, closed_bit w h, count_bits w h]
  rcases w with ⟨c, m, n⟩
  simp only at h hpos
  have hlt : enc ⟨c, m, n⟩ < 2 ^ 64 := by unfold enc; cases c <;> cases m <;> simp <;> omega
  have hge : 0 < enc ⟨c, m, n⟩ := by unfold enc; simp only; omega
  have h1 : Rust.wSub 64 (enc ⟨c, m, n⟩) 1 = enc ⟨c, m, n⟩ - 1 := by unfold Rust.wSub; omega
  have h2 : enc ⟨c, m, n⟩ - 1 = enc ⟨c, m, n - 1⟩ := by unfold enc; simp only; omega
  rw [h1, h2]
  cases c <;> cases hd : decide (n = 1) <;> simp_all

/-- the closure `drain` passes to `status.fetch_update` (pc `dStatus`): for a started actor
(`status ≠ Unstarted`) exactly the model's `if status < stStopping then stDraining`. -/
theorem generated_drain_status_update_eq_model (enq : Except MessagingErr Unit) (status : Nat) (hs : status ≠ 0) :
    (ActorProperties.drain_status_update enq status).getD status
      = if status < Admission.stStopping then Admission.stDraining else status := by
  unfold ActorProperties.drain_status_update
  simp only [ActorStatus.toNat, Admission.stStopping, Admission.stDraining, ne_eq, hs, not_false_eq_true,
    decide_true, Bool.true_and]
  by_cases h : status < 5 <;> simp [h]

theorem generated_status_discriminants :
    (ActorStatus.toNat .Draining, ActorStatus.toNat .Stopping, ActorStatus.toNat .Stopped)
      = (Admission.stDraining, Admission.stStopping, Admission.stStopped) := by decide
end XlateTie
end C07
