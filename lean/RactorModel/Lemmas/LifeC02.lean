import RactorModel.Lemmas.Life

/-! Simulation of the `Life` actor by the C02 automaton (`Life.C02.next`): the automaton's queue of
accepted, not yet handled messages is the user part of the model's mailbox, every `enter handle`
takes the oldest one, a poll that leaves the loop listening leaves the mailbox empty. -/

namespace Life.C02

theorem userItems_append (l1 l2 : List Item) : userItems (l1 ++ l2) = userItems l1 ++ userItems l2 := by
  induction l1 with
  | nil => rfl
  | cons x l ih => cases x <;> simp [userItems, ih]

/-- The actor is alive for the outside world: the automaton's queue is the user part of the mailbox. -/
structure Live (a : Actor) (s : St) : Prop where
  queue : s.queue = userItems a.msgQ
  over : s.over = false
  entered : s.entered = true

def Inv (a : Actor) (s : St) : Prop :=
  (a.phase = .fresh ∧ s.queue = [] ∧ a.msgQ = [] ∧ s.entered = false ∧ s.idle = false ∧ s.over = false) ∨
  (a.phase = .done ∧ s.over = true ∧ s.idle = false) ∨
  (a.phase ≠ .fresh ∧ a.phase ≠ .done ∧ Live a s ∧ (s.idle = true ↔ a.phase = .idle))

/-- Postcondition of everything a poll does: a loop left listening has an empty mailbox. -/
def P (a : Actor) (s : St) : Prop := Inv a s ∧ (a.phase = .idle → a.msgQ = [])

theorem P.done {a : Actor} {s : St} (h : a.phase = .done) (ho : s.over = true) (hi : s.idle = false) : P a s :=
  ⟨Or.inr (Or.inl ⟨h, ho, hi⟩), by rw [h]; intro h'; cases h'⟩

theorem P.live {a : Actor} {s : St} (h1 : a.phase ≠ .fresh) (h2 : a.phase ≠ .done) (hl : Live a s)
    (hi : s.idle = true ↔ a.phase = .idle) (he : a.phase = .idle → a.msgQ = []) : P a s :=
  ⟨Or.inr (Or.inr ⟨h1, h2, hl, hi⟩), he⟩

/-! ### the automaton on each kind of event -/

@[simp] theorem next_emit (s : St) (p : Nat) (e : SupEv) : next s (.emit p e) = .ok s := rfl
@[simp] theorem next_tick (s : St) (cb : Cb) : next s (.tick cb) = .ok s := rfl
@[simp] theorem next_supArrive (s : St) (e : SupEv) : next s (.supArrive e) = .ok s := rfl
@[simp] theorem next_supIs (s : St) (p : Option Nat) : next s (.supIs p) = .ok s := rfl
@[simp] theorem next_snap (s : St) (sn : Snap) : next s (.snap sn) = .ok s := rfl
@[simp] theorem next_isLocal (s : St) : next s .isLocal = .ok s := rfl
@[simp] theorem next_monFan (s : St) (r t : List Nat) (e : SupEv) : next s (.monFan r t e) = .ok s := rfl
@[simp] theorem next_instant (s : St) : next s .instant = .ok { s with entered := true } := rfl
@[simp] theorem next_treeKill (s : St) : next s .treeKill = .ok s := rfl
@[simp] theorem next_stopRet (s : St) (b : Bool) (r : Reason) (ok : Bool) : next s (.stopRet b r ok) = .ok s := rfl
@[simp] theorem next_killRet (s : St) (b ok : Bool) : next s (.killRet b ok) = .ok s := rfl
@[simp] theorem next_drainRet (s : St) (ok : Bool) : next s (.drainRet ok) = .ok s := rfl
@[simp] theorem next_fxJoin (s : St) (g : String) : next s (.fxJoin g) = .ok s := rfl
@[simp] theorem next_fxReply (s : St) (k v : Nat) (b : Bool) : next s (.fxReply k v b) = .ok s := rfl
@[simp] theorem next_fxForget (s : St) (k : Nat) (b : Bool) : next s (.fxForget k b) = .ok s := rfl
@[simp] theorem next_callRet (s : St) (k : Nat) (r : CallRes) : next s (.callRet k r) = .ok s := rfl
@[simp] theorem next_waitRet (s : St) (w : Nat) (b : Bool) : next s (.waitRet w b) = .ok s := rfl
@[simp] theorem next_cancelled (s : St) (cb : Cb) : next s (.cancelled cb) = .ok { s with idle := false } := rfl
@[simp] theorem next_aborted (s : St) : next s .aborted = .ok { s with idle := false } := rfl
@[simp] theorem next_dropped (s : St) : next s .dropped = .ok { s with idle := false, over := true } := rfl
@[simp] theorem next_join (s : St) (r : JoinRes) : next s (.join r) = .ok { s with idle := false, over := true } := rfl
@[simp] theorem next_sendRet (s : St) (b : Bool) (m : Nat) (ok : Bool) :
    next s (.sendRet b m ok) = .ok (if ok then { s with queue := s.queue ++ [.msg m] } else s) := by
  cases ok <;> rfl
@[simp] theorem next_callSent (s : St) (k : Nat) (ok : Bool) :
    next s (.callSent k ok) = .ok (if ok then { s with queue := s.queue ++ [.call k] } else s) := by
  cases ok <;> rfl

/-- the `idle` flag after `exit cb r` -/
def exitIdle (cb : Cb) (r : Res) : Bool := decide (r = .ok) && (cb == .postStart || cb == .handle || cb == .sup)

@[simp] theorem next_exit (s : St) (cb : Cb) (r : Res) :
    next s (.exit cb r) = .ok { s with idle := exitIdle cb r } := rfl

theorem next_enter_other (s : St) (cb : Cb) (x : Arg) (h : cb ≠ .handle) :
    next s (.enter cb x) = .ok { s with idle := false, entered := s.entered || cb == .preStart } := by
  cases cb <;> first | rfl | exact absurd rfl h

theorem next_enter_handle (s : St) (x : Arg) (q : List Arg) (ho : s.over = false) (hq : s.queue = x :: q) :
    next s (.enter .handle x) = .ok { s with queue := q, idle := false } := by
  simp [next, ho, hq]

theorem next_spawnRet_fail (s : St) (r : SpawnRet) (h1 : r ≠ .ok) (h2 : r ≠ .registered) :
    next s (.spawnRet r) = .ok { s with idle := false, over := s.over || s.entered } := by
  cases r <;> first | rfl | exact absurd rfl h1 | exact absurd rfl h2

theorem next_spawnRet_ok (s : St) : next s (.spawnRet .ok) = .ok s := rfl

/-! ### exit paths -/

theorem cleanup_acc (a : Actor) (e : Option SupEv) (s : St) :
    accepts next s (evs (cleanup a e).2) = .ok s := by
  unfold cleanup
  split
  · simp
  · cases e <;> cases hs : a.sup <;> cases hm : a.mons <;> simp [Actor.setStatus, hs, hm, notifyOuts, accepts_cons]

theorem finish_sim (a : Actor) (e : SupEv) (s : St) : Sim next P s (finish a e) := by
  refine ⟨{ s with idle := false, over := true }, ?_, P.done (by simp [finish, Actor.dropPorts]) rfl rfl⟩
  simp [finish, accepts_append next _ (cleanup_acc a (some e) s), accepts_cons]

theorem failSpawn_sim (a : Actor) (r : SpawnRet) (s : St) (h1 : r ≠ .ok) (h2 : r ≠ .registered)
    (he : s.entered = true) : Sim next P s (failSpawn a r) := by
  refine ⟨{ s with idle := false, over := s.over || s.entered }, ?_,
    P.done (by simp [failSpawn, Actor.dropPorts]) (by simp [he]) rfl⟩
  simp only [failSpawn, andThen_snd, evs_append, evs_cons_ev, evs_nil]
  rw [accepts_append next _ (cleanup_acc a none s), accepts_cons_ok next _ (next_spawnRet_fail s r h1 h2)]
  rfl

theorem killedOutsideLoop_sim (a : Actor) (s : St) : Sim next P s (killedOutsideLoop a) := by
  unfold killedOutsideLoop
  refine Sim.andThen next (R1 := fun _ s1 => s1 = s) ⟨s, by simp [handleSignal], rfl⟩ ?_
  intro a1 s1 h; subst h; exact finish_sim _ _ _

theorem killedInLoop_sim (a : Actor) (s : St) : Sim next P s (killedInLoop a) := by
  unfold killedInLoop
  refine Sim.andThen next (R1 := fun _ s1 => s1 = s) ⟨s, by simp [handleSignal], rfl⟩ ?_
  intro a1 s1 h; subst h; exact finish_sim _ _ _

/-! ### the message loop -/

theorem enterPostStop_sim (a : Actor) (r : Reason) (s : St) (hl : Live a s) : Sim next P s (enterPostStop a r) := by
  refine ⟨{ s with idle := false, entered := s.entered || (Cb.postStop == Cb.preStart) }, ?_, ?_⟩
  · simp only [enterPostStop, evs_cons_ev, evs_nil]
    rw [accepts_cons_ok next _ (next_enter_other s .postStop .none (by simp))]
    rfl
  · refine P.live (by simp [enterPostStop]) (by simp [enterPostStop]) ⟨?_, hl.over, by simp [hl.entered]⟩ ?_ (by simp [enterPostStop])
    · simpa [enterPostStop, Actor.setStatus] using hl.queue
    · simp [enterPostStop]

theorem listen_sim (a : Actor) (s : St) (hl : Live a s) (hi : s.idle = true) : Sim next P s (listen a) := by
  unfold listen
  split
  · exact killedInLoop_sim _ _
  · simp only []
    split
    · exact enterPostStop_sim _ _ _ ⟨by simpa using hl.queue, hl.over, hl.entered⟩
    · split
      · refine ⟨{ s with idle := false, entered := s.entered || (Cb.sup == Cb.preStart) }, ?_, ?_⟩
        · simp only [evs_cons_ev, evs_nil]
          rw [accepts_cons_ok next _ (next_enter_other s .sup _ (by simp))]
          rfl
        · exact P.live (by simp) (by simp) ⟨by simpa using hl.queue, hl.over, by simp [hl.entered]⟩ (by simp) (by simp)
      · split
        · rename_i m q hm
          have hm' : a.msgQ = .msg m :: q := hm
          have hq : s.queue = .msg m :: userItems q := by rw [hl.queue, hm']; rfl
          refine ⟨{ s with queue := userItems q, idle := false }, ?_, ?_⟩
          · simp only [evs_cons_ev, evs_nil]
            rw [accepts_cons_ok next _ (next_enter_handle s _ _ hl.over hq)]
            rfl
          · exact P.live (by simp) (by simp) ⟨by simp, hl.over, hl.entered⟩ (by simp) (by simp)
        · rename_i k q hm
          have hm' : a.msgQ = .call k :: q := hm
          have hq : s.queue = .call k :: userItems q := by rw [hl.queue, hm']; rfl
          refine ⟨{ s with queue := userItems q, idle := false }, ?_, ?_⟩
          · simp only [evs_cons_ev, evs_nil]
            rw [accepts_cons_ok next _ (next_enter_handle s _ _ hl.over hq)]
            rfl
          · exact P.live (by simp) (by simp) ⟨by simp, hl.over, hl.entered⟩ (by simp) (by simp)
        · rename_i q hm
          have hm' : a.msgQ = .drain :: q := hm
          refine enterPostStop_sim _ _ _ ⟨?_, hl.over, hl.entered⟩
          rw [hl.queue, hm']; rfl
        · rename_i hm
          have hm' : a.msgQ = [] := hm
          refine ⟨s, by simp, ?_⟩
          exact P.live (by simp) (by simp) ⟨by simpa using hl.queue, hl.over, hl.entered⟩ (by simp [hi]) (by intro _; simpa using hm')

/-! ### API calls (harness ops and the self side effects of a segment) -/

theorem apiSend_live {a : Actor} {s : St} (m : Nat) (hl : Live a s) :
    Live (apiSend a m).1 (if (apiSend a m).2 then { s with queue := s.queue ++ [.msg m] } else s) ∧
    (apiSend a m).1.phase = a.phase := by
  unfold apiSend
  split
  · exact ⟨by simpa using hl, rfl⟩
  · split
    · exact ⟨by simpa using hl, rfl⟩
    · split
      · exact ⟨by simpa using hl, rfl⟩
      · exact ⟨⟨by simp [hl.queue, userItems_append, userItems], hl.over, hl.entered⟩, rfl⟩

theorem apiCall_live {a : Actor} {s : St} (k : Nat) (hl : Live a s) :
    Live (apiCall a k).1 (if (apiCall a k).2 then { s with queue := s.queue ++ [.call k] } else s) ∧
    (apiCall a k).1.phase = a.phase := by
  unfold apiCall
  split
  · exact ⟨by simpa using hl, rfl⟩
  · split
    · exact ⟨by simpa using hl, rfl⟩
    · split
      · exact ⟨by simpa using hl, rfl⟩
      · exact ⟨⟨by simp [hl.queue, userItems_append, userItems], hl.over, hl.entered⟩, rfl⟩

theorem apiStop_live {a : Actor} {s : St} (r : Reason) (hl : Live a s) :
    Live (apiStop a r).1 s ∧ (apiStop a r).1.phase = a.phase := by
  unfold apiStop
  (repeat' split) <;> exact ⟨⟨by simpa using hl.queue, hl.over, hl.entered⟩, rfl⟩

theorem apiKill_live {a : Actor} {s : St} (hl : Live a s) :
    Live (apiKill a).1 s ∧ (apiKill a).1.phase = a.phase := by
  unfold apiKill
  (repeat' split) <;> exact ⟨⟨by simpa using hl.queue, hl.over, hl.entered⟩, rfl⟩

theorem apiDrain_live {a : Actor} {s : St} (hl : Live a s) :
    Live (apiDrain a).1 s ∧ (apiDrain a).1.phase = a.phase := by
  unfold apiDrain
  simp only []
  (repeat' split) <;> first
    | exact ⟨⟨by simpa using hl.queue, hl.over, hl.entered⟩, rfl⟩
    | exact ⟨⟨by simp [hl.queue, userItems_append, userItems], hl.over, hl.entered⟩, rfl⟩

theorem apiSend_phase (a : Actor) (m : Nat) : (apiSend a m).1.phase = a.phase := by
  unfold apiSend; (repeat' split) <;> rfl
theorem apiCall_phase (a : Actor) (k : Nat) : (apiCall a k).1.phase = a.phase := by
  unfold apiCall; (repeat' split) <;> rfl
theorem apiStop_phase (a : Actor) (r : Reason) : (apiStop a r).1.phase = a.phase := by
  unfold apiStop; (repeat' split) <;> rfl
theorem apiKill_phase (a : Actor) : (apiKill a).1.phase = a.phase := by
  unfold apiKill; (repeat' split) <;> rfl
theorem apiDrain_phase (a : Actor) : (apiDrain a).1.phase = a.phase := by
  unfold apiDrain; simp only []; (repeat' split) <;> rfl

/-- Relation after the side effects of a segment: phase and `idle` flag unchanged. -/
def FxRel (ph : Phase) (idl : Bool) (a : Actor) (s : St) : Prop :=
  a.phase = ph ∧ s.idle = idl ∧ Live a s

theorem runFx_sim (a : Actor) (s : St) (f : Fx) (hl : Live a s) :
    Sim next (FxRel a.phase s.idle) s (runFx a f) := by
  cases f with
  | sendSelf m =>
    refine ⟨_, by simp [runFx, accepts_cons], (apiSend_live m hl).2, ?_, (apiSend_live m hl).1⟩
    split <;> rfl
  | stopSelf r => exact ⟨s, by simp [runFx, accepts_cons], (apiStop_live _ hl).2, rfl, (apiStop_live _ hl).1⟩
  | killSelf => exact ⟨s, by simp [runFx, accepts_cons], (apiKill_live hl).2, rfl, (apiKill_live hl).1⟩
  | joinGroup g =>
    refine ⟨s, by simp [runFx, accepts_cons], ?_⟩
    simp only [runFx]
    split <;> exact ⟨rfl, rfl, ⟨by simpa using hl.queue, hl.over, hl.entered⟩⟩
  | reply k v =>
    simp only [runFx]
    split <;> exact ⟨s, by simp [accepts_cons], rfl, rfl, ⟨by simpa using hl.queue, hl.over, hl.entered⟩⟩
  | forget k =>
    simp only [runFx]
    split <;> exact ⟨s, by simp [accepts_cons], rfl, rfl, ⟨by simpa using hl.queue, hl.over, hl.entered⟩⟩
  | spawnChild c => exact ⟨s, by simp [runFx, accepts_cons, next], rfl, rfl, hl⟩

theorem runFxs_sim (fs : List Fx) (a : Actor) (s : St) (hl : Live a s) :
    Sim next (FxRel a.phase s.idle) s (runFxs a fs) := by
  induction fs generalizing a s with
  | nil => exact ⟨s, rfl, rfl, rfl, hl⟩
  | cons f fs ih =>
    unfold runFxs
    refine Sim.andThen next (runFx_sim a s f hl) ?_
    intro a1 s1 ⟨hp, hi, hl1⟩
    have := ih a1 s1 hl1
    rw [hp, hi] at this
    exact this

/-! ### a segment inside an open callback -/

theorem runSeg_sim (a : Actor) (s : St) (cb : Cb) (sg : Seg) (k : Actor → Res → M)
    (hl : Live a s) (hi : s.idle = false) (h1 : a.phase ≠ .fresh) (h2 : a.phase ≠ .done) (h3 : a.phase ≠ .idle)
    (hk : ∀ a1 s1 r, a1.phase = a.phase → Live a1 s1 → s1.idle = exitIdle cb r → Sim next P s1 (k a1 r)) :
    Sim next P s (runSeg a cb sg k) := by
  unfold runSeg
  refine Sim.andThen next (R1 := fun a1 s1 => a1 = a ∧ s1 = s) ⟨s, by simp [say, accepts_cons], rfl, rfl⟩ ?_
  rintro a1 s1 ⟨rfl, rfl⟩
  refine Sim.andThen next (runFxs_sim sg.fx a1 s1 hl) ?_
  intro a2 s2 ⟨hp, hi2, hl2⟩
  have hex : ∀ r, Sim next P s2 (andThen (say a2 (.exit cb r)) fun a => k a r) := by
    intro r
    refine Sim.andThen next (R1 := fun a3 s3 => a3 = a2 ∧ s3 = { s2 with idle := exitIdle cb r })
      ⟨_, by simp [say, accepts_cons], rfl, rfl⟩ ?_
    rintro a3 s3 ⟨rfl, rfl⟩
    exact hk a3 _ r hp ⟨hl2.queue, hl2.over, hl2.entered⟩ rfl
  cases ht : sg.term with
  | tick =>
    refine ⟨s2, rfl, ?_⟩
    refine P.live (by simpa [hp] using h1) (by simpa [hp] using h2)
      ⟨by simpa using hl2.queue, hl2.over, hl2.entered⟩ ?_ ?_
    · simp [hi2, hi, hp, h3]
    · intro h; exact absurd (by simpa [hp] using h) h3
  | ok => simpa [Term.res] using hex .ok
  | err n => simpa [Term.res] using hex (.err n)
  | panic n => simpa [Term.res] using hex (.panic n)

theorem afterExit_sim (a : Actor) (s : St) (cb : Cb) (r : Res) (hl : Live a s)
    (hcb : a.phase.openCb = some cb) (hi : s.idle = exitIdle cb r) : Sim next P s (afterExit a r) := by
  unfold afterExit
  split
  · rename_i hph
    have : cb = .postStart := by simp [hph, Phase.openCb] at hcb; exact hcb.symm
    subst this
    refine Sim.andThen next (R1 := fun a1 s1 => s1 = s ∧ Live a1 s1) ?_ ?_
    · refine ⟨s, ?_, rfl, ⟨by simpa [Actor.setStatus] using hl.queue, hl.over, hl.entered⟩⟩
      cases hsup : a.sup <;> cases hm : a.mons <;> simp [Actor.setStatus, accepts_cons, hsup, hm, notifyOuts]
    · rintro a1 s1 ⟨rfl, hl1⟩
      exact listen_sim a1 s1 hl1 (by rw [hi]; rfl)
  · rename_i hph
    have : cb = .handle := by simp [hph, Phase.openCb] at hcb; exact hcb.symm
    subst this
    exact listen_sim a s hl (by rw [hi]; rfl)
  · rename_i hph
    have : cb = .sup := by simp [hph, Phase.openCb] at hcb; exact hcb.symm
    subst this
    exact listen_sim a s hl (by rw [hi]; rfl)
  · exact finish_sim _ _ _
  · exact finish_sim _ _ _
  · exact finish_sim _ _ _
  · exact finish_sim _ _ _

theorem afterPre_sim (a : Actor) (s : St) (supOk : Bool) (r : Res) (hl : Live a s)
    (hph : a.phase = .pre) (hi : s.idle = exitIdle .preStart r) : Sim next P s (afterPre a supOk r) := by
  have hidle : s.idle = false := by rw [hi]; cases r <;> rfl
  unfold afterPre
  split
  · exact failSpawn_sim _ _ _ (by simp) (by simp) hl.entered
  · exact failSpawn_sim _ _ _ (by simp) (by simp) hl.entered
  · split
    · split
      · exact failSpawn_sim _ _ _ (by simp) (by simp) hl.entered
      · refine ⟨s, by simp [accepts_cons, next_spawnRet_ok], ?_⟩
        exact P.live (by simp) (by simp) ⟨by simpa using hl.queue, hl.over, hl.entered⟩ (by simp [hidle]) (by simp)
    · refine ⟨s, by simp [accepts_cons, next_spawnRet_ok], ?_⟩
      exact P.live (by simp) (by simp) ⟨by simpa using hl.queue, hl.over, hl.entered⟩ (by simp [hidle]) (by simp)


/-! ### the ops -/

theorem Inv.live {a : Actor} {s : St} (h : Inv a s) (h1 : a.phase ≠ .fresh) (h2 : a.phase ≠ .done) :
    Live a s ∧ (s.idle = true ↔ a.phase = .idle) := by
  rcases h with h | h | h
  · exact absurd h.1 h1
  · exact absurd h.1 h2
  · exact ⟨h.2.2.1, h.2.2.2⟩

theorem openCb_cases {ph : Phase} {cb : Cb} (h : ph.openCb = some cb) : ph ≠ .fresh ∧ ph ≠ .done ∧ ph ≠ .idle := by
  cases ph <;> simp [Phase.openCb] at h <;> simp

theorem pollOpen_sim (a : Actor) (s : St) (cb : Cb) (h : Inv a s) (hcb : a.phase.openCb = some cb)
    (htask : a.phase.isTask = true) : Sim next P s (pollOpen a cb) := by
  obtain ⟨h1, h2, h3⟩ := openCb_cases hcb
  obtain ⟨hl, hidle⟩ := h.live h1 h2
  have hi : s.idle = false := by
    cases hs : s.idle with
    | false => rfl
    | true => exact absurd (hidle.mp hs) h3
  unfold pollOpen
  simp only []
  split
  · refine Sim.andThen next (R1 := fun _ _ => True) ⟨{ s with idle := false }, by simp [say, accepts_cons], trivial⟩ ?_
    intro a1 s1 _
    split
    · exact killedInLoop_sim _ _
    · exact killedInLoop_sim _ _
    · exact killedOutsideLoop_sim _ _
  · split
    · exact ⟨s, rfl, P.live h1 h2 ⟨by simpa using hl.queue, hl.over, hl.entered⟩ (by simp [hi, h3]) (by intro h'; exact absurd h' h3)⟩
    · rename_i sg hsg
      refine runSeg_sim _ s cb sg afterExit ⟨by simpa using hl.queue, hl.over, hl.entered⟩ hi h1 h2 h3 ?_
      intro a1 s1 r hp hl1 hi1
      exact afterExit_sim a1 s1 cb r hl1 (by rw [hp]; exact hcb) hi1

theorem opPoll_sim (a : Actor) (s : St) (h : Inv a s) (htask : a.phase.isTask = true) :
    Sim next P s (opPoll a) := by
  unfold opPoll
  split
  · rename_i hph
    obtain ⟨hl, hidle⟩ := h.live (by simp [hph]) (by simp [hph])
    have hi : s.idle = false := by
      cases hs : s.idle with
      | false => rfl
      | true => have := hidle.mp hs; simp [hph] at this
    simp only []
    split
    · exact killedOutsideLoop_sim _ _
    · refine ⟨{ s with idle := false, entered := s.entered || (Cb.postStart == Cb.preStart) }, ?_, ?_⟩
      · simp only [evs_cons_ev, evs_nil]
        rw [accepts_cons_ok next _ (next_enter_other s .postStart _ (by simp))]
        rfl
      · exact P.live (by simp) (by simp) ⟨by simpa using hl.queue, hl.over, by simp [hl.entered]⟩ (by simp) (by simp)
  · rename_i hph
    obtain ⟨hl, hidle⟩ := h.live (by simp [hph]) (by simp [hph])
    exact listen_sim _ s ⟨by simpa using hl.queue, hl.over, hl.entered⟩ (hidle.mpr hph)
  · rename_i hph; exact pollOpen_sim a s _ h (by simp [hph, Phase.openCb]) htask
  · rename_i hph; exact pollOpen_sim a s _ h (by simp [hph, Phase.openCb]) htask
  · rename_i hph; exact pollOpen_sim a s _ h (by simp [hph, Phase.openCb]) htask
  · rename_i hph; exact pollOpen_sim a s _ h (by simp [hph, Phase.openCb]) htask
  · rename_i h1 h2 h3 h4 h5 h6
    cases hph : a.phase <;> simp_all [Phase.isTask]

/-- `Inv` when only fields the automaton does not look at change. -/
theorem Inv.congr {a a' : Actor} {s : St} (h0 : a'.phase = a.phase) (h1 : a'.msgQ = a.msgQ) (h : Inv a s) :
    Inv a' s := by
  rcases h with h | h | h
  · exact Or.inl ⟨by rw [h0]; exact h.1, h.2.1, by rw [h1]; exact h.2.2.1, h.2.2.2⟩
  · exact Or.inr (Or.inl ⟨by rw [h0]; exact h.1, h.2⟩)
  · exact Or.inr (Or.inr ⟨by rw [h0]; exact h.1, by rw [h0]; exact h.2.1,
      ⟨by rw [h1]; exact h.2.2.1.queue, h.2.2.1.over, h.2.2.1.entered⟩, by rw [h0]; exact h.2.2.2⟩)

theorem opSpawn_sim (a : Actor) (s : St) (sup : Option Nat) (name : Option String) (nameFree : Bool)
    (isLocal supOk : Bool) (h : Inv a s) : Sim next Inv s (opSpawn a sup name nameFree isLocal supOk) := by
  unfold opSpawn
  split
  · rename_i hph
    rcases h with h | h | h
    · obtain ⟨_, hq, hm, he, hi, ho⟩ := h
      have hkeep : Inv a s := Or.inl ⟨hph, hq, hm, he, hi, ho⟩
      have hsame : ({ s with idle := false, over := s.over || s.entered } : St) = s := by
        cases s; simp_all
      have hnew : ∀ a' : Actor, a'.phase = .pre → a'.msgQ = a.msgQ →
          Inv a' { s with idle := false, entered := s.entered || (Cb.preStart == Cb.preStart) } := by
        intro a' h0 h1
        refine Or.inr (Or.inr ⟨by rw [h0]; simp, by rw [h0]; simp, ⟨?_, ho, by simp⟩, by rw [h0]; simp⟩)
        rw [h1, hm]; exact hq
      have hacc : accepts next s [Ev.enter .preStart .none] =
          .ok { s with idle := false, entered := s.entered || (Cb.preStart == Cb.preStart) } := by
        rw [accepts_cons_ok next _ (next_enter_other s .preStart _ (by simp))]; rfl
      split
      · exact ⟨s, by simp [accepts_cons, next], hkeep⟩
      · split
        · split
          · split
            · refine ⟨s, ?_, hkeep⟩
              simp only [evs_cons_ev, evs_nil]
              rw [accepts_cons_ok next _ (next_spawnRet_fail s .nolink (by simp) (by simp)), hsame]; rfl
            · exact ⟨_, by simpa [accepts_cons] using hacc, hnew _ rfl rfl⟩
          · exact ⟨_, by simpa [accepts_cons] using hacc, hnew _ rfl rfl⟩
        · exact ⟨_, by simpa using hacc, hnew _ rfl rfl⟩
    · rw [hph] at h; cases h.1
    · exact absurd hph h.1
  · exact ⟨s, rfl, h⟩

theorem beginPre_sim (a : Actor) (s : St) (hph : a.phase = .cell) (hl : Live a s) (hi : s.idle = false) :
    Sim next Inv s (beginPre a) := by
  unfold beginPre
  split
  · refine Sim.andThen next (R1 := fun _ s2 => s2.entered = true) ⟨s, by simp [handleSignal], hl.entered⟩ ?_
    intro a2 s2 he2
    exact Sim.mono next (failSpawn_sim _ _ _ (by simp) (by simp) he2) (fun _ _ (hp : P _ _) => hp.1)
  · refine ⟨{ s with idle := false, entered := s.entered || (Cb.preStart == Cb.preStart) }, ?_,
      Or.inr (Or.inr ⟨by simp, by simp, ⟨hl.queue, hl.over, by simp⟩, by simp⟩)⟩
    simp only [evs_cons_ev, evs_nil]
    rw [accepts_cons_ok next _ (next_enter_other s .preStart _ (by simp))]; rfl

theorem startInstant_sim (a : Actor) (s : St) (supOk : Bool) (hph : a.phase = .cell) (hl : Live a s)
    (hi : s.idle = false) : Sim next Inv s (startInstant a supOk) := by
  unfold startInstant
  simp only []
  have hl' : ∀ a' : Actor, a'.msgQ = a.msgQ → Live a' s := fun a' h => ⟨by rw [h]; exact hl.queue, hl.over, hl.entered⟩
  split
  · exact Sim.mono next (failSpawn_sim _ _ _ (by simp) (by simp) hl.entered) (fun _ _ (hp : P _ _) => hp.1)
  split
  · split
    · split
      · exact Sim.mono next (failSpawn_sim _ _ _ (by simp) (by simp) hl.entered) (fun _ _ (hp : P _ _) => hp.1)
      · refine Sim.andThen next (R1 := fun a1 s1 => s1 = s ∧ a1.phase = .cell ∧ Live a1 s)
          ⟨s, by simp, rfl, by simpa using hph, hl' _ (by simp)⟩ ?_
        rintro a1 s1 ⟨rfl, h1, h2⟩
        exact beginPre_sim a1 s1 h1 h2 hi
    · exact beginPre_sim _ s hph (hl' _ rfl) hi
  · exact beginPre_sim _ s hph (hl' _ rfl) hi

theorem opSpawnInstant_sim (a : Actor) (s : St) (sup : Option Nat) (name : Option String) (nameFree : Bool)
    (isLocal : Bool) (h : Inv a s) : Sim next Inv s (opSpawnInstant a sup name nameFree isLocal) := by
  unfold opSpawnInstant
  split
  · rename_i hph
    rcases h with h | h | h
    · obtain ⟨_, hq, hm, he, hi, ho⟩ := h
      have hkeep : Inv a s := Or.inl ⟨hph, hq, hm, he, hi, ho⟩
      have hnew : ∀ a' : Actor, a'.phase = .cell → a'.msgQ = a.msgQ → Inv a' { s with entered := true } := by
        intro a' h0 h1
        refine Or.inr (Or.inr ⟨by rw [h0]; simp, by rw [h0]; simp, ⟨?_, ho, rfl⟩, by rw [h0]; simp [hi]⟩)
        rw [h1, hm]; exact hq
      split
      · exact ⟨s, by simp [accepts_cons, next], hkeep⟩
      · split
        · exact ⟨_, by simp [accepts_cons], hnew _ rfl rfl⟩
        · exact ⟨_, by simp [accepts_cons], hnew _ rfl rfl⟩
    · rw [hph] at h; cases h.1
    · exact absurd hph h.1
  · exact ⟨s, rfl, h⟩

theorem opPollSpawn_sim (a : Actor) (s : St) (supOk : Bool) (h : Inv a s) :
    Sim next Inv s (opPollSpawn a supOk) := by
  unfold opPollSpawn
  split
  · rename_i hph
    obtain ⟨hl, hidle⟩ := h.live (by simp [hph]) (by simp [hph])
    have hi : s.idle = false := by
      cases hs : s.idle with
      | false => rfl
      | true => have := hidle.mp hs; simp [hph] at this
    exact startInstant_sim a s supOk hph hl hi
  · rename_i hph
    obtain ⟨hl, hidle⟩ := h.live (by simp [hph]) (by simp [hph])
    have hi : s.idle = false := by
      cases hs : s.idle with
      | false => rfl
      | true => have := hidle.mp hs; simp [hph] at this
    split
    · refine Sim.andThen next (R1 := fun _ s1 => s1.entered = true) ⟨{ s with idle := false }, by simp [say, accepts_cons], hl.entered⟩ ?_
      intro a1 s1 he
      refine Sim.andThen next (R1 := fun _ s2 => s2.entered = true) ⟨s1, by simp [handleSignal], he⟩ ?_
      intro a2 s2 he2
      exact Sim.mono next (failSpawn_sim _ _ _ (by simp) (by simp) he2) (fun _ _ (hp : P _ _) => hp.1)
    · split
      · exact ⟨s, rfl, h⟩
      · rename_i sg hsg
        refine Sim.mono next ?_ (fun _ _ (hp : P _ _) => hp.1)
        refine runSeg_sim _ s .preStart sg _ ⟨by simpa using hl.queue, hl.over, hl.entered⟩ hi
          (by show a.phase ≠ _; simp [hph]) (by show a.phase ≠ _; simp [hph]) (by show a.phase ≠ _; simp [hph]) ?_
        intro a1 s1 r hp hl1 hi1
        exact afterPre_sim a1 s1 supOk r hl1 (by rw [hp]; exact hph) hi1
  · exact ⟨s, rfl, h⟩

theorem opDropSpawn_sim (a : Actor) (s : St) (h : Inv a s) : Sim next Inv s (opDropSpawn a) := by
  unfold opDropSpawn
  split
  · refine ⟨{ s with idle := false, over := true }, ?_, Or.inr (Or.inl ⟨by simp [Actor.dropPorts], rfl, rfl⟩)⟩
    simp only [andThen_snd, evs_append, evs_cons_ev, evs_cons_note, evs_nil, List.append_nil]
    rw [List.cons_append, List.nil_append, accepts_cons_ok next _ (next_dropped s)]
    exact cleanup_acc _ none _
  · refine ⟨{ s with idle := false, over := true }, ?_, Or.inr (Or.inl ⟨by simp [Actor.dropPorts], rfl, rfl⟩)⟩
    simp only [andThen_snd, evs_append, evs_cons_ev, evs_nil, evs_ite_note, List.append_nil]
    rw [List.cons_append, List.cons_append, List.nil_append]
    rw [accepts_cons_ok next _ (next_dropped s), accepts_cons_ok next _ (next_cancelled _ _)]
    exact cleanup_acc _ none _
  · exact ⟨s, rfl, h⟩

theorem opAbort_sim (a : Actor) (s : St) (h : Inv a s) : Sim next Inv s (opAbort a) := by
  unfold opAbort
  split
  · refine Sim.andThen next (R1 := fun _ _ => True) ?_ ?_
    · cases hcb : a.phase.openCb <;> exact ⟨{ s with idle := false }, by simp [accepts_cons], trivial⟩
    · intro a1 s1 _
      refine ⟨{ s1 with idle := false, over := true }, ?_, Or.inr (Or.inl ⟨by simp [Actor.dropPorts], rfl, rfl⟩)⟩
      simp only [andThen_snd, evs_append, evs_cons_ev, evs_nil]
      rw [accepts_append next _ (cleanup_acc _ _ _)]
      simp [accepts_cons]
  · exact ⟨s, rfl, h⟩

theorem opResume_sim (a : Actor) (s : St) (sg : Seg) (h : Inv a s) : Sim next Inv s (opResume a sg) := by
  unfold opResume
  split
  · exact ⟨s, rfl, h⟩
  · split
    · exact ⟨s, rfl, h⟩
    · exact ⟨s, rfl, h.congr (by rfl) (by rfl)⟩

/-- A send-like API call on a cell: the queue grows exactly when the call was accepted. -/
theorem Inv.api {a a' : Actor} {s s' : St} (h : Inv a s) (hnf : a.phase ≠ .fresh) (hp : a'.phase = a.phase)
    (hl : Live a s → Live a' s') (hi : s'.idle = s.idle) (ho : s'.over = s.over) : Inv a' s' := by
  rcases h with h | h | h
  · exact absurd h.1 hnf
  · exact Or.inr (Or.inl ⟨by rw [hp]; exact h.1, by rw [ho]; exact h.2.1, by rw [hi]; exact h.2.2⟩)
  · exact Or.inr (Or.inr ⟨by rw [hp]; exact h.1, by rw [hp]; exact h.2.1, hl h.2.2.1, by rw [hp, hi]; exact h.2.2.2⟩)

theorem envOp_sim (a : Actor) (s : St) (op : AOp) (h : Inv a s) (hnf : a.phase ≠ .fresh) :
    Sim next Inv s (a.envOp op) := by
  cases op with
  | send m =>
    refine ⟨_, by simp [Actor.envOp, accepts_cons], h.api hnf (apiSend_phase a m) (fun hl => (apiSend_live m hl).1) ?_ ?_⟩
    · split <;> rfl
    · split <;> rfl
  | call k =>
    refine ⟨_, by simp [Actor.envOp, accepts_cons], h.api hnf (apiCall_phase a k) (fun hl => (apiCall_live k hl).1) ?_ ?_⟩
    · split <;> rfl
    · split <;> rfl
  | stop r =>
    exact ⟨s, by simp [Actor.envOp, accepts_cons], h.api hnf (apiStop_phase a _) (fun hl => (apiStop_live _ hl).1) rfl rfl⟩
  | kill =>
    exact ⟨s, by simp [Actor.envOp, accepts_cons], h.api hnf (apiKill_phase a) (fun hl => (apiKill_live hl).1) rfl rfl⟩
  | drain =>
    exact ⟨s, by simp [Actor.envOp, accepts_cons], h.api hnf (apiDrain_phase a) (fun hl => (apiDrain_live hl).1) rfl rfl⟩
  | supArrive e =>
    simp only [Actor.envOp, opSupArrive]
    split
    · exact ⟨s, by simp [accepts_cons], h.congr (by rfl) (by rfl)⟩
    · exact ⟨s, by simp [accepts_cons], h⟩
  | link p ok =>
    simp only [Actor.envOp, opLink]
    split
    · exact ⟨s, rfl, h⟩
    · exact ⟨s, by simp, h.congr (by rfl) (by rfl)⟩
  | unlink p =>
    simp only [Actor.envOp, opUnlink]
    split
    · exact ⟨s, by simp, h.congr (by rfl) (by rfl)⟩
    · exact ⟨s, rfl, h⟩
  | treeTaken =>
    refine ⟨s, ?_, ?_⟩
    · simp only [Actor.envOp, opTreeTaken]
      split
      · cases hk : (apiKill { a with sup := none }).2 <;> simp [hk, accepts_cons]
      · simp
    simp only [Actor.envOp, opTreeTaken]
    split
    · refine h.api hnf (by simp [apiKill_phase]) (fun hl => ?_) rfl rfl
      have := (apiKill_live (a := { a with sup := none }) ⟨by simpa using hl.queue, hl.over, hl.entered⟩).1
      exact ⟨by simpa using this.queue, hl.over, hl.entered⟩
    · exact h.congr (by rfl) (by rfl)
  | kidAdd c => exact ⟨s, rfl, h.congr (by rfl) (by rfl)⟩
  | monAdd m => exact ⟨s, rfl, h.congr (by rfl) (by rfl)⟩
  | monDel m => exact ⟨s, rfl, h.congr (by rfl) (by rfl)⟩
  | monDrop m => exact ⟨s, by simp [Actor.envOp], h.congr (by rfl) (by rfl)⟩
  | kidDel c => exact ⟨s, rfl, h.congr (by rfl) (by rfl)⟩
  | pollCall k =>
    simp only [Actor.envOp]
    split
    · exact ⟨s, by simp [accepts_cons], h.congr (by rfl) (by rfl)⟩
    · exact ⟨s, by simp [accepts_cons], h.congr (by rfl) (by rfl)⟩
    · exact ⟨s, by simp [accepts_cons], h⟩
    · exact ⟨s, rfl, h⟩
  | pollWait w => exact ⟨s, by simp [Actor.envOp, accepts_cons], h⟩
  | _ => exact ⟨s, rfl, h⟩

theorem polled_ok {a : Actor} {s : St} (h : P a s) : next s .polled = .ok s := by
  have hq : s.idle = true → s.queue = [] := by
    intro hi
    rcases h.1 with h1 | h1 | h1
    · rw [h1.2.2.2.2.1] at hi; cases hi
    · rw [h1.2.2] at hi; cases hi
    · have hph := h1.2.2.2.mp hi
      rw [h1.2.2.1.queue, h.2 hph]; rfl
  simp only [next]
  cases hi : s.idle with
  | false => simp
  | true => simp [hq hi]

theorem stepCore_sim (a : Actor) (s : St) (op : AOp) (h : Inv a s) : Sim next Inv s (a.stepCore op) := by
  cases op with
  | spawn sup name nameFree isLocal supOk => exact opSpawn_sim a s sup name nameFree isLocal supOk h
  | spawnInstant sup name nameFree isLocal => exact opSpawnInstant_sim a s sup name nameFree isLocal h
  | pollSpawn supOk => exact opPollSpawn_sim a s supOk h
  | dropSpawn => exact opDropSpawn_sim a s h
  | poll =>
    simp only [Actor.stepCore, pollMark]
    split
    · rename_i htask
      obtain ⟨s1, hacc, hp⟩ := opPoll_sim a s h htask
      refine ⟨s1, ?_, hp.1⟩
      simp only [evs_append, evs_cons_ev, evs_nil]
      rw [accepts_append next _ hacc, accepts_cons_ok next _ (polled_ok hp)]
      rfl
    · rename_i htask
      refine ⟨s, ?_, ?_⟩ <;>
        (unfold opPoll; cases hph : a.phase <;> simp_all [Phase.isTask])
  | abort => exact opAbort_sim a s h
  | resume sg => exact opResume_sim a s sg h
  | _ =>
    simp only [Actor.stepCore]
    split
    · exact ⟨s, rfl, h⟩
    · rename_i hnf
      exact envOp_sim a s _ h hnf

/-- A poll establishes more than `Inv`: if it leaves the loop listening, nothing accepted is outstanding. -/
theorem step_poll (a : Actor) (s : St) (h : Inv a s) :
    Sim next (fun a' s' => Inv a' s' ∧ (a'.phase = .idle → s'.queue = [])) s (a.step .poll) := by
  refine step_sim_of_core next next_supIs next_snap ?_
  simp only [Actor.stepCore, pollMark]
  split
  · rename_i htask
    obtain ⟨s1, hacc, hp⟩ := opPoll_sim a s h htask
    refine ⟨s1, ?_, hp.1, ?_⟩
    · simp only [evs_append, evs_cons_ev, evs_nil]
      rw [accepts_append next _ hacc, accepts_cons_ok next _ (polled_ok hp)]
      rfl
    · intro hph
      rcases hp.1 with h1 | h1 | h1
      · rw [h1.1] at hph; cases hph
      · rw [h1.1] at hph; cases hph
      · rw [h1.2.2.1.queue, hp.2 hph]; rfl
  · rename_i htask
    have hsame : opPoll a = (a, [.note "notask"]) := by
      unfold opPoll; cases hph : a.phase <;> simp_all [Phase.isTask]
    rw [hsame]
    refine ⟨s, rfl, h, ?_⟩
    intro hph
    have hph' : a.phase = .idle := hph
    simp [hph', Phase.isTask] at htask

theorem step_sim (a : Actor) (s : St) (op : AOp) (h : Inv a s) : Sim next Inv s (a.step op) :=
  step_sim_of_core next next_supIs next_snap (stepCore_sim a s op h)

theorem run_sim (ops : List AOp) (a : Actor) (s : St) (h : Inv a s) :
    ∃ s', accepts next s (a.run ops).2 = .ok s' ∧ Inv (a.run ops).1 s' := by
  induction ops generalizing a s with
  | nil => exact ⟨s, rfl, h⟩
  | cons op ops ih =>
    obtain ⟨s1, hacc, hinv⟩ := step_sim a s op h
    obtain ⟨s2, hacc2, hinv2⟩ := ih _ s1 hinv
    refine ⟨s2, ?_, hinv2⟩
    simp only [Actor.run]
    rw [accepts_append next _ hacc]
    exact hacc2

theorem inv_init (id : Nat) : Inv (Actor.init id) {} :=
  Or.inl ⟨rfl, rfl, rfl, rfl, rfl, rfl⟩

/-! ### what acceptance means: handled is a prefix of accepted -/

theorem next_queue {s s' : St} {e : Ev} (h : next s e = .ok s') :
    s.queue ++ accepted [e] = handled [e] ++ s'.queue := by
  cases e with
  | sendRet b m ok =>
    cases ok <;> simp [next] at h <;> subst h <;> simp [accepted, handled]
  | callSent k ok =>
    cases ok <;> simp [next] at h <;> subst h <;> simp [accepted, handled]
  | enter cb x =>
    cases cb <;> simp only [next] at h
    case handle =>
      split at h
      · cases h
      · split at h
        · rename_i y q hq
          split at h
          · rename_i hxy
            injection h with h; subst h; subst hxy
            simp [accepted, handled, hq]
          · cases h
        · cases h
    all_goals (injection h with h; subst h; simp [accepted, handled])
  | spawnRet r => cases r <;> simp [next] at h <;> subst h <;> simp [accepted, handled]
  | polled =>
    simp only [next] at h
    split at h
    · cases h
    · injection h with h; subst h; simp [accepted, handled]
  | _ => simp [next] at h <;> subst h <;> simp [accepted, handled]

theorem handled_cons (e : Ev) (l : List Ev) : handled (e :: l) = handled [e] ++ handled l := by
  cases e with
  | enter cb x => cases cb <;> simp [handled]
  | _ => simp [handled]

theorem accepted_cons (e : Ev) (l : List Ev) : accepted (e :: l) = accepted [e] ++ accepted l := by
  cases e with
  | sendRet b m ok => cases ok <;> simp [accepted]
  | callSent k ok => cases ok <;> simp [accepted]
  | _ => simp [accepted]

theorem accepts_queue (tr : List Ev) (s s' : St) (h : accepts next s tr = .ok s') :
    s.queue ++ accepted tr = handled tr ++ s'.queue := by
  induction tr generalizing s with
  | nil => simp at h; subst h; simp [accepted, handled]
  | cons e es ih =>
    rw [accepts_cons] at h
    cases hn : next s e with
    | error c => simp [hn] at h
    | ok s1 =>
      simp only [hn] at h
      have h1 := next_queue hn
      have h2 := ih s1 h
      rw [handled_cons, accepted_cons, ← List.append_assoc, h1, List.append_assoc, h2, List.append_assoc]

end Life.C02
