import RactorModel.Lemmas.NodeState

/-! Lemmas about session death and reconnection in the `NodeServerState` model (C18). -/

namespace Election

theorem close_sessions (st : NS) (id : Nat) :
    (st.close id).sessions = st.sessions.filter (·.id != id) := rfl

theorem closeAll_sessions (ids : List Nat) (st : NS) :
    (st.closeAll ids).sessions = st.sessions.filter (fun s => !ids.contains s.id) ∧
      (st.closeAll ids).thisName = st.thisName := by
  induction ids generalizing st with
  | nil => exact ⟨(List.filter_eq_self.mpr (by simp)).symm, rfl⟩
  | cons i ids ih =>
    have := ih (st.close i)
    simp only [NS.closeAll, List.foldl_cons] at this ⊢
    refine ⟨?_, by rw [this.2]; rfl⟩
    rw [this.1, close_sessions, List.filter_filter]
    congr 1
    funext s
    by_cases h : s.id = i <;> simp [h, Bool.and_comm]

/-- the new session after `ConnectionOpened` and `register_session` -/
def freshSession (pid : Nat) (srv : Bool) (peer : String) (nonce : Nat) : Session :=
  ⟨pid, srv, some peer, if nonce == 0 then none else some nonce, false⟩

theorem find_append_fresh (l : List Session) (u : Session) (hfresh : ∀ t ∈ l, t.id ≠ u.id) :
    (l ++ [u]).find? (fun x => x.id == u.id) = some u := by
  rw [List.find?_append]
  have : l.find? (fun x => x.id == u.id) = none := by
    apply List.find?_eq_none.mpr
    intro t ht
    simpa using hfresh t ht
  simp [this]

theorem open_register (st : NS) (pid : Nat) (srv : Bool) (peer : String) (nonce : Nat)
    (hfresh : ∀ t ∈ st.sessions, t.id ≠ pid) :
    ((st.open pid srv).register pid peer nonce) =
      ({ st with sessions := st.sessions ++ [freshSession pid srv peer nonce] }, true) := by
  have hfind := find_append_fresh st.sessions ⟨pid, srv, none, none, false⟩ hfresh
  simp only [NS.register, NS.open, NS.find, hfind]
  congr 1
  congr 1
  rw [List.map_append]
  congr 1
  · conv => rhs; rw [← List.map_id st.sessions]
    apply List.map_congr_left
    intro t ht
    have := hfresh t ht
    simp [this]
  · simp [freshSession]

end Election
