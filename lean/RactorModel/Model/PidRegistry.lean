/-!
# Model `PidRegistry` (C10, round 4) — the pid table of the `cluster` build and its lifecycle monitors

Transcribed from `ractor/src/registry/pid_registry.rs` and its two call sites in
`ractor/src/actor/actor_cell.rs` (`ActorCell::new` / `thread_local/inner.rs::new_thread_local`, and the
cleanup block of `ActorCell::set_status`). Two global `DashMap<ActorId, ActorCell>`s:

* `PID_REGISTRY`            — `pids` here (ids in insertion order);
* `PID_REGISTRY_LISTENERS`  — `mons` here: keyed by the listener's id, so `monitor` is idempotent.

One `Op` is one whole API call on a quiescent system (engine `pidmon`, paused runtime, run to
quiescence between ops):

* `spawn a`     `ActorCell::new`: `register_pid(id, cell)`: a local id, `entry(id)` vacant → insert,
                then `for listener in listeners.iter() { send_supervisor_evt(PidLifecycleEvent::Spawn(cell)) }`.
* `remote a`    `ActorCell::new_remote(_, Remote id)`: touches neither map, tells nobody.
* `exitBegin a` the cleanup block of `set_status(≥ Stopping)`, run once per actor:
                `demonitor(self.get_id())` FIRST (every cell, also a remote one), then
                `unregister_pid(id)`: local id and `remove(&id)` hit → `Terminate(cell)` to every listener
                that is *still* in the map — an exiting monitor is not told of its own termination.
                (The name unregister and the pg clean-up follow in the same block; not part of this model.)
* `exitEnd a`   `set_status(Stopped)`: nothing for either map.
* `monitor m`   `listeners.insert(m.get_id(), m)` — for ANY cell: local, remote, or already exited
                (a stale entry that nobody removes: `demonitor` ran when the actor exited).
* `demonitor m` `listeners.remove(&m)`.
* `getAll`, `whereIs a`   `get_all_pids()`, `where_is_pid(id)` (`None` at once for a remote id).

The output of an op is the list of lifecycle events *sent* (`events`), each with its recipient.
`delivered` = the sent events whose recipient can still handle them (has not begun to exit):
`send_supervisor_evt` to an actor that sits in `post_stop` or is gone is silently lost (`let _ =`).
-/

namespace PidRegistry

structure Actor where
  id : Nat
  remote : Bool
  /-- 0 = live (`< Stopping`), 1 = cleanup block done / sits in `post_stop`, 2 = `Stopped` -/
  phase : Nat
  deriving DecidableEq, Repr

structure State where
  pids : List Nat
  mons : List Nat
  actors : List Actor
  deriving DecidableEq, Repr

def init : State := ⟨[], [], []⟩

/-- one `send_supervisor_evt(SupervisionEvent::PidLifecycleEvent(..))`:
`spawn = true` is `Spawn(who)`, `false` is `Terminate(who)`, sent to listener `to` -/
structure Ev where
  to : Nat
  spawn : Bool
  who : Nat
  deriving DecidableEq, Repr

inductive Op
  | spawn (a : Nat)
  | remote (a : Nat)
  | exitBegin (a : Nat)
  | exitEnd (a : Nat)
  | monitor (m : Nat)
  | demonitor (m : Nat)
  | getAll
  | whereIs (a : Nat)
  deriving DecidableEq, Repr

inductive Obs
  | ok
  | bad
  | pids (l : List Nat)
  | found (b : Bool)
  deriving DecidableEq, Repr

def getA (s : State) (a : Nat) : Option Actor := s.actors.find? (·.id == a)

def known (s : State) (a : Nat) : Bool := s.actors.any (·.id == a)

def setPhase (l : List Actor) (a p : Nat) : List Actor :=
  l.map (fun x => if x.id = a then { x with phase := p } else x)

/-- the recipient can still handle a supervision event -/
def alive (s : State) (m : Nat) : Bool := s.actors.any (fun x => x.id == m && x.phase == 0)

def step (s : State) : Op → State
  | .spawn a =>
    if known s a then s
    else { pids := s.pids ++ [a], mons := s.mons, actors := s.actors ++ [⟨a, false, 0⟩] }
  | .remote a =>
    if known s a then s
    else { s with actors := s.actors ++ [⟨a, true, 0⟩] }
  | .exitBegin a =>
    match getA s a with
    | none => s
    | some x =>
      if x.phase ≠ 0 then s
      else { pids := if x.remote then s.pids else s.pids.filter (· != a),
             mons := s.mons.filter (· != a),
             actors := setPhase s.actors a 1 }
  | .exitEnd a =>
    match getA s a with
    | none => s
    | some x => if x.phase ≠ 1 then s else { s with actors := setPhase s.actors a 2 }
  | .monitor m =>
    if known s m && !s.mons.contains m then { s with mons := s.mons ++ [m] } else s
  | .demonitor m => { s with mons := s.mons.filter (· != m) }
  | .getAll => s
  | .whereIs _ => s

/-- the lifecycle events one op sends, with their recipients -/
def events (s : State) : Op → List Ev
  | .spawn a => if known s a then [] else s.mons.map (fun m => ⟨m, true, a⟩)
  | .exitBegin a =>
    match getA s a with
    | none => []
    | some x =>
      if x.phase = 0 ∧ x.remote = false ∧ a ∈ s.pids then
        (s.mons.filter (· != a)).map (fun m => ⟨m, false, a⟩)
      else []
  | _ => []

/-- what the listeners really get to handle -/
def delivered (s : State) (op : Op) : List Ev := (events s op).filter (fun e => alive s e.to)

/-- `where_is_pid(id)`: `None` at once for a remote id, else a lookup in the pid table -/
def whereIsPid (s : State) (a : Nat) : Bool :=
  match getA s a with
  | some x => !x.remote && s.pids.contains a
  | none => false

def obs (s : State) : Op → Obs
  | .spawn a => if known s a then .bad else .ok
  | .remote a => if known s a then .bad else .ok
  | .exitBegin a => match getA s a with
    | some x => if x.phase = 0 then .ok else .bad
    | none => .bad
  | .exitEnd a => match getA s a with
    | some x => if x.phase = 1 then .ok else .bad
    | none => .bad
  | .monitor m => if known s m then .ok else .bad
  | .demonitor _ => .ok
  | .getAll => .pids s.pids
  | .whereIs a => .found (whereIsPid s a)

def run (s : State) : List Op → State
  | [] => s
  | op :: ops => run (step s op) ops

/-- every lifecycle event sent during a run, in order -/
def trace (s : State) : List Op → List Ev
  | [] => []
  | op :: ops => events s op ++ trace (step s op) ops

/-- every lifecycle event a listener got to handle during a run, in order -/
def dtrace (s : State) : List Op → List Ev
  | [] => []
  | op :: ops => delivered s op ++ dtrace (step s op) ops

/-- The abstract set `get_all_pids` refines: the local actors that have not begun to exit. -/
def liveLocals (s : State) : List Nat :=
  (s.actors.filter (fun x => !x.remote && x.phase == 0)).map (·.id)

/-- A whole exit (stop, kill, drain, failed start). -/
def exitOps (a : Nat) : List Op := [.exitBegin a, .exitEnd a]

/-- `monitor` is only ever called for actors that have not begun to exit (excluding hypothesis of
`monitors_alive_partial`; its negation is the stale-listener behaviour). -/
def noLateMonitor (s : State) : List Op → Bool
  | [] => true
  | op :: ops =>
    (match op with
     | .monitor m => alive s m || !known s m
     | _ => true) && noLateMonitor (step s op) ops

/-! ### The property as decidable predicates on what an observer sees

`View` is what the harness reads off the real implementation after every op: `get_all_pids()`,
the listener map (`verif_pid_listeners`), every actor it created (id, remote?, phase from the status
word) and the ids for which `where_is_pid` answers `Some`. The theorems of `Props/C10.lean` state that the
clauses below never fail on a reachable model state; the driver evaluates the very same functions on the
implementation's own views and on the events its logging actors handled. -/

structure View where
  pids : List Nat
  mons : List Nat
  actors : List Actor
  found : List Nat
  deriving DecidableEq, Repr

def view (s : State) : View :=
  { pids := s.pids, mons := s.mons, actors := s.actors,
    found := (s.actors.map (·.id)).filter (whereIsPid s) }

def vKnown (v : View) (a : Nat) : Bool := v.actors.any (·.id == a)
def vAlive (v : View) (a : Nat) : Bool := v.actors.any (fun x => x.id == a && x.phase == 0)
def vLocal (v : View) (a : Nat) : Bool := v.actors.any (fun x => x.id == a && !x.remote)
def vRemote (v : View) (a : Nat) : Bool := v.actors.any (fun x => x.id == a && x.remote)
def vLiveLocal (v : View) (a : Nat) : Bool :=
  v.actors.any (fun x => x.id == a && !x.remote && x.phase == 0)
def vLiveLocals (v : View) : List Nat :=
  (v.actors.filter (fun x => !x.remote && x.phase == 0)).map (·.id)

def sameElems (l₁ l₂ : List Nat) : Bool := l₁.all (l₂.contains ·) && l₂.all (l₁.contains ·)

/-- the events an op must make the *live* listeners handle, computed from the view before the op -/
def expected (before : View) : Op → List Ev
  | .spawn a =>
    if vKnown before a then []
    else (before.mons.filter (vAlive before)).map (fun m => ⟨m, true, a⟩)
  | .exitBegin a =>
    if vLiveLocal before a then
      ((before.mons.filter (· != a)).filter (vAlive before)).map (fun m => ⟨m, false, a⟩)
    else []
  | _ => []

/-- failing clauses of one step: `before`/`after` are the views around the op, `evs` the events the
listeners handled because of it -/
def failingStep (before : View) (op : Op) (after : View) (evs : List Ev) : List String :=
  (if sameElems after.pids (vLiveLocals after) && after.pids.Nodup then []
     else ["get-all-pids-not-live-locals"]) ++
  (if sameElems after.found after.pids then [] else ["where-is-pid-disagrees"]) ++
  (if evs.all (fun e => !vRemote after e.who && vLocal after e.who) then []
     else ["pid-event-for-remote-actor"]) ++
  (if evs.all (fun e => (expected before op).contains e) then []
     else ["pid-event-to-non-monitor-or-unexpected"]) ++
  (if (expected before op).all (fun e => evs.count e == 1) then []
     else ["pid-lifecycle-event-missing-or-duplicated"]) ++
  (match op with
   | .exitBegin a => if vAlive before a && after.mons.contains a then ["dead-monitor-not-removed"] else []
   | .remote _ => if after.pids = before.pids ∧ after.mons = before.mons then []
                  else ["remote-creation-visible"]
   | _ => [])

/-- no `Spawn(a)` in `l` -/
def spawnFree (a : Nat) (l : List Ev) : Bool := l.all (fun e => !(e.spawn && e.who == a))

/-- after a `Terminate(a)` — to anybody — nobody is ever told `Spawn(a)` -/
def okOrder : List Ev → Bool
  | [] => true
  | e :: l => (e.spawn || spawnFree e.who l) && okOrder l

/-- the same per recipient: the order in which ONE listener handles its events is all an observer of
the real system can rely on (listeners run concurrently) -/
def okOrderPer (h : List Ev) : Bool :=
  h.all (fun e => okOrder (h.filter (fun e' => e'.to == e.to)))

/-- failing clauses of a whole history of handled events -/
def failingHist (h : List Ev) : List String :=
  (if okOrderPer h then [] else ["terminate-before-spawn"]) ++
  (if h.Nodup then [] else ["pid-lifecycle-event-repeated"])

end PidRegistry
