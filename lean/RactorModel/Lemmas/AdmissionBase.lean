import RactorModel.Model.Admission

/-!
Helper lemmas for the `Admission` model: the counting technique (thread-indexed quantities are
sums of `List.countP`s; one program-counter update becomes one linear equation `Delta`), item
lists, and the effect of a worker step on the channel and on the monotone parts of the state.
-/

namespace Admission

/-! ### Counting -/

theorem sum_map_set {α : Type} (f : α → Nat) (l : List α) (i : Nat) (x y : α)
    (h : l[i]? = some y) : ((l.set i x).map f).sum + f y = (l.map f).sum + f x := by
  induction l generalizing i with
  | nil => simp at h
  | cons a l ih =>
    cases i with
    | zero =>
      simp only [List.getElem?_cons_zero, Option.some.injEq] at h
      subst h
      simp only [List.set_cons_zero, List.map_cons, List.sum_cons]
      omega
    | succ i =>
      simp only [List.getElem?_cons_succ] at h
      have := ih i h
      simp only [List.set_cons_succ, List.map_cons, List.sum_cons]
      omega

/-- Updating thread `i`'s stack changes a frame count by the difference on that stack. -/
theorem cnt_set (p : Frame → Bool) (g : G) (i : Nat) (s' : Shared) (stack stack' : List Frame)
    (h : g.threads[i]? = some stack) :
    cnt p { sh := s', threads := g.threads.set i stack' } + stack.countP p
      = cnt p g + stack'.countP p := by
  unfold cnt
  exact sum_map_set (fun st => st.countP p) g.threads i stack' stack h

theorem cnt_sh (p : Frame → Bool) (g : G) (s' : Shared) :
    cnt p { g with sh := s' } = cnt p g := rfl

theorem cnt_init (p : Frame → Bool) (hp : ∀ ops, p { pc := .run, ops := ops } = false)
    (progs : List (List Op)) : cnt p (init progs) = 0 := by
  unfold cnt init
  induction progs with
  | nil => rfl
  | cons a l ih =>
    simp only [List.map_cons, List.sum_cons, List.countP_cons, List.countP_nil, hp] at ih ⊢
    simpa using ih

/-- Monotonicity: a stronger frame predicate counts fewer frames. -/
theorem cnt_le_of_imp (p q : Frame → Bool) (h : ∀ f, p f = true → q f = true) (g : G) :
    cnt p g ≤ cnt q g := by
  unfold cnt
  induction g.threads with
  | nil => simp
  | cons a l ih =>
    simp only [List.map_cons, List.sum_cons]
    have : a.countP p ≤ a.countP q := List.countP_mono_left (fun x _ hx => h x hx)
    omega

/-! ### Item lists -/

theorem markerLast_append_msg (l : List Item) (i : Nat) (h : markerLast l = true)
    (hc : l.count .drain = 0) : markerLast (l ++ [.msg i]) = true := by
  induction l with
  | nil => rfl
  | cons a l ih =>
    cases a with
    | msg j =>
      simp only [List.cons_append, markerLast] at h ⊢
      apply ih h
      simpa [List.count_cons] using hc
    | drain => simp at hc

theorem markerLast_append_drain (l : List Item) (hc : l.count .drain = 0) :
    markerLast (l ++ [.drain]) = true := by
  induction l with
  | nil => rfl
  | cons a l ih =>
    cases a with
    | msg j =>
      simp only [List.cons_append, markerLast]
      apply ih
      simpa [List.count_cons] using hc
    | drain => simp at hc


theorem le_sum_of_mem (l : List Nat) (x : Nat) (h : x ∈ l) : x ≤ l.sum := by
  induction l with
  | nil => simp at h
  | cons a l ih =>
    simp only [List.mem_cons] at h
    simp only [List.sum_cons]
    rcases h with rfl | h
    · omega
    · have := ih h; omega

theorem cnt_ge (p : Frame → Bool) (g : G) (i : Nat) (stack : List Frame)
    (h : g.threads[i]? = some stack) : stack.countP p ≤ cnt p g := by
  unfold cnt
  have hm : stack ∈ g.threads := List.mem_of_getElem? h
  exact le_sum_of_mem _ _ (List.mem_map.mpr ⟨stack, hm, rfl⟩)

/-- A frame of some thread that satisfies `p` is counted. -/
theorem cnt_pos_of_mem (p : Frame → Bool) (g : G) (stack : List Frame) (f : Frame)
    (hs : stack ∈ g.threads) (hf : f ∈ stack) (hp : p f = true) : 0 < cnt p g := by
  obtain ⟨i, hi⟩ := List.getElem?_of_mem hs
  have := cnt_ge p g i stack hi
  have : 0 < stack.countP p := List.countP_pos_iff.mpr ⟨f, hf, hp⟩
  omega

/-- How one worker step changes the number of frames satisfying `p`: the hypotheses every
step lemma takes about a frame count. -/
structure Delta (p : Frame → Bool) (stack stack' : List Frame) (A A' : Nat) : Prop where
  eq : A' + stack.countP p = A + stack'.countP p
  le : stack.countP p ≤ A

theorem delta_of_set (p : Frame → Bool) (g : G) (i : Nat) (s' : Shared) (stack stack' : List Frame)
    (h : g.threads[i]? = some stack) :
    Delta p stack stack' (cnt p g) (cnt p { sh := s', threads := g.threads.set i stack' }) :=
  ⟨cnt_set p g i s' stack stack' h, cnt_ge p g i stack h⟩

/-! ### Effect of a worker step on the channel and the monotone parts of the state -/

structure Effect (s s' : Shared) : Prop where
  chan : ∃ l, s'.enq = s.enq ++ l ∧ s'.queue = s.queue ++ l ∧ (l ≠ [] → s.rxOpen = true)
  deqd : s'.deqd = s.deqd
  flushed : s'.flushed = s.flushed
  handled : s'.handled = s.handled
  taken : s'.taken = s.taken
  dropped : s'.dropped = s.dropped
  rxOpen : s'.rxOpen = s.rxOpen
  rxStopped : s'.rxStopped = s.rxStopped
  stoppedByOther : s'.stoppedByOther = s.stoppedByOther
  drainedExits : s'.drainedExits = s.drainedExits
  status : s.status ≤ s'.status
  closed : s.word.closed = true → s'.word.closed = true
  marker : s.word.marker = true → s'.word.marker = true
  nextId : s.nextId ≤ s'.nextId
  rets : ∃ l, s'.rets = s.rets ++ l

theorem stepThread_effect {s s' : Shared} {stack stack' : List Frame}
    (hs : stepThread s stack = some (s', stack')) : Effect s s' := by
  cases stack with
  | nil => simp [stepThread] at hs
  | cons f rest =>
    obtain ⟨pc, id, late, ops, bf, sk⟩ := f
    cases pc <;> (try (cases ops <;> try (rename_i op ops'; cases op))) <;>
    simp only [stepThread, finish, startOp] at hs <;> (repeat' (split at hs)) <;>
    (try (simp only [Option.some.injEq, Prod.mk.injEq, reduceCtorEq] at hs)) <;>
    (try (obtain ⟨rfl, rfl⟩ := hs)) <;>
    (constructor <;> (try simp only) <;>
      first
      | rfl
      | omega
      | exact fun h => h
      | (refine ⟨[], ?_⟩; simp; done)
      | (refine ⟨[_], ?_⟩; simp_all; done)
      | (simp only [stDraining, stStopping] at *; omega)
      | grind)

end Admission

namespace Admission

theorem markerLast_split (l a b : List Item) (h : markerLast l = true) (e : l = a ++ .drain :: b) :
    b = [] := by
  induction l generalizing a with
  | nil => simp at e
  | cons x l ih =>
    cases a with
    | nil =>
      simp only [List.nil_append, List.cons.injEq] at e
      obtain ⟨rfl, rfl⟩ := e
      simpa [markerLast] using h
    | cons y a =>
      simp only [List.cons_append, List.cons.injEq] at e
      obtain ⟨rfl, e⟩ := e
      cases x with
      | msg i => exact ih a (by simpa [markerLast] using h) e
      | drain =>
        simp only [markerLast, List.isEmpty_iff] at h
        subst h
        simp at e

theorem count_msgIds (l : List Item) (i : Nat) : (msgIds l).count i = l.count (.msg i) := by
  induction l with
  | nil => rfl
  | cons x l ih =>
    cases x with
    | msg j => simp [msgIds, List.count_cons, ih]
    | drain => simp [msgIds, ih]

end Admission

namespace Admission

/-- The part of a list in front of the first occurrence of `x` is unique. -/
theorem prefix_unique {α : Type} (x : α) (a1 a2 b1 b2 : List α) (h1 : x ∉ a1) (h2 : x ∉ a2)
    (e : a1 ++ x :: b1 = a2 ++ x :: b2) : a1 = a2 := by
  induction a1 generalizing a2 with
  | nil =>
    cases a2 with
    | nil => rfl
    | cons y a2 =>
      simp only [List.nil_append, List.cons_append, List.cons.injEq] at e
      exact absurd (e.1 ▸ List.mem_cons_self) h2
  | cons y a1 ih =>
    cases a2 with
    | nil =>
      simp only [List.nil_append, List.cons_append, List.cons.injEq] at e
      exact absurd (e.1 ▸ List.mem_cons_self) h1
    | cons z a2 =>
      simp only [List.cons_append, List.cons.injEq] at e
      obtain ⟨rfl, e⟩ := e
      rw [ih a2 (fun h => h1 (List.mem_cons_of_mem _ h)) (fun h => h2 (List.mem_cons_of_mem _ h)) e]

/-- the marker, once in a marker-last list, is its last element: a prefix containing it is everything -/
theorem markerLast_prefix_all (a b : List Item) (h : markerLast (a ++ b) = true) (hm : Item.drain ∈ a) :
    b = [] := by
  obtain ⟨a1, a2, rfl⟩ := List.append_of_mem hm
  have := markerLast_split (a1 ++ Item.drain :: a2 ++ b) a1 (a2 ++ b) h (by simp)
  simpa using (List.append_eq_nil_iff.mp this).2


/-! ### Uninterleaved runs of one thread -/

theorem step_t {g : G} {i : Nat} {stack stack' : List Frame} {s' : Shared}
    (h : g.threads[i]? = some stack) (hs : stepThread g.sh stack = some (s', stack')) :
    step g (.t i) = { sh := s', threads := g.threads.set i stack' } := by
  simp [step, h, hs]

theorem get_set_self {g : G} {i : Nat} {stack x : List Frame} (s' : Shared)
    (h : g.threads[i]? = some stack) :
    ({ sh := s', threads := g.threads.set i x } : G).threads[i]? = some x := by
  have hlt : i < g.threads.length := (List.getElem?_eq_some_iff.mp h).1
  simp [List.getElem?_set_self hlt]

/-- thread `i` runs `n` steps from stack `stack` -/
def runThread (s : Shared) (stack : List Frame) : Nat → Shared × List Frame
  | 0 => (s, stack)
  | n + 1 =>
    match stepThread s stack with
    | some (s', stack') => runThread s' stack' n
    | none => (s, stack)

theorem runThread_none {s : Shared} {stack : List Frame} (h : stepThread s stack = none) (n : Nat) :
    runThread s stack n = (s, stack) := by
  cases n <;> simp [runThread, h]

theorem run_replicate {g : G} {i : Nat} {stack : List Frame} (n : Nat)
    (h : g.threads[i]? = some stack) :
    run g (List.replicate n (.t i)) =
      { sh := (runThread g.sh stack n).1, threads := g.threads.set i (runThread g.sh stack n).2 } := by
  induction n generalizing g stack with
  | zero =>
    simp only [List.replicate_zero, run, List.foldl_nil, runThread]
    have : g.threads.set i stack = g.threads := by
      have hlt : i < g.threads.length := (List.getElem?_eq_some_iff.mp h).1
      have := (List.getElem?_eq_some_iff.mp h).2
      rw [← this]; simp
    rw [this]
  | succ n ih =>
    simp only [List.replicate_succ, run, List.foldl_cons, runThread]
    cases hs : stepThread g.sh stack with
    | none =>
      have : step g (.t i) = g := by simp [step, h, hs]
      rw [this]
      have := ih (g := g) h
      simp only [run] at this
      rw [this, runThread_none hs]
    | some r =>
      obtain ⟨s', stack'⟩ := r
      rw [step_t h hs]
      have := ih (g := { sh := s', threads := g.threads.set i stack' }) (get_set_self s' h)
      simp only [run] at this
      rw [this]
      simp


end Admission
