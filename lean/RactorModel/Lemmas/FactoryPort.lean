import RactorModel.Lemmas.FactoryNoDrop
import RactorModel.Lemmas.FactoryLimitRun

/-! The acceptance port over whole runs. The projection `portsOf` keeps three kinds of events of a history: a dispatch
that carried an acceptance port (`disp id`), an answer on a port (`reply id back`: `back = false` is "accepted" = `None`,
`back = true` is "rejected" = `Some(job)`), and a port dropped unanswered with the factory's mailbox (`closed id`).
Frame scheme of `FactoryNoDrop.lean`, plus the state invariant `QF` (a job in the factory queue has no port any more). -/

namespace Factory

inductive PEv
  | disp (id : Nat)
  | reply (id : Nat) (back : Bool)
  | closed (id : Nat)
  deriving DecidableEq, Repr

def portEv : Ev → Option PEv
  | .dispatched id _ true => some (.disp id)
  | .reply id b => some (.reply id b)
  | .portClosed id => some (.closed id)
  | _ => none

def portsOf (log : List Ev) : List PEv := log.filterMap portEv

def isPort (ev : Ev) : Bool := (portEv ev).isSome

theorem portsOf_append (a b : List Ev) : portsOf (a ++ b) = portsOf a ++ portsOf b := by
  simp [portsOf, List.filterMap_append]

theorem portsOf_single (ev : Ev) (h : isPort ev = false) : portsOf [ev] = [] := by
  unfold isPort at h
  cases hp : portEv ev with
  | none => simp [portsOf, hp]
  | some x => simp [hp] at h

/-- what `job.accept()` / `job.reject()` put on the port of `j` -/
def replyOf (j : Job) (b : Bool) : List PEv := if j.port then [.reply j.id b] else []

theorem replyOf_noport {j : Job} (h : j.port = false) (b : Bool) : replyOf j b = [] := by simp [replyOf, h]

/-- a job in the factory's queue has been answered already (`maybe_enqueue` accepts before it queues) -/
def QF (w : W) : Prop := ∀ j ∈ w.queue, j.port = false

/-- the environment's log gained no port event -/
def MuteE (e e' : Env) : Prop := portsOf e'.log = portsOf e.log

theorem MuteE.refl (e : Env) : MuteE e e := rfl
theorem MuteE.trans {a b c : Env} (h1 : MuteE a b) (h2 : MuteE b c) : MuteE a c := Eq.trans h2 h1

theorem muteE_emit (e : Env) (ev : Ev) (h : isPort ev = false) : MuteE e (e.emit ev) := by
  simp [MuteE, Env.emit, portsOf_append, portsOf_single ev h]

theorem muteE_discard (e : Env) {h : Option Nat} (r : Reason) (j : Job) : MuteE e (e.discard h r j) := muteE_emit e _ rfl

theorem ports_reject (e : Env) (j : Job) : portsOf (e.reject j).log = portsOf e.log ++ replyOf j true := by
  unfold Env.reject replyOf; split
  · simp [Env.emit, portsOf_append, portsOf, portEv]
  · simp
theorem ports_accept (e : Env) (j : Job) : portsOf (e.accept j).log = portsOf e.log ++ replyOf j false := by
  unfold Env.accept replyOf; split
  · simp [Env.emit, portsOf_append, portsOf, portEv]
  · simp

theorem muteE_reject (e : Env) (j : Job) (hp : j.port = false) : MuteE e (e.reject j) := by
  unfold MuteE; rw [ports_reject, replyOf_noport hp]; simp
theorem muteE_accept (e : Env) (j : Job) (hp : j.port = false) : MuteE e (e.accept j) := by
  unfold MuteE; rw [ports_accept, replyOf_noport hp]; simp

theorem muteE_setActor (e : Env) (a : Actor) : MuteE e (e.setActor a) := rfl

theorem muteE_cast (e e' : Env) (aid : Nat) (j : Job) (h : e.cast aid j = some e') : MuteE e e' := by
  unfold Env.cast at h
  cases ha : e.getActor aid with
  | none => simp [ha] at h
  | some a =>
    simp only [ha] at h
    split at h
    · simp at h
    · simp only [Option.some.injEq] at h; subst h; rfl

theorem portsOf_lost (aid : Nat) (l : List Job) : portsOf (l.map fun j => Ev.lost aid j.id) = [] := by
  induction l with
  | nil => rfl
  | cons j l ih => simpa [portsOf, portEv] using ih

theorem muteE_die (e : Env) (aid : Nat) : MuteE e (e.die aid) := by
  unfold Env.die
  cases ha : e.getActor aid with
  | none => rfl
  | some a =>
    simp only
    split
    · rfl
    · simp [MuteE, portsOf_append, portsOf_lost, Env.setActor]

theorem muteE_killAll (e : Env) : MuteE e e.killAll := by
  unfold Env.killAll
  generalize e.actors.map (·.aid) = ids
  induction ids generalizing e with
  | nil => rfl
  | cons a as ih => rw [List.foldl_cons]; exact (muteE_die e a).trans (ih _)

theorem muteE_stop (e : Env) (aid : Nat) : MuteE e (e.stop aid) := by
  unfold Env.stop
  cases ha : e.getActor aid with
  | none => rfl
  | some a => simp only; split <;> rfl

theorem muteE_settleOne (e : Env) (aid : Nat) : MuteE e (e.settleOne aid) := by
  unfold Env.settleOne
  cases ha : e.getActor aid with
  | none => rfl
  | some a =>
    simp only
    split
    · rfl
    · split
      · exact muteE_die e aid
      · cases hm : a.mailbox with
        | nil => rfl
        | cons j rest => simp only; exact (muteE_setActor e _).trans (muteE_emit _ _ rfl)

theorem muteE_settle (e : Env) : MuteE e e.settle := by
  unfold Env.settle
  generalize e.actors.map (·.aid) = ids
  induction ids generalizing e with
  | nil => rfl
  | cons a as ih => rw [List.foldl_cons]; exact (muteE_settleOne e a).trans (ih _)

theorem muteE_spawn (e : Env) (wid aid : Nat) : MuteE e (e.spawn wid aid) := by
  simp [MuteE, Env.spawn, portsOf, portEv]

theorem muteE_getNextNonExpired {h : Option Nat} (mq : List Job) (pend : List Nat) (e : Env) :
    MuteE e (getNextNonExpired h mq pend e).2.2.2 := by
  induction mq generalizing pend e with
  | nil => rfl
  | cons j rest ih =>
    unfold getNextNonExpired
    split
    · rfl
    · exact (muteE_discard e _ j).trans (ih _ _)

theorem muteE_getNext (p : WP) (e : Env) : MuteE e (p.getNext e).2.2 :=
  muteE_getNextNonExpired p.mq p.pending e

theorem muteE_dispatchJob (p : WP) (e : Env) (j : Job) : MuteE e (p.dispatchJob e j).2 := by
  unfold WP.dispatchJob
  cases hc : e.cast p.actor j with
  | none => rfl
  | some e' => exact muteE_cast e e' _ j hc

theorem muteE_shedOldest (limit fuel : Nat) (p : WP) (e : Env) : MuteE e (shedOldest limit fuel p e).2 := by
  induction fuel generalizing p e with
  | zero => rfl
  | succ fuel ih =>
    unfold shedOldest
    split
    · have hg := muteE_getNext p e
      cases hn : p.getNext e with
      | mk r pe =>
        obtain ⟨p', e'⟩ := pe
        rw [hn] at hg
        cases r with
        | none => simp only; exact hg.trans (ih _ _)
        | some d => simp only; exact (hg.trans (muteE_discard _ _ _)).trans (ih _ _)
    · rfl

theorem muteE_enqueueAccepted (p : WP) (e : Env) (j : Job) : MuteE e (p.enqueueAccepted e j).2 := by
  unfold WP.enqueueAccepted
  split
  · have hg := muteE_getNext p e
    cases hn : p.getNext e with
    | mk r pe =>
      obtain ⟨p', e'⟩ := pe
      rw [hn] at hg
      cases r with
      | none => simp only; exact hg.trans (muteE_dispatchJob _ _ _)
      | some d => simp only; exact hg.trans (muteE_dispatchJob _ _ _)
  · simp only
    split
    · exact muteE_shedOldest _ _ _ _
    · rfl

theorem ports_enqueueJob (p : WP) (e : Env) (j : Job) :
    ∃ b, portsOf (p.enqueueJob e j).2.log = portsOf e.log ++ replyOf j b := by
  unfold WP.enqueueJob; split
  · refine ⟨true, ?_⟩
    rw [ports_reject, muteE_discard e _ j]
  · refine ⟨false, ?_⟩
    rw [muteE_enqueueAccepted _ (e.accept j) _, ports_accept]

theorem muteE_workerComplete (p : WP) (e : Env) (key : Nat) : MuteE e (p.workerComplete e key).2 := by
  unfold WP.workerComplete
  split
  · generalize ({ p with curr := p.curr.filter (fun x => x.1 != key), pending := p.pending.erase key } : WP) = p0
    have hg := muteE_getNext p0 e
    cases hn : p0.getNext e with
    | mk r pe =>
      obtain ⟨p', e'⟩ := pe
      rw [hn] at hg
      cases r with
      | none => simp only [hn]; exact hg
      | some d => simp only [hn]; exact hg.trans (muteE_dispatchJob _ _ _)
  · rfl

theorem muteE_replaceWorker (p : WP) (e : Env) (naid : Nat) : MuteE e (p.replaceWorker e naid).2 := by
  unfold WP.replaceWorker
  simp only
  generalize ({ p with curr := [], pending := p.curr.foldl (fun acc x => acc.erase x.1) p.pending, actor := naid } : WP) = p0
  have hg := muteE_getNext p0 e
  cases hn : p0.getNext e with
  | mk r pe =>
    obtain ⟨p', e'⟩ := pe
    rw [hn] at hg
    cases r with
    | none => simp only [hn]; exact hg
    | some d => simp only [hn]; exact hg.trans (muteE_dispatchJob _ _ _)

/-! ### the factory -/

def portMsg : FMsg → Option Nat
  | .dispatch j => if j.port then some j.id else none
  | _ => none

/-- the ids of the dispatches with an unanswered acceptance port that wait in the factory's mailbox -/
def portMsgs (inbox : List FMsg) : List Nat := inbox.filterMap portMsg

theorem portMsgs_append (a b : List FMsg) : portMsgs (a ++ b) = portMsgs a ++ portMsgs b := by
  simp [portMsgs, List.filterMap_append]

/-- no port event, the queue stays port-free, the mailbox keeps its unanswered ports, the stop state did not go back -/
structure Mute (w w' : W) : Prop where
  qf : QF w → QF w'
  ports : QF w → portsOf w'.env.log = portsOf w.env.log
  exited : QF w → w'.exited = w.exited
  stopped : QF w → w.stopped = true → w'.stopped = true
  inbox : QF w → portMsgs w'.inbox = portMsgs w.inbox

/-- the port history grew by exactly `ext` -/
structure Grow (ext : List PEv) (w w' : W) : Prop where
  qf : QF w → QF w'
  ports : QF w → portsOf w'.env.log = portsOf w.env.log ++ ext
  exited : QF w → w'.exited = w.exited
  stopped : QF w → w.stopped = true → w'.stopped = true
  inbox : QF w → portMsgs w'.inbox = portMsgs w.inbox

theorem Mute.of_not {w w' : W} (h : ¬ QF w) : Mute w w' :=
  ⟨fun q => absurd q h, fun q => absurd q h, fun q => absurd q h, fun q => absurd q h, fun q => absurd q h⟩

theorem Mute.refl (w : W) : Mute w w := ⟨id, fun _ => rfl, fun _ => rfl, fun _ h => h, fun _ => rfl⟩
theorem Mute.trans {a b c : W} (h1 : Mute a b) (h2 : Mute b c) : Mute a c :=
  ⟨fun q => h2.qf (h1.qf q), fun q => (h2.ports (h1.qf q)).trans (h1.ports q),
   fun q => (h2.exited (h1.qf q)).trans (h1.exited q),
   fun q h => h2.stopped (h1.qf q) (h1.stopped q h), fun q => (h2.inbox (h1.qf q)).trans (h1.inbox q)⟩

theorem Mute.toGrow {a b : W} (h : Mute a b) : Grow [] a b :=
  ⟨h.qf, fun q => by rw [h.ports q]; simp, h.exited, h.stopped, h.inbox⟩
theorem Grow.toMute {a b : W} (h : Grow [] a b) : Mute a b :=
  ⟨h.qf, fun q => by rw [h.ports q]; simp, h.exited, h.stopped, h.inbox⟩
theorem Mute.grow {x : List PEv} {a b c : W} (h1 : Mute a b) (h2 : Grow x b c) : Grow x a c :=
  ⟨fun q => h2.qf (h1.qf q), fun q => by rw [h2.ports (h1.qf q), h1.ports q],
   fun q => (h2.exited (h1.qf q)).trans (h1.exited q),
   fun q h => h2.stopped (h1.qf q) (h1.stopped q h), fun q => (h2.inbox (h1.qf q)).trans (h1.inbox q)⟩
theorem Grow.mute {x : List PEv} {a b c : W} (h1 : Grow x a b) (h2 : Mute b c) : Grow x a c :=
  ⟨fun q => h2.qf (h1.qf q), fun q => by rw [h2.ports (h1.qf q), h1.ports q],
   fun q => (h2.exited (h1.qf q)).trans (h1.exited q),
   fun q h => h2.stopped (h1.qf q) (h1.stopped q h), fun q => (h2.inbox (h1.qf q)).trans (h1.inbox q)⟩
theorem Grow.cast {x y : List PEv} {a b : W} (h : Grow x a b) (e : x = y) : Grow y a b := e ▸ h

theorem Mute.same {w w' : W} (hq : w'.queue = w.queue) (hl : w'.env.log = w.env.log) (hx : w'.exited = w.exited)
    (hs : w'.stopped = w.stopped) (hi : w'.inbox = w.inbox) : Mute w w' :=
  ⟨fun q => by unfold QF; rw [hq]; exact q, fun _ => by rw [hl], fun _ => hx, fun _ h => by rw [hs]; exact h, fun _ => by rw [hi]⟩

theorem Mute.of_env {w w' : W} (he : MuteE w.env w'.env) (hx : w'.exited = w.exited) (hs : w'.stopped = w.stopped)
    (hq : w'.queue = w.queue) (hi : w'.inbox = w.inbox) : Mute w w' :=
  ⟨fun q => by unfold QF; rw [hq]; exact q, fun _ => he, fun _ => hx, fun _ h => by rw [hs]; exact h, fun _ => by rw [hi]⟩

/-- the queue shrank to a part of itself, the environment is judged under `QF` -/
theorem Mute.of_sub {w w' : W} (he : QF w → MuteE w.env w'.env) (hx : w'.exited = w.exited) (hs : w'.stopped = w.stopped)
    (hq : ∀ j ∈ w'.queue, j ∈ w.queue) (hi : w'.inbox = w.inbox) : Mute w w' :=
  ⟨fun q j hj => q j (hq j hj), he, fun _ => hx, fun _ h => by rw [hs]; exact h, fun _ => by rw [hi]⟩

theorem Grow.of_env {x : List PEv} {w w' : W} (he : portsOf w'.env.log = portsOf w.env.log ++ x) (hx : w'.exited = w.exited)
    (hs : w'.stopped = w.stopped) (hq : w'.queue = w.queue) (hi : w'.inbox = w.inbox) : Grow x w w' :=
  ⟨fun q => by unfold QF; rw [hq]; exact q, fun _ => he, fun _ => hx, fun _ h => by rw [hs]; exact h, fun _ => by rw [hi]⟩

theorem Mute.of_routerFrame {w w' : W} (f : RouterFrame w w') (hx : w'.exited = w.exited) : Mute w w' :=
  Mute.same f.queue (by rw [f.env]) hx f.stopped f.inbox

theorem pop_qf {cfg : Cfg} {ps : List Nat} {q : List Job} {x : Job} {r : List Job}
    (h : popByPrio cfg ps q = some (x, r)) : x ∈ q ∧ ∀ j ∈ r, j ∈ q := by
  have hp := popByPrio_perm h
  exact ⟨hp.mem_iff.mpr (List.mem_cons_self ..), fun j hj => hp.mem_iff.mpr (List.mem_cons_of_mem _ hj)⟩

theorem mute_availChange (w : W) (wid : Nat) (b : Bool) : Mute w (w.availChange wid b) :=
  Mute.of_routerFrame (availChange_frame w wid b) (availChange_exited w wid b)

theorem mute_choose (w : W) (j : Job) (hint : Option Nat) : Mute w (w.chooseTargetWorker j hint).2 :=
  Mute.of_routerFrame (chooseTargetWorker_frame w j hint) (chooseTargetWorker_exited w j hint)

/-- what a routing attempt with result `r` puts on the port of `j` -/
def routeExt (r : RouteResult) (j : Job) (b : Bool) : List PEv := if r = .handled then replyOf j b else []

theorem routeExt_ne {r : RouteResult} (h : r ≠ .handled) (j : Job) (b : Bool) : routeExt r j b = [] := by
  simp [routeExt, h]

theorem grow_routeInner (w : W) (j : Job) (hint : Option Nat) :
    ∃ b, Grow (routeExt (w.routeInner j hint).1 j b) w (w.routeInner j hint).2 := by
  unfold W.routeInner
  have hs := mute_choose w j hint
  cases hc : w.chooseTargetWorker j hint with
  | mk t w1 =>
    rw [hc] at hs
    simp only at hs ⊢
    cases t with
    | none => exact ⟨true, hs.toGrow⟩
    | some wid =>
      simp only
      cases hg : getW w1.pool wid with
      | none => exact ⟨true, hs.toGrow⟩
      | some p =>
        obtain ⟨b, hb⟩ := ports_enqueueJob p w1.env j
        refine ⟨b, ?_⟩
        simp only [routeExt, if_true]
        exact hs.grow (Grow.of_env hb rfl rfl rfl rfl)

theorem grow_routeLimited (w : W) (j : Job) (hint : Option Nat) :
    ∃ b, Grow (routeExt (w.routeLimited j hint).1 j b) w (w.routeLimited j hint).2 := by
  unfold W.routeLimited
  split
  · exact grow_routeInner w j hint
  · rename_i c lb _
    simp only
    have h0 : Mute w { w with rl := some (c, (LeakyBucket.check c lb w.env.now).1) } := (Mute.same rfl rfl rfl rfl rfl)
    split
    · refine ⟨true, Grow.cast (Mute.toGrow ?_) (routeExt_ne (r := .rateLimited) (by decide) j true).symm⟩
      split
      · split
        · rename_i hh _
          exact h0.trans (mute_availChange _ hh true)
        · exact h0
      · exact h0
    · obtain ⟨b, hi⟩ := grow_routeInner { w with rl := some (c, (LeakyBucket.check c lb w.env.now).1) } j hint
      refine ⟨b, ?_⟩
      cases hr : W.routeInner { w with rl := some (c, (LeakyBucket.check c lb w.env.now).1) } j hint with
      | mk r w2 =>
        rw [hr] at hi
        simp only at hi ⊢
        split
        · exact h0.grow (hi.mute (Mute.same rfl rfl rfl rfl rfl))
        · exact h0.grow hi

theorem grow_routeMessage (w : W) (j : Job) (hint : Option Nat) :
    ∃ b, Grow (routeExt (w.routeMessage j hint).1 j b) w (w.routeMessage j hint).2 := by
  unfold W.routeMessage
  obtain ⟨b, hi⟩ := grow_routeLimited w j hint
  refine ⟨b, ?_⟩
  cases hr : w.routeLimited j hint with
  | mk r w2 => rw [hr] at hi; exact hi.mute (Mute.same rfl rfl rfl rfl rfl)

theorem mute_routeMessage (w : W) (j : Job) (hint : Option Nat) (hj : j.port = false) : Mute w (w.routeMessage j hint).2 := by
  obtain ⟨b, h⟩ := grow_routeMessage w j hint
  apply Grow.toMute
  apply h.cast
  unfold routeExt; split
  · exact replyOf_noport hj b
  · rfl

theorem mute_dropExpiredHead (fuel : Nat) (w : W) : Mute w (W.dropExpiredHead fuel w) := by
  induction fuel generalizing w with
  | zero => exact Mute.refl w
  | succ fuel ih =>
    unfold W.dropExpiredHead
    split
    · split
      · split
        · rename_i j' q hp
          refine Mute.trans ?_ (ih _)
          have hm := pop_qf hp
          exact Mute.of_sub (fun qf => (muteE_discard w.env _ j').trans (muteE_reject _ j' (qf _ hm.1))) rfl rfl hm.2 rfl
        · exact Mute.refl w
      · exact Mute.refl w
    · exact Mute.refl w

theorem mute_routeLoop (hint : Option Nat) (fuel : Nat) (w : W) : Mute w (W.routeLoop hint fuel w) := by
  induction fuel generalizing w with
  | zero => exact Mute.refl w
  | succ fuel ih =>
    unfold W.routeLoop
    split
    · exact Mute.refl w
    · rename_i j hpk
      have hs := mute_choose w j hint
      cases hc : w.chooseTargetWorker j hint with
      | mk t w1 =>
        rw [hc] at hs
        simp only at hs ⊢
        cases t with
        | none => exact hs
        | some worker =>
          simp only
          cases hp : qPopFront w1.cfg w1.queue with
          | none => exact hs
          | some jq =>
            obtain ⟨j', q⟩ := jq
            simp only
            have hm := pop_qf hp
            have h1 : Mute w { w1 with queue := q } := hs.trans (Mute.of_sub (fun _ => MuteE.refl _) rfl rfl hm.2 rfl)
            by_cases hqf : QF w
            case neg => exact Mute.of_not hqf
            have hj' : j'.port = false := hs.qf hqf _ hm.1
            have hr := mute_routeMessage { w1 with queue := q } j' (some worker) hj'
            cases hrm : W.routeMessage { w1 with queue := q } j' (some worker) with
            | mk r w2 =>
              rw [hrm] at hr
              cases r with
              | handled => exact h1.trans hr
              | rateLimited =>
                simp only
                refine (h1.trans hr).trans (Mute.trans ?_ (ih _))
                exact Mute.of_env ((muteE_discard w2.env _ j').trans (muteE_reject _ j' hj')) rfl rfl rfl rfl
              | backlog =>
                -- unreachable: the router was asked a moment ago and named `worker`
                exfalso
                have hfr := chooseTargetWorker_frame w j hint
                rw [hc] at hfr
                simp only at hfr
                have hpk' : qPeek w.cfg w.queue = some j' := by
                  rw [← hfr.cfg, ← hfr.queue]; exact popByPrio_peek hp
                rw [hpk] at hpk'
                simp only [Option.some.injEq] at hpk'
                subst hpk'
                have := routeMessage_after_choice w j hint worker w1 hc q
                rw [hrm] at this
                exact this rfl

theorem mute_tryRoute (w : W) (hint : Option Nat) : Mute w (w.tryRouteNextActiveJob hint) := by
  unfold W.tryRouteNextActiveJob
  exact (mute_dropExpiredHead _ w).trans (mute_routeLoop _ _ _)

theorem mute_shedQueueOldest (limit fuel : Nat) (w : W) : Mute w (W.shedQueueOldest limit fuel w) := by
  induction fuel generalizing w with
  | zero => exact Mute.refl w
  | succ fuel ih =>
    unfold W.shedQueueOldest
    split
    · split
      · rename_i j q hp
        refine Mute.trans ?_ (ih _)
        exact Mute.of_sub (fun _ => muteE_discard w.env _ j) rfl rfl (pop_qf hp).2 rfl
      · exact ih w
    · exact Mute.refl w

theorem queue_append_qf {w : W} {q : List Job} (hq : QF w) (j : Job) : ∀ x ∈ w.queue ++ [{ j with port := false }], x.port = false := by
  intro x hx
  rcases List.mem_append.mp hx with h | h
  · exact hq x h
  · simp only [List.mem_singleton] at h; subst h; rfl

/-- `maybe_enqueue` answers the port of the incoming job exactly once: accepted when it queues it, rejected when it sheds it -/
theorem grow_maybeEnqueue (w : W) (j : Job) : ∃ b, Grow (replyOf j b) w (w.maybeEnqueue j) := by
  unfold W.maybeEnqueue
  split
  · split
    · refine ⟨true, Grow.of_env ?_ rfl rfl rfl rfl⟩
      show portsOf ((w.env.discard w.handler .loadshed j).reject j).log = _
      rw [ports_reject, muteE_discard w.env _ j]
    · refine ⟨false, ?_⟩
      exact ⟨fun q => queue_append_qf (q := []) q j, fun _ => ports_accept w.env j, fun _ => rfl, fun _ h => h, fun _ => rfl⟩
  · dsimp only
    refine ⟨false, Grow.mute ?_ (mute_shedQueueOldest _ _ _)⟩
    exact ⟨fun q => queue_append_qf (q := []) q j, fun _ => ports_accept w.env j, fun _ => rfl, fun _ h => h, fun _ => rfl⟩
  · refine ⟨false, ?_⟩
    exact ⟨fun q => queue_append_qf (q := []) q j, fun _ => ports_accept w.env j, fun _ => rfl, fun _ h => h, fun _ => rfl⟩

theorem mute_growOne (w : W) (wid : Nat) : Mute w (w.growOne wid) := by
  unfold W.growOne
  split
  · dsimp only
    split
    · apply Mute.trans _ (mute_availChange _ _ _)
      exact (Mute.same rfl rfl rfl rfl rfl)
    · exact (Mute.same rfl rfl rfl rfl rfl)
  · dsimp only
    apply Mute.trans _ (mute_availChange _ _ _)
    exact Mute.of_env (muteE_spawn w.env _ _) rfl rfl rfl rfl

theorem mute_foldl {f : W → Nat → W} (hf : ∀ w k, Mute w (f w k)) (l : List Nat) (w : W) : Mute w (l.foldl f w) := by
  induction l generalizing w with
  | nil => exact Mute.refl w
  | cons a l ih => exact (hf w a).trans (ih _)

theorem mute_growPool (w : W) (n : Nat) : Mute w (w.growPool n) := by
  unfold W.growPool; exact mute_foldl (fun w k => mute_growOne w _) _ w

theorem mute_shrinkOne (w : W) (wid : Nat) : Mute w (w.shrinkOne wid) := by
  unfold W.shrinkOne
  split
  · rename_i p _
    split
    · exact (Mute.same rfl rfl rfl rfl rfl)
    · refine (mute_availChange w wid false).trans ?_
      exact Mute.of_env (muteE_stop _ p.actor) rfl rfl rfl rfl
  · exact Mute.refl w

theorem mute_shrinkPool (w : W) (n : Nat) : Mute w (w.shrinkPool n) := by
  unfold W.shrinkPool; exact mute_foldl (fun w k => mute_shrinkOne w _) _ w

theorem mute_flushAfterGrow (fuel : Nat) (w : W) : Mute w (W.flushAfterGrow fuel w) := by
  induction fuel generalizing w with
  | zero => exact Mute.refl w
  | succ fuel ih =>
    unfold W.flushAfterGrow
    simp only
    split
    · exact Mute.refl w
    · split
      · exact mute_tryRoute w none
      · exact (mute_tryRoute w none).trans (ih _)

theorem mute_resizePool (w : W) (n : Nat) : Mute w (w.resizePool n) := by
  unfold W.resizePool
  split
  · exact Mute.refl w
  · simp only
    split
    · apply Mute.trans _ (mute_flushAfterGrow _ _)
      exact (mute_growPool w _).trans (Mute.same rfl rfl rfl rfl rfl)
    · split
      · exact (mute_shrinkPool w _).trans (Mute.same rfl rfl rfl rfl rfl)
      · exact (Mute.same rfl rfl rfl rfl rfl)

theorem grow_reject (w : W) (r : Reason) (j : Job) :
    Grow (replyOf j true) w { w with env := (w.env.discard w.handler r j).reject j } := by
  refine Grow.of_env ?_ rfl rfl rfl rfl
  show portsOf ((w.env.discard w.handler r j).reject j).log = _
  rw [ports_reject, muteE_discard w.env _ j]

/-- `dispatch`: whatever branch is taken, the acceptance port of the job is answered exactly once -/
theorem grow_dispatch (w : W) (j : Job) : ∃ b, Grow (replyOf j b) w (w.dispatch j) := by
  unfold W.dispatch
  split
  · exact ⟨true, grow_reject w _ j⟩
  · split
    · obtain ⟨b, hr⟩ := grow_routeMessage w j none
      cases hrm : w.routeMessage j none with
      | mk r w2 =>
        rw [hrm] at hr
        cases r with
        | handled => exact ⟨b, hr.cast (by simp [routeExt])⟩
        | rateLimited =>
          refine ⟨true, ?_⟩
          have h0 : Mute w w2 := (hr.cast (by simp [routeExt])).toMute
          exact h0.grow (grow_reject w2 _ j)
        | backlog =>
          have h0 : Mute w w2 := (hr.cast (by simp [routeExt])).toMute
          obtain ⟨b', hm⟩ := grow_maybeEnqueue w2 j
          exact ⟨b', h0.grow hm⟩
    · exact ⟨true, grow_reject w _ j⟩

theorem mute_ite (c : Prop) [Decidable c] (w a b : W) (ha : Mute w a) (hb : Mute w b) : Mute w (if c then a else b) := by
  split <;> assumption

theorem mute_workerFinishedJob (w : W) (who key : Nat) : Mute w (w.workerFinishedJob who key) := by
  unfold W.workerFinishedJob
  split
  · rename_i p _
    have hq := muteE_workerComplete p w.env key
    cases hwc : p.workerComplete w.env key with
    | mk p' e' =>
      rw [hwc] at hq
      simp only at hq ⊢
      have h1 : Mute w { w with pool := setW w.pool who p', env := e' } := Mute.of_env hq rfl rfl rfl rfl
      split
      · split
        · exact h1.trans (Mute.of_env (muteE_stop e' p'.actor) rfl rfl rfl rfl)
        · exact h1
      · apply mute_ite
        · exact (h1.trans (mute_tryRoute _ _)).trans (mute_availChange _ _ _)
        · exact h1.trans (mute_tryRoute _ _)
  · exact mute_tryRoute w _

theorem muteE_foldl_discard (h : Option Nat) (r : Reason) (l : List Job) (e : Env) : MuteE e (l.foldl (fun e j => e.discard h r j) e) := by
  induction l generalizing e with
  | nil => rfl
  | cons j l ih => rw [List.foldl_cons]; exact (muteE_discard e r j).trans (ih _)

theorem mute_removeExpired (w : W) : Mute w w.removeExpired := by
  unfold W.removeExpired
  split
  · exact Mute.of_sub (fun _ => muteE_foldl_discard _ _ _ _) rfl rfl (fun j hj => (List.mem_filter.mp hj).1) rfl
  · exact Mute.refl w

theorem mute_calcRest (w : W) : Mute w w.calcRest := by
  unfold W.calcRest
  exact (mute_removeExpired w).trans (Mute.same rfl rfl rfl rfl rfl)

theorem mute_updateSettings (w : W) (d : Option (Option (Nat × Mode))) (n : Option Nat) : Mute w (w.updateSettings d n) := by
  unfold W.updateSettings
  have h1 : Mute w (match d with
      | some d => { w with pool := w.pool.map (fun p => { p with disc := w.workerDiscard d }), disc := d }
      | none => w) := by
    cases d with
    | none => exact Mute.refl w
    | some d => exact (Mute.same rfl rfl rfl rfl rfl)
  cases n with
  | none => exact h1
  | some n => exact h1.trans (mute_resizePool _ n)

theorem mute_afterReplace (w : W) (wid : Nat) : Mute w (w.afterReplace wid) := by
  unfold W.afterReplace
  cases hret : w.retireIdleDrainingWorker wid with
  | some w2 =>
    simp only
    unfold W.retireIdleDrainingWorker at hret
    split at hret
    · rename_i p _
      split at hret
      · simp only [Option.some.injEq] at hret; subst hret
        exact Mute.of_env (muteE_stop w.env p.actor) rfl rfl rfl rfl
      · simp at hret
    · simp at hret
  | none =>
    simp only
    apply mute_ite
    · exact (mute_tryRoute _ _).trans (mute_availChange _ _ _)
    · exact mute_tryRoute _ _

theorem mute_handleSupervisorEvt (w : W) (who : Nat) : Mute w (w.handleSupervisorEvt who) := by
  unfold W.handleSupervisorEvt
  split
  · exact Mute.refl w
  · rename_i wid _
    split
    · exact Mute.refl w
    · rename_i p _
      simp only
      have hq := muteE_replaceWorker p (w.env.spawn wid w.nextAid) w.nextAid
      cases hrw : p.replaceWorker (w.env.spawn wid w.nextAid) w.nextAid with
      | mk p' e' =>
        rw [hrw] at hq
        simp only at hq ⊢
        refine Mute.trans ?_ (mute_afterReplace _ wid)
        exact Mute.of_env ((muteE_spawn w.env wid w.nextAid).trans hq) rfl rfl rfl rfl

theorem muteE_foldl (f : Env → Job → Env) (hf : ∀ e j, MuteE e (f e j)) (l : List Job) (e : Env) : MuteE e (l.foldl f e) := by
  induction l generalizing e with
  | nil => rfl
  | cons j l ih => rw [List.foldl_cons]; exact (hf e j).trans (ih _)

theorem muteE_dropQueued (h : Option Nat) (e : Env) (j : Job) : MuteE e (Env.dropQueued h e j) := by
  unfold Env.dropQueued; split
  · exact muteE_discard e _ j
  · exact muteE_emit e _ rfl

theorem muteE_dropWorkerQueue (e : Env) (p : WP) : MuteE e (e.dropWorkerQueue p) := by
  unfold Env.dropWorkerQueue
  exact muteE_foldl _ (fun e j => muteE_emit e _ rfl) _ e

theorem muteE_foldlW (f : Env → WP → Env) (hf : ∀ e p, MuteE e (f e p)) (l : List WP) (e : Env) : MuteE e (l.foldl f e) := by
  induction l generalizing e with
  | nil => rfl
  | cons p l ih => rw [List.foldl_cons]; exact (hf e p).trans (ih _)

/-- `post_stop` up to the wait: no hook yet, and the factory is now stopping -/
theorem postStop_ports (w : W) :
    portsOf w.postStop.env.log = portsOf w.env.log ∧ w.postStop.exited = w.exited ∧ w.postStop.stopped = true := by
  unfold W.postStop
  simp only
  refine ⟨?_, trivial, trivial⟩
  have h1 := muteE_foldl (Env.dropQueued w.handler) (muteE_dropQueued w.handler) w.queue w.env
  have h2 := muteE_foldlW Env.dropWorkerQueue muteE_dropWorkerQueue w.pool (w.queue.foldl (Env.dropQueued w.handler) w.env)
  have h3 := muteE_foldlW (fun e p => e.stop p.actor) (fun e p => muteE_stop e p.actor) w.pool
    (w.pool.foldl Env.dropWorkerQueue (w.queue.foldl (Env.dropQueued w.handler) w.env))
  exact (h1.trans (h2.trans h3))

theorem isDrained_mute (w : W) : Mute w w.isDrained.2 := by
  unfold W.isDrained
  split
  · exact Mute.refl w
  · exact Mute.refl w
  · split
    · exact (Mute.same rfl rfl rfl rfl rfl)
    · exact Mute.refl w


theorem mute_afterHandle (w : W) : Mute w w.afterHandle := by
  unfold W.afterHandle
  split
  · exact Mute.refl w
  · have hs := isDrained_mute w
    cases hd : w.isDrained with
    | mk d w2 =>
      rw [hd] at hs
      simp only at hs ⊢
      split
      · exact hs.trans (Mute.same rfl rfl rfl rfl rfl)
      · exact hs


theorem mute_send (w : W) (m : FMsg) (hm : portMsg m = none) : Mute w (w.send m) := by
  unfold W.send; split
  · exact Mute.refl w
  · exact ⟨fun q => q, fun _ => rfl, fun _ => rfl, fun _ h => h, fun _ => by simp [portMsgs, List.filterMap_append, hm]⟩

theorem mute_finish (w : W) (aid : Nat) (ok : Bool) : Mute w (w.finish aid ok) := by
  unfold W.finish
  cases ha : w.env.getActor aid with
  | none => exact Mute.refl w
  | some a =>
    simp only
    cases hr : a.running with
    | none => exact Mute.refl w
    | some j =>
      simp only
      split
      · exact Mute.refl w
      · split
        · exact Mute.of_env ((muteE_emit w.env _ rfl).trans (muteE_die _ aid)) rfl rfl rfl rfl
        · have h1 : Mute w { w with env := (w.env.emit (.finishOk aid)).emit (.handled aid j.id) } :=
            Mute.of_env ((muteE_emit w.env _ rfl).trans (muteE_emit _ _ rfl)) rfl rfl rfl rfl
          have h2 := mute_send { w with env := (w.env.emit (.finishOk aid)).emit (.handled aid j.id) } (.finished a.wid j.key) rfl
          refine (h1.trans h2).trans ?_
          exact Mute.of_env ((muteE_setActor _ _).trans (muteE_settleOne _ aid)) rfl rfl rfl rfl


theorem mute_emit (w : W) (ev : Ev) (h : isPort ev = false) : Mute w (w.emit ev) :=
  Mute.of_env (muteE_emit w.env ev h) rfl rfl rfl rfl


theorem mute_applyOp (w : W) (op : Op) (hop : ∀ id key hash ttl acc, op ≠ .dispatch id key hash ttl acc) :
    Mute w (w.applyOp op) := by
  cases op with
  | dispatch id key hash ttl acc => exact absurd rfl (hop id key hash ttl acc)
  | finish aid ok => exact mute_finish w aid ok
  | kill aid => exact Mute.of_env ((muteE_emit w.env _ rfl).trans (muteE_die _ aid)) rfl rfl rfl rfl
  | resize n => exact (mute_emit w _ rfl).trans (mute_send _ _ rfl)
  | settings d n =>
    simp only [W.applyOp]
    refine Mute.trans ?_ (mute_send _ _ rfl)
    cases d with
    | none => cases n with
      | none => exact Mute.refl w
      | some n => exact mute_emit w _ rfl
    | some d => cases n with
      | none => exact mute_emit w _ rfl
      | some n => exact (mute_emit w _ rfl).trans (mute_emit _ _ rfl)
  | drain => exact (mute_emit w _ rfl).trans (mute_send _ _ rfl)
  | setHandler hd => exact (mute_emit w _ rfl).trans (mute_send _ _ rfl)
  | advance => exact Mute.refl w
  | block => exact (Mute.same rfl rfl rfl rfl rfl)
  | release n =>
    simp only [W.applyOp]
    split
    · refine Mute.trans ?_ (mute_afterHandle _)
      refine Mute.trans ?_ (mute_calcRest _)
      have h0 : Mute w { w.emit (.released n) with blocked := false } :=
        (mute_emit w _ rfl).trans (Mute.same rfl rfl rfl rfl rfl)
      split
      · exact h0.trans (mute_resizePool _ _)
      · exact h0
    · exact Mute.refl w
  | nop => exact Mute.refl w






/-! ### over a run -/

/-- an answer on the port of job `i`: a reply (`None` / `Some(job)`) or the port dropped unanswered with the mailbox -/
def isAns (i : Nat) : PEv → Bool
  | .reply k _ => k == i
  | .closed k => k == i
  | _ => false

/-- a dispatch of job `i` that carried an acceptance port -/
def isAsk (i : Nat) : PEv → Bool
  | .disp k => k == i
  | _ => false

def pendingPorts (i : Nat) (inbox : List FMsg) : Nat := (portMsgs inbox).countP (· == i)

/-- the run invariant: the queue is port-free, and for every job id the ports handed in are the ports answered plus those
still waiting in the factory's mailbox -/
structure PortOk (w : W) : Prop where
  qf : QF w
  bal : ∀ i, (portsOf w.env.log).countP (isAns i) + pendingPorts i w.inbox = (portsOf w.env.log).countP (isAsk i)
  closed : w.exited = false → ∀ i, PEv.closed i ∉ portsOf w.env.log

theorem PortOk.still {w w' : W} (h : PortOk w) (c : Mute w w') : PortOk w' :=
  ⟨c.qf h.qf, fun i => by unfold pendingPorts; rw [c.ports h.qf, c.inbox h.qf]; exact h.bal i,
   fun hx i => by rw [c.ports h.qf]; exact h.closed (by rw [← c.exited h.qf]; exact hx) i⟩

theorem ans_replyOf (i : Nat) (j : Job) (b : Bool) :
    (replyOf j b).countP (isAns i) = ((portMsg (.dispatch j)).toList).countP (· == i) := by
  unfold replyOf portMsg
  split <;> simp_all [isAns, List.countP_cons]

theorem ask_replyOf (i : Nat) (j : Job) (b : Bool) : (replyOf j b).countP (isAsk i) = 0 := by
  unfold replyOf
  split <;> simp [isAsk]

theorem portMsgs_cons (m : FMsg) (rest : List FMsg) : portMsgs (m :: rest) = (portMsg m).toList ++ portMsgs rest := by
  unfold portMsgs
  rw [List.filterMap_cons]
  cases portMsg m <;> simp

theorem mute_handleMsg (w : W) (m : FMsg) (hm : ∀ j, m ≠ .dispatch j) : Mute w (w.handleMsg m) := by
  cases m with
  | dispatch j => exact absurd rfl (hm j)
  | finished who key => exact mute_workerFinishedJob w who key
  | adjust n => exact mute_resizePool w n
  | updateSettings d n => exact mute_updateSettings w d n
  | setHandler hd => exact Mute.of_env (muteE_emit w.env _ rfl) rfl rfl rfl rfl
  | drainRequests => exact Mute.of_env (muteE_emit w.env _ rfl) rfl rfl rfl rfl
  | calculate =>
    show Mute w (if w.cfg.hasCC && w.armed then { w with armed := false, blocked := true } else w.calcRest)
    split
    · exact (Mute.same rfl rfl rfl rfl rfl)
    · exact mute_calcRest w
  | getQueueDepth => exact (Mute.same rfl rfl rfl rfl rfl)
  | getNumActiveWorkers => exact (Mute.same rfl rfl rfl rfl rfl)
  | getAvailableCapacity => exact (Mute.same rfl rfl rfl rfl rfl)

/-- handling a `Dispatch` from the mailbox: its port (if it has one) is answered exactly once, now -/
theorem portOk_handleDispatch (w : W) (j : Job) (rest : List FMsg) (h : PortOk w) (hin : w.inbox = .dispatch j :: rest) :
    PortOk (({ w with inbox := rest } : W).handleMsg (.dispatch j)).afterHandle := by
  have hq0 : QF ({ w with inbox := rest } : W) := h.qf
  obtain ⟨b, g⟩ := grow_dispatch ({ w with inbox := rest } : W) j
  have g2 := g.mute (mute_afterHandle _)
  refine ⟨g2.qf hq0, fun i => ?_, fun hx i => ?_⟩
  rotate_left
  · have hh : ({ w with inbox := rest } : W).handleMsg (.dispatch j) = ({ w with inbox := rest } : W).dispatch j := rfl
    rw [hh, g2.ports hq0]
    intro hm
    rcases List.mem_append.mp hm with h1 | h1
    · exact h.closed (by rw [hh, g2.exited hq0] at hx; exact hx) i h1
    · unfold replyOf at h1; split at h1 <;> simp at h1
  have hb := h.bal i
  unfold pendingPorts at hb ⊢
  rw [hin, portMsgs_cons, List.countP_append] at hb
  have hh : ({ w with inbox := rest } : W).handleMsg (.dispatch j) = ({ w with inbox := rest } : W).dispatch j := rfl
  rw [hh, g2.ports hq0, g2.inbox hq0, List.countP_append, List.countP_append, ans_replyOf, ask_replyOf]
  show _ + List.countP (· == i) (portMsgs rest) = _
  have e1 : ({ w with inbox := rest } : W).env.log = w.env.log := rfl
  rw [e1]
  omega

theorem ports_dropMsg (e : Env) (m : FMsg) :
    portsOf (e.dropMsg m).log = portsOf e.log ++ ((portMsg m).toList).map PEv.closed := by
  cases m with
  | dispatch j =>
    simp only [Env.dropMsg, portMsg]
    cases hp : j.port <;> simp [Env.emit, portsOf, portEv] <;> rfl
  | _ => simp [Env.dropMsg, portMsg]

theorem ports_foldl_dropMsg (l : List FMsg) (e : Env) :
    portsOf (l.foldl Env.dropMsg e).log = portsOf e.log ++ (portMsgs l).map PEv.closed := by
  induction l generalizing e with
  | nil => simp [portMsgs]
  | cons m l ih => rw [List.foldl_cons, ih, ports_dropMsg, portMsgs_cons]; simp

theorem ans_closed (i : Nat) (l : List Nat) : (l.map PEv.closed).countP (isAns i) = l.countP (· == i) := by
  induction l with
  | nil => rfl
  | cons a l ih => simp [List.countP_cons, isAns, ih]

theorem ask_closed (i : Nat) (l : List Nat) : (l.map PEv.closed).countP (isAsk i) = 0 := by
  induction l with
  | nil => rfl
  | cons a l ih => simp [List.countP_cons, isAsk, ih]

/-- the factory actor exits: every port still in its mailbox is dropped unanswered (the caller sees the channel close) -/
theorem portOk_tryFinishStop (w : W) (h : PortOk w) : PortOk w.tryFinishStop := by
  unfold W.tryFinishStop
  split
  · refine ⟨h.qf, fun i => ?_, fun hx => by cases hx⟩
    have hb := h.bal i
    unfold pendingPorts at hb ⊢
    show List.countP (isAns i) (portsOf ((w.inbox.foldl Env.dropMsg (w.env.emit (.hook .stopped))).killAll).log) +
      List.countP (· == i) (portMsgs []) = List.countP (isAsk i) (portsOf ((w.inbox.foldl Env.dropMsg (w.env.emit (.hook .stopped))).killAll).log)
    rw [muteE_killAll, ports_foldl_dropMsg, muteE_emit w.env _ rfl, List.countP_append, List.countP_append, ans_closed, ask_closed]
    simp only [portMsgs, List.filterMap_nil, List.countP_nil]
    unfold portMsgs at hb
    omega
  · exact h

theorem portOk_postStop (w : W) (h : PortOk w) : PortOk w.postStop := by
  obtain ⟨h1, h2, _⟩ := postStop_ports w
  refine ⟨fun j hj => by simp [W.postStop] at hj, fun i => ?_, fun hx i => ?_⟩
  · rw [h1]
    exact h.bal i
  · rw [h1]; exact h.closed (by rw [← h2]; exact hx) i

theorem portOk_loopStep (w w' : W) (h : PortOk w) (hl : w.loopStep = some w') : PortOk w' := by
  unfold W.loopStep at hl
  split at hl
  · simp at hl
  · split at hl
    · simp only [Option.some.injEq] at hl; subst hl
      exact portOk_postStop w h
    · split at hl
      · rename_i who rest _
        simp only [Option.some.injEq] at hl; subst hl
        have h1 : PortOk ({ w with env := { w.env with sup := rest } } : W) := ⟨h.qf, h.bal, h.closed⟩
        exact h1.still (mute_handleSupervisorEvt _ who)
      · split at hl
        · rename_i m rest hin
          simp only [Option.some.injEq] at hl; subst hl
          by_cases hm : ∃ j, m = .dispatch j
          · obtain ⟨j, rfl⟩ := hm
            exact portOk_handleDispatch w j rest h hin
          · have hm' : ∀ j, m ≠ .dispatch j := fun j e => hm ⟨j, e⟩
            have hpm : portMsg m = none := by
              cases m with
              | dispatch j => exact absurd rfl (hm' j)
              | _ => rfl
            have h1 : PortOk ({ w with inbox := rest } : W) := by
              refine ⟨h.qf, fun i => ?_, h.closed⟩
              have hb := h.bal i
              unfold pendingPorts at hb ⊢
              rw [hin, portMsgs_cons, hpm] at hb
              exact hb
            exact (h1.still (mute_handleMsg _ m hm')).still (mute_afterHandle _)
        · simp at hl

theorem portOk_runQ (fuel : Nat) (w : W) (h : PortOk w) : PortOk (W.runQ fuel w) := by
  induction fuel generalizing w with
  | zero => exact h
  | succ fuel ih =>
    unfold W.runQ
    cases hl : w.loopStep with
    | some w' => simp only; exact ih _ (portOk_loopStep w w' h hl)
    | none =>
      simp only
      have h1 : PortOk ({ w with env := w.env.settle } : W) :=
        h.still (Mute.of_env (muteE_settle w.env) rfl rfl rfl rfl)
      have hs := portOk_tryFinishStop _ h1
      split
      · exact hs
      · exact ih _ hs

theorem portOk_advanceTo (t fuel : Nat) (w : W) (h : PortOk w) : PortOk (W.advanceTo t fuel w) := by
  induction fuel generalizing w with
  | zero => exact ⟨h.qf, h.bal, h.closed⟩
  | succ fuel ih =>
    unfold W.advanceTo
    split
    · simp only
      apply ih
      apply portOk_runQ
      have h1 : PortOk ({ w.setNow w.nextCalc with nextCalc := t + CALCULATE_FREQUENCY * 1000000 } : W) := ⟨h.qf, h.bal, h.closed⟩
      exact h1.still (mute_send _ _ rfl)
    · exact ⟨h.qf, h.bal, h.closed⟩

theorem portOk_ask (w : W) (m : FMsg) (hm : portMsg m = none) (h : PortOk w) : PortOk (w.ask m) := by
  unfold W.ask
  split
  · exact ⟨h.qf, h.bal, h.closed⟩
  · simp only
    have h1 := portOk_runQ RUN_FUEL _ (h.still (mute_send w m hm))
    split
    · exact ⟨h1.qf, h1.bal, h1.closed⟩
    · exact h1

theorem portOk_queries (w : W) (h : PortOk w) : PortOk w.queries := by
  unfold W.queries
  split
  · exact ⟨h.qf, h.bal, h.closed⟩
  · have h0 : PortOk ({ w with answers := [] } : W) := ⟨h.qf, h.bal, h.closed⟩
    exact portOk_ask _ _ rfl (portOk_ask _ _ rfl (portOk_ask _ _ rfl h0))

theorem portsOf_disp_false (id key : Nat) : portsOf [Ev.dispatched id key false] = [] := rfl
theorem portsOf_disp_true (id key : Nat) : portsOf [Ev.dispatched id key true] = [.disp id] := rfl

/-- the `dispatch` op: the caller's cast puts the job (with its port, if any) into the factory's mailbox -/
theorem portOk_applyDispatch (w : W) (id key hash : Nat) (ttl : Option Nat) (acc : Bool) (h : PortOk w) :
    PortOk (w.applyOp (.dispatch id key hash ttl acc)) := by
  simp only [W.applyOp]
  split
  · exact h
  · rename_i hst
    unfold W.send
    have e0 : (w.emit (.dispatched id key acc)).stopped = w.stopped := rfl
    rw [e0]
    simp only [hst]
    refine ⟨h.qf, fun i => ?_, fun hx i => ?_⟩
    rotate_left
    · show PEv.closed i ∉ portsOf (w.env.log ++ [Ev.dispatched id key acc])
      rw [portsOf_append]
      intro hm
      rcases List.mem_append.mp hm with h1 | h1
      · exact h.closed hx i h1
      · cases acc <;> simp [portsOf_disp_false, portsOf_disp_true] at h1
    have hb := h.bal i
    unfold pendingPorts at hb ⊢
    show List.countP (isAns i) (portsOf (w.env.log ++ [Ev.dispatched id key acc])) +
      List.countP (· == i) (portMsgs (w.inbox ++ [FMsg.dispatch ⟨id, key, hash, ttl.map (w.env.now + ·), acc⟩])) =
      List.countP (isAsk i) (portsOf (w.env.log ++ [Ev.dispatched id key acc]))
    rw [portsOf_append, portMsgs_append, List.countP_append, List.countP_append, List.countP_append]
    cases acc <;> simp [portsOf_disp_false, portsOf_disp_true, portMsgs, portMsg, isAns, isAsk, List.countP_cons] at hb ⊢ <;> omega

theorem portOk_applyOp (w : W) (op : Op) (h : PortOk w) : PortOk (w.applyOp op) := by
  by_cases hd : ∃ id key hash ttl acc, op = .dispatch id key hash ttl acc
  · obtain ⟨id, key, hash, ttl, acc, rfl⟩ := hd
    exact portOk_applyDispatch w id key hash ttl acc h
  · exact h.still (mute_applyOp w op (fun id key hash ttl acc e => hd ⟨id, key, hash, ttl, acc, e⟩))

theorem portOk_stepOp (w : W) (op : Op) (t0 tq te : Nat) (h : PortOk w) : PortOk (w.stepOp op t0 tq te) := by
  unfold W.stepOp
  simp only
  generalize hw1 : W.advanceTo t0 (advanceFuel w t0) w = w1
  have h1 : PortOk w1 := by rw [← hw1]; exact portOk_advanceTo _ _ _ h
  generalize hw2 : W.runQ RUN_FUEL (w1.applyOp op) = w2
  have h2 : PortOk w2 := by rw [← hw2]; exact portOk_runQ _ _ (portOk_applyOp _ _ h1)
  generalize hw3 : W.advanceTo tq (advanceFuel w2 tq) w2 = w3
  have h3 : PortOk w3 := by rw [← hw3]; exact portOk_advanceTo _ _ _ h2
  generalize hw4 : w3.queries = w4
  have h4 : PortOk w4 := by rw [← hw4]; exact portOk_queries _ h3
  generalize hw5 : W.advanceTo te (advanceFuel w4 te) w4 = w5
  have h5 : PortOk w5 := by rw [← hw5]; exact portOk_advanceTo _ _ _ h4
  have h6 : PortOk ({ w5 with lastWq := none } : W) := ⟨h5.qf, h5.bal, h5.closed⟩
  exact h6.still (mute_emit _ _ rfl)

theorem portOk_runSteps (w : W) (steps : List Step) (h : PortOk w) : PortOk (w.runSteps steps) := by
  induction steps generalizing w with
  | nil => exact h
  | cons s rest ih => exact ih _ (portOk_stepOp w s.op s.t0 s.tq s.te h)

theorem portOk_of_empty (w : W) (hq : w.queue = []) (hl : w.env.log = []) (hi : w.inbox = []) : PortOk w :=
  ⟨(by intro j hj; rw [hq] at hj; cases hj), fun i => (by unfold pendingPorts; rw [hl, hi]; rfl),
   fun _ i => (by rw [hl]; simp [portsOf])⟩

theorem portOk_init (c : CaseCfg) : PortOk (init c) := by
  unfold init
  simp only
  have hq := mute_growPool
    ({ cfg := c.cfg, poolSize := 0, pool := [], byActor := [], avail := [], inQ := [], last := 0,
       rl := c.rl.map fun (r : Nat × Nat × Nat × Nat) =>
          let lc : LeakyBucket.Cfg := ⟨r.1, r.2.1, r.2.2.1, 10 ^ 40⟩
          (lc, LeakyBucket.new lc (some r.2.2.2) 0),
       queue := [], disc := c.disc, drain := .notDraining,
       handler := if c.cfg.hasHandler then some 0 else none,
       env := { actors := [], log := [], now := 0, sup := [] },
       nextAid := 0, stopSignal := false, stopped := false, inbox := [], blocked := false, armed := false,
       nextCalc := CALCULATE_FREQUENCY, answers := [], lastWq := none } : W) c.n
  have h1 := (portOk_of_empty _ rfl rfl rfl).still hq
  have h2 : PortOk ({ (W.growPool _ c.n) with poolSize := c.n } : W) := ⟨h1.qf, h1.bal, h1.closed⟩
  exact h2.still (mute_emit _ _ rfl)

/-- ACCEPTANCE PORT, whole runs: for every case, every op sequence, every schedule of instants and every job id `i`, the
number of answers given on ports of `i` (`None`, `Some(job)`, or the channel closed by the factory's exit) plus the number
of port-carrying dispatches of `i` still waiting in the factory's mailbox equals the number of port-carrying dispatches of
`i`. -/
theorem port_conservation_run (c : CaseCfg) (steps : List Step) (i : Nat) :
    (portsOf ((init c).runSteps steps).env.log).countP (isAns i) + pendingPorts i ((init c).runSteps steps).inbox
      = (portsOf ((init c).runSteps steps).env.log).countP (isAsk i) :=
  (portOk_runSteps _ steps (portOk_init c)).bal i

/-- a port is dropped unanswered only by the EXIT of the factory actor (its mailbox goes with it): while the factory has not
exited no history contains `portClosed` -/
theorem port_closed_only_at_exit_run (c : CaseCfg) (steps : List Step) (hx : ((init c).runSteps steps).exited = false) (i : Nat) :
    Ev.portClosed i ∉ ((init c).runSteps steps).env.log := by
  intro hm
  exact (portOk_runSteps _ steps (portOk_init c)).closed hx i (List.mem_filterMap.mpr ⟨_, hm, rfl⟩)

/-! ### the same counts on the history itself -/

/-- answers on ports of job `i` in a history: `reply i false` (= `None`, accepted), `reply i true` (= `Some(job)`, handed
back), `portClosed i` (the port dropped unanswered together with the exiting factory's mailbox) -/
def isAnswerEv (i : Nat) : Ev → Bool
  | .reply k _ => k == i
  | .portClosed k => k == i
  | _ => false

/-- dispatches of job `i` that carried an acceptance port -/
def isPortDispatchEv (i : Nat) : Ev → Bool
  | .dispatched k _ true => k == i
  | _ => false

theorem countP_ans (i : Nat) (log : List Ev) : (portsOf log).countP (isAns i) = log.countP (isAnswerEv i) := by
  induction log with
  | nil => rfl
  | cons ev l ih =>
    have e : portsOf (ev :: l) = portsOf [ev] ++ portsOf l := portsOf_append [ev] l
    rw [e, List.countP_append, ih, List.countP_cons]
    cases ev with
    | dispatched a b c => cases c <;> simp [portsOf, portEv, isAns, isAnswerEv]
    | reply k b => simp [portsOf, portEv, isAns, isAnswerEv]; omega
    | portClosed k => simp [portsOf, portEv, isAns, isAnswerEv]; omega
    | _ => simp [portsOf, portEv, isAns, isAnswerEv]

theorem countP_ask (i : Nat) (log : List Ev) : (portsOf log).countP (isAsk i) = log.countP (isPortDispatchEv i) := by
  induction log with
  | nil => rfl
  | cons ev l ih =>
    have e : portsOf (ev :: l) = portsOf [ev] ++ portsOf l := portsOf_append [ev] l
    rw [e, List.countP_append, ih, List.countP_cons]
    cases ev with
    | dispatched a b c => cases c <;> simp [portsOf, portEv, isAsk, isPortDispatchEv] <;> omega
    | _ => simp [portsOf, portEv, isAsk, isPortDispatchEv]

/-- replies proper (`None` / `Some(job)`) on ports of job `i` -/
def isReplyEv (i : Nat) : Ev → Bool
  | .reply k _ => k == i
  | _ => false

theorem countP_reply_eq (i : Nat) (log : List Ev) (h : ∀ k, Ev.portClosed k ∉ log) :
    log.countP (isReplyEv i) = log.countP (isAnswerEv i) := by
  induction log with
  | nil => rfl
  | cons ev l ih =>
    have ih' := ih (fun k hm => h k (List.mem_cons_of_mem _ hm))
    rw [List.countP_cons, List.countP_cons, ih']
    cases ev with
    | portClosed k => exact absurd (List.mem_cons_self ..) (h k)
    | _ => rfl

end Factory
