import Driver.Common
import Driver.C18
import Driver.C19
import Driver.C17

def main (args : List String) : IO UInt32 := do
  match args with
  | [model, opsPath, implPath] =>
    let ops ← Driver.readLines opsPath
    let impl ← Driver.readLines implPath
    let t ← match model with
      | "c18" => Driver.C18.run ops impl
      | "c19" => Driver.C19.run ops impl
      | "c17" => Driver.C17.run ops impl
      | _ => do IO.eprintln s!"unknown model {model}"; return 2
    return (if t.diffs == 0 && t.oracleFails == 0 then 0 else 1)
  | _ =>
    IO.eprintln "usage: driver <model> <ops-file> <impl-file>"
    return 2
