import RactorModel.Lemmas.PgConcLeaveStep

/-!
# `Pg.Conc.step` respects lookup-equality of states; an iteration moves past a whole schedule (wave 2)
-/

namespace Pg.Conc
open AList Pg Pg.Fine

theorem seq_symm {st st' : State} (h : SEq st st') : SEq st' st :=
  ⟨h.1.symm, h.2.1.symm, h.2.2.1.symm, h.2.2.2.1.symm, h.2.2.2.2.1.symm, fun a => (h.2.2.2.2.2 a).symm⟩

theorem seq_trans {a b c : State} (h : SEq a b) (h' : SEq b c) : SEq a c :=
  ⟨h.1.trans h'.1, h.2.1.trans h'.2.1, h.2.2.1.trans h'.2.2.1, h.2.2.2.1.trans h'.2.2.2.1,
    h.2.2.2.2.1.trans h'.2.2.2.2.1, fun x => (h.2.2.2.2.2 x).trans (h'.2.2.2.2.2 x)⟩

theorem geq_trans {a b c : G} (h : GEq a b) (h' : GEq b c) : GEq a c :=
  ⟨seq_trans h.1 h'.1, h.2.1.trans h'.2.1, h.2.2.1.trans h'.2.2.1, h.2.2.2.1.trans h'.2.2.2.1,
    h.2.2.2.2.1.trans h'.2.2.2.2.1, h.2.2.2.2.2.1.trans h'.2.2.2.2.2.1, h.2.2.2.2.2.2.1.trans h'.2.2.2.2.2.2.1,
    h.2.2.2.2.2.2.2.trans h'.2.2.2.2.2.2.2⟩

/-- two states that agree on every lookup are the same state up to the order of the reverse-index list -/
theorem seq_cases {st st' : State} (h : SEq st st') :
    ∃ m i w d rm r r', st = ⟨m, i, w, r, d, rm⟩ ∧ st' = ⟨m, i, w, r', d, rm⟩ ∧ REq r r' := by
  rcases st with ⟨m, i, w, r, d, rm⟩
  rcases st' with ⟨m', i', w', r', d', rm'⟩
  obtain ⟨h1, h2, h3, h4, h5, hr⟩ := h
  simp only at h1 h2 h3 h4 h5 hr
  subst h1 h2 h3 h4 h5
  exact ⟨m, i, w, d, rm, r, r', rfl, rfl, hr⟩

theorem foldl_alter_congr {α : Type} {r r' : List (Nat × Rel)} (h : REq r r') (as : List α)
    (key : α → Nat) (f : α → Option Rel → Option Rel) :
    REq (as.foldl (fun r a => alter r (key a) (f a)) r) (as.foldl (fun r a => alter r (key a) (f a)) r') := by
  induction as generalizing r r' with
  | nil => exact h
  | cons a as ih => exact ih (alter_congr h (key a) (f a))

theorem foldl_alter_congr' {r r' : List (Nat × Rel)} (h : REq r r') (as : List Nat) (f : Option Rel → Option Rel) :
    REq (as.foldl (fun r a => alter r a f) r) (as.foldl (fun r a => alter r a f) r') := by
  induction as generalizing r r' with
  | nil => exact h
  | cons a as ih => exact ih (alter_congr h a f)

/-- a state function whose forward indexes do not read the reverse index and whose reverse index is a
lookup-respecting transformation -/
theorem seq_mk {m i w : _} {d rm : List Nat} {r r' : List (Nat × Rel)} (h : REq r r') :
    SEq ⟨m, i, w, r, d, rm⟩ ⟨m, i, w, r', d, rm⟩ := ⟨rfl, rfl, rfl, rfl, rfl, h⟩

section congr
variable {m : List (Key × GS)} {i w : List (Nat × List Nat)} {d rm : List Nat} {r r' : List (Nat × Rel)}

theorem relGmon'_congr (h : REq r r') (a : Nat) :
    fstep.relGmon' ⟨m, i, w, r, d, rm⟩ a = fstep.relGmon' ⟨m, i, w, r', d, rm⟩ a := by
  simp only [fstep.relGmon', h a]

theorem relWmon'_congr (h : REq r r') (a : Nat) :
    fstep.relWmon' ⟨m, i, w, r, d, rm⟩ a = fstep.relWmon' ⟨m, i, w, r', d, rm⟩ a := by
  simp only [fstep.relWmon', h a]

theorem relMem'_congr (h : REq r r') (a : Nat) :
    fstep.relMem' ⟨m, i, w, r, d, rm⟩ a = fstep.relMem' ⟨m, i, w, r', d, rm⟩ a := by
  simp only [fstep.relMem', h a]

theorem leaveKey_congr (h : REq r r') (a : Nat) (k : Key) :
    SEq (leaveKey ⟨m, i, w, r, d, rm⟩ a k).1 (leaveKey ⟨m, i, w, r', d, rm⟩ a k).1 ∧
    (leaveKey ⟨m, i, w, r, d, rm⟩ a k).2 = (leaveKey ⟨m, i, w, r', d, rm⟩ a k).2 := by
  unfold leaveKey
  have hm : membersOf ⟨m, i, w, r, d, rm⟩ k = membersOf ⟨m, i, w, r', d, rm⟩ k := rfl
  rw [hm]
  by_cases hx : a ∈ membersOf ⟨m, i, w, r', d, rm⟩ k
  · rw [if_pos hx, if_pos hx]; exact ⟨seq_mk h, rfl⟩
  · rw [if_neg hx, if_neg hx]; exact ⟨seq_mk h, rfl⟩

/-- every region of an exit respects lookup-equality -/
theorem fstep_congr (h : REq r r') (a : Nat) (ph : Phase) (reg : ExReg) :
    (fstep a ⟨⟨m, i, w, r, d, rm⟩, ph⟩ reg.toFOp).ph = (fstep a ⟨⟨m, i, w, r', d, rm⟩, ph⟩ reg.toFOp).ph ∧
    SEq (fstep a ⟨⟨m, i, w, r, d, rm⟩, ph⟩ reg.toFOp).st (fstep a ⟨⟨m, i, w, r', d, rm⟩, ph⟩ reg.toFOp).st := by
  cases reg with
  | mark => cases ph <;> exact ⟨rfl, seq_mk h⟩
  | demTake =>
    cases ph with
    | marked =>
      simp only [ExReg.toFOp, fstep, relGmon'_congr h, relWmon'_congr h]
      exact ⟨by first | rfl | trivial, seq_mk (alter_congr h a _)⟩
    | _ => exact ⟨rfl, seq_mk h⟩
  | demKey k' =>
    cases ph with
    | demon gk wk =>
      simp only [ExReg.toFOp, fstep]
      by_cases hx : k' ∈ gk
      · rw [if_pos hx, if_pos hx]; exact ⟨rfl, seq_mk h⟩
      · rw [if_neg hx, if_neg hx]; exact ⟨rfl, seq_mk h⟩
    | _ => exact ⟨rfl, seq_mk h⟩
  | demWKey s =>
    cases ph with
    | demon gk wk =>
      simp only [ExReg.toFOp, fstep]
      by_cases hx : s ∈ wk
      · rw [if_pos hx, if_pos hx]; exact ⟨rfl, seq_mk h⟩
      · rw [if_neg hx, if_neg hx]; exact ⟨rfl, seq_mk h⟩
    | _ => exact ⟨rfl, seq_mk h⟩
  | demDone =>
    cases ph with
    | demon gk wk => cases gk <;> cases wk <;> exact ⟨rfl, seq_mk h⟩
    | _ => exact ⟨rfl, seq_mk h⟩
  | take =>
    cases ph with
    | demonDone =>
      simp only [ExReg.toFOp, fstep, relMem'_congr h]
      exact ⟨by first | rfl | trivial, seq_mk (alter_congr h a _)⟩
    | _ => exact ⟨rfl, seq_mk h⟩
  | lvKey k' =>
    cases ph with
    | leaving mk rmv =>
      simp only [ExReg.toFOp, fstep]
      by_cases hx : k' ∈ mk
      · rw [if_pos hx, if_pos hx]
        have hc := leaveKey_congr (m := m) (i := i) (w := w) (d := d) (rm := rm) h a k'
        exact ⟨by simp only [hc.2], hc.1⟩
      · rw [if_neg hx, if_neg hx]; exact ⟨rfl, seq_mk h⟩
    | _ => exact ⟨rfl, seq_mk h⟩
  | finish =>
    cases ph with
    | leaving mk rmv =>
      cases mk with
      | nil => exact ⟨rfl, seq_mk (alter_congr h a _)⟩
      | cons _ _ => exact ⟨rfl, seq_mk h⟩
    | _ => exact ⟨rfl, seq_mk h⟩

/-- every caller region (other than `join_scoped`'s entry region) respects lookup-equality -/
theorem callStep_congr (h : REq r r') (pc : Pc) :
    (callStep ⟨m, i, w, r, d, rm⟩ pc).2 = (callStep ⟨m, i, w, r', d, rm⟩ pc).2 ∧
    SEq (callStep ⟨m, i, w, r, d, rm⟩ pc).1 (callStep ⟨m, i, w, r', d, rm⟩ pc).1 := by
  cases pc with
  | join s g as => exact ⟨by first | rfl | trivial, seq_mk h⟩
  | joinFiltered s g as => exact ⟨by first | rfl | trivial, seq_mk h⟩
  | joinIn s g as todo => exact ⟨by first | rfl | trivial, seq_mk h⟩
  | joinEntered s g as p =>
    exact ⟨by first | rfl | trivial, seq_mk (foldl_alter_congr h _ id (fun _ o => o.bind (fun r => if r.isEmpty then none else some r)))⟩
  | notify p => exact ⟨by first | rfl | trivial, seq_mk h⟩
  | leave s g as =>
    cases hg : get m (s, g) with
    | none => simp only [callStep, leaveEntry, hg]; exact ⟨by first | rfl | trivial, seq_mk h⟩
    | some gs =>
      simp only [callStep, leaveEntry, hg, leave]
      exact ⟨by first | rfl | trivial, seq_mk (foldl_alter_congr' h as _)⟩
  | monitor g b => exact ⟨by first | rfl | trivial, seq_mk (alter_congr h b _)⟩
  | monitorRel g b =>
    simp only [callStep, monitorEntry]
    have ha : alive ⟨m, i, w, r, d, rm⟩ b = alive ⟨m, i, w, r', d, rm⟩ b := rfl
    rw [ha]
    by_cases hl : alive ⟨m, i, w, r', d, rm⟩ b = true
    · rw [if_pos hl, if_pos hl]
      unfold Pg.monitor
      rw [ha, if_pos hl, if_pos hl]
      exact ⟨by first | rfl | trivial, seq_mk (alter_congr (alter_congr h b _) b _)⟩
    · rw [if_neg hl, if_neg hl]; exact ⟨by first | rfl | trivial, seq_mk h⟩
  | monitorRecheck g b =>
    simp only [callStep, Pg.monitorRecheck]
    have ha : alive ⟨m, i, w, r, d, rm⟩ b = alive ⟨m, i, w, r', d, rm⟩ b := rfl
    rw [ha]
    by_cases hl : alive ⟨m, i, w, r', d, rm⟩ b = true
    · rw [if_pos hl, if_pos hl]; exact ⟨by first | rfl | trivial, seq_mk h⟩
    · rw [if_neg hl, if_neg hl]; exact ⟨by first | rfl | trivial, seq_mk (alter_congr h b _)⟩
  | monitorScope s b => exact ⟨by first | rfl | trivial, seq_mk (alter_congr h b _)⟩
  | monitorScopeRel s b =>
    simp only [callStep, monitorScopeEntry]
    have ha : alive ⟨m, i, w, r, d, rm⟩ b = alive ⟨m, i, w, r', d, rm⟩ b := rfl
    rw [ha]
    by_cases hl : alive ⟨m, i, w, r', d, rm⟩ b = true
    · rw [if_pos hl, if_pos hl]
      unfold Pg.monitorScope
      rw [ha, if_pos hl, if_pos hl]
      exact ⟨by first | rfl | trivial, seq_mk (alter_congr (alter_congr h b _) b _)⟩
    · rw [if_neg hl, if_neg hl]; exact ⟨by first | rfl | trivial, seq_mk h⟩
  | monitorScopeRecheck s b =>
    simp only [callStep, Pg.monitorScopeRecheck]
    have ha : alive ⟨m, i, w, r, d, rm⟩ b = alive ⟨m, i, w, r', d, rm⟩ b := rfl
    rw [ha]
    by_cases hl : alive ⟨m, i, w, r', d, rm⟩ b = true
    · rw [if_pos hl, if_pos hl]; exact ⟨by first | rfl | trivial, seq_mk h⟩
    · rw [if_neg hl, if_neg hl]; exact ⟨by first | rfl | trivial, seq_mk (alter_congr h b _)⟩
  | demonitorCall g b => exact ⟨by simp only [callStep, h b], seq_mk h⟩
  | demonitor g b => exact ⟨by first | rfl | trivial, seq_mk (alter_congr h b _)⟩
  | demonitorFwd g b => exact ⟨by first | rfl | trivial, seq_mk h⟩
  | demonitorScopeCall s b => exact ⟨by simp only [callStep, h b], seq_mk h⟩
  | demonitorScope s b => exact ⟨by first | rfl | trivial, seq_mk (alter_congr h b _)⟩
  | demonitorScopeFwd s b => exact ⟨by first | rfl | trivial, seq_mk h⟩
  | done => exact ⟨by first | rfl | trivial, seq_mk h⟩

theorem needsKey_congr (pc : Pc) : needsKey ⟨m, i, w, r, d, rm⟩ pc = needsKey ⟨m, i, w, r', d, rm⟩ pc := by
  cases pc <;> rfl

theorem joinCommit_congr (h : REq r r') (k : Key) (joined : List Nat) :
    SEq (joinCommit ⟨m, i, w, r, d, rm⟩ k joined) (joinCommit ⟨m, i, w, r', d, rm⟩ k joined) := by
  unfold joinCommit
  by_cases hj : joined = []
  · rw [if_pos hj, if_pos hj]; exact seq_mk h
  · rw [if_neg hj, if_neg hj]; exact seq_mk h

end congr

theorem ite_seq {c c' : Prop} [Decidable c] [Decidable c'] (hcc : c ↔ c') {A B A' B' : State} (h1 : SEq A A')
    (h2 : SEq B B') : SEq (if c then A else B) (if c' then A' else B') := by
  by_cases h : c
  · rw [if_pos h, if_pos (hcc.mp h)]; exact h1
  · rw [if_neg h, if_neg (fun x => h (hcc.mpr x))]; exact h2

/-- **`Pg.Conc.step` respects lookup-equality**: every region of every thread depends on the reverse index through
lookups only -/
theorem step_congr {g g' : G} (h : GEq g g') (t : Tid) : GEq (step g t) (step g' t) := by
  obtain ⟨hs, he, ht, hl, hsg, hsw, hsent, hch⟩ := h
  rcases g with ⟨st, ex, thr, locks, sg, sw, sent, ch⟩
  rcases g' with ⟨st', ex', thr', locks', sg', sw', sent', ch'⟩
  simp only at hs he ht hl hsg hsw hsent hch
  subst he ht hl hsg hsw hsent hch
  obtain ⟨m, i, w, d, rm, r, r', rfl, rfl, hr⟩ := seq_cases hs
  cases t with
  | ex a reg =>
    simp only [step]
    delta locked phaseOf
    simp only []
    split
    · exact ⟨seq_mk hr, rfl, rfl, rfl, rfl, rfl, rfl, rfl⟩
    · have hc := fstep_congr (m := m) (i := i) (w := w) (d := d) (rm := rm) hr a ((get ex a).getD .live) reg
      refine ⟨hc.2, congrArg (AList.set ex a) hc.1, rfl, rfl, rfl, rfl, ?_, ?_⟩
      · show sent ++ exEvs _ a _ reg = sent ++ exEvs _ a _ reg
        cases reg <;> first | rfl | (cases (get ex a).getD Phase.live <;> rfl)
      · show ch ++ exRecs _ a _ reg = ch ++ exRecs _ a _ reg
        cases reg with
        | lvKey k' =>
          simp only [exRecs]
          cases (get ex a).getD Phase.live with
          | leaving mk rmv => simp only [(leaveKey_congr (m := m) (i := i) (w := w) (d := d) (rm := rm) hr a k').2]
          | _ => rfl
        | _ => rfl
  | call j =>
    simp only [step]
    cases hpc : thr[j]? with
    | none => exact ⟨seq_mk hr, rfl, rfl, rfl, rfl, rfl, rfl, rfl⟩
    | some pc =>
      simp only []
      delta locked
      simp only []
      rw [needsKey_congr (r := r) (r' := r') pc]
      split
      · exact ⟨seq_mk hr, rfl, rfl, rfl, rfl, rfl, rfl, rfl⟩
      · have hgen : GEq (afterCall ⟨⟨m, i, w, r, d, rm⟩, ex, thr, locks, sg, sw, sent, ch⟩ j pc (callStep ⟨m, i, w, r, d, rm⟩ pc))
            (afterCall ⟨⟨m, i, w, r', d, rm⟩, ex, thr, locks, sg, sw, sent, ch⟩ j pc (callStep ⟨m, i, w, r', d, rm⟩ pc)) := by
          have hc := callStep_congr (m := m) (i := i) (w := w) (d := d) (rm := rm) hr pc
          refine ⟨hc.2, rfl, ?_, rfl, rfl, rfl, ?_, ?_⟩
          · show thr.set j _ = thr.set j _; rw [hc.1]
          · show sent ++ _ = sent ++ _; rw [hc.1]
          · show ch ++ _ = ch ++ _; rw [hc.1]
        cases pc with
        | joinFiltered s g' as => exact ⟨seq_mk hr, rfl, rfl, rfl, rfl, rfl, rfl, rfl⟩
        | joinIn s g' as todo =>
          cases todo with
          | nil =>
            simp only [asOf, accOf]
            exact ⟨joinCommit_congr hr _ _, rfl, rfl, rfl, rfl, rfl, rfl, rfl⟩
          | cons y todo =>
            simp only [asOf, accOf]
            refine ⟨?_, rfl, rfl, rfl, rfl, rfl, rfl, rfl⟩
            exact ite_seq Iff.rfl (seq_mk (alter_congr hr y _)) (seq_mk hr)
        | join s g' as => exact hgen
        | joinEntered s g' as p => exact hgen
        | notify p => exact hgen
        | leave s g' as => exact hgen
        | monitor g' b => exact hgen
        | monitorRel g' b => exact hgen
        | monitorRecheck g' b => exact hgen
        | monitorScope s b => exact hgen
        | monitorScopeRel s b => exact hgen
        | monitorScopeRecheck s b => exact hgen
        | demonitorCall g' b => exact hgen
        | demonitor g' b => exact hgen
        | demonitorFwd g' b => exact hgen
        | demonitorScopeCall s b => exact hgen
        | demonitorScope s b => exact hgen
        | demonitorScopeFwd s b => exact hgen
        | done => exact hgen

theorem run_congr {g g' : G} (h : GEq g g') (ts : List Tid) : GEq (run g ts) (run g' ts) := by
  unfold run
  induction ts generalizing g g' with
  | nil => exact h
  | cons t ts ih => exact ih (step_congr h t)

theorem withLeaveOne_congr {g g' : G} (h : GEq g g') (k : Key) (x : Nat) :
    GEq (withLeaveOne g k x) (withLeaveOne g' k x) := by
  obtain ⟨hs, rest⟩ := h
  exact ⟨⟨hs.1, hs.2.1, hs.2.2.1, hs.2.2.2.1, hs.2.2.2.2.1, alter_congr hs.2.2.2.2.2 x _⟩, rest⟩

/-- region `t` can be swapped with an iteration for `x` of a leave holding `k` (see `step_ex_comm`, `step_call_comm`) -/
def movable1 (g : G) (k : Key) (x : Nat) : Tid → Prop
  | .ex a r => a = x → r ≠ .take ∧ r ≠ .finish
  | .call i => ∀ pc, g.thr[i]? = some pc → callMovable g.st k x pc

def Movable (g : G) (k : Key) (x : Nat) : List Tid → Prop
  | [] => True
  | t :: ts => movable1 g k x t ∧ Movable (step g t) k x ts

/-- **An iteration of `leave_scoped` moves past a whole segment of the schedule**: whatever regions of whatever
threads run between the iteration for `x` and the rest of the leave's entry region (none of them `take` / `finish` of
`x`'s own exit or a `remove_empty_actor_relations` of a stopping `x`), doing the iteration first or last gives the same
global state. -/
theorem leaveOne_moves_past_run (g : G) (k : Key) (x : Nat) (ts : List Tid) (h : Movable g k x ts) :
    GEq (run (withLeaveOne g k x) ts) (withLeaveOne (run g ts) k x) := by
  induction ts generalizing g with
  | nil => exact ⟨seq_refl _, rfl, rfl, rfl, rfl, rfl, rfl, rfl⟩
  | cons t ts ih =>
    have h1 : GEq (step (withLeaveOne g k x) t) (withLeaveOne (step g t) k x) := by
      cases t with
      | ex a r => exact step_ex_comm g k x a r h.1
      | call i => exact step_call_comm g k x i h.1
    exact geq_trans (run_congr h1 ts) (ih (step g t) h.2)

/-! ### the whole stepped entry region of a `leave_scoped`, interleaved with anything -/

/-- the stepped entry region of a `leave_scoped` holding entry `k`, interleaved: for each actor `x` of the call its
iteration, then any regions `ts` of other threads (exits, callers; a region that needs the held entry is blocked,
i.e. simply not in `ts`) -/
def runStepped (g : G) (k : Key) : List (Nat × List Tid) → G
  | [] => g
  | (x, ts) :: rest => runStepped (run (withLeaveOne g k x) ts) k rest

/-- all the iterations at once -/
def withLeaveAll (g : G) (k : Key) (xs : List Nat) : G := xs.foldl (fun g x => withLeaveOne g k x) g

def SteppedMovable (g : G) (k : Key) : List (Nat × List Tid) → Prop
  | [] => True
  | (x, ts) :: rest =>
    Movable g k x (ts ++ rest.flatMap (·.2)) ∧ SteppedMovable (run (withLeaveOne g k x) ts) k rest

theorem withLeaveAll_congr {g g' : G} (h : GEq g g') (k : Key) (xs : List Nat) :
    GEq (withLeaveAll g k xs) (withLeaveAll g' k xs) := by
  unfold withLeaveAll
  induction xs generalizing g g' with
  | nil => exact h
  | cons x xs ih => exact ih (withLeaveOne_congr h k x)

theorem run_append (g : G) (ts ts' : List Tid) : run g (ts ++ ts') = run (run g ts) ts' := by
  unfold run; rw [List.foldl_append]

/-- **Reduction of the stepped entry region.** However the per-actor iterations of a `leave_scoped` are interleaved
with regions of other threads, the result is — for every lookup, every phase, program counter, record and
notification — the state in which all those other regions ran FIRST and the iterations were then done together. -/
theorem leave_stepped_reduction (g : G) (k : Key) (segs : List (Nat × List Tid)) (h : SteppedMovable g k segs) :
    GEq (runStepped g k segs) (withLeaveAll (run g (segs.flatMap (·.2))) k (segs.map (·.1))) := by
  induction segs generalizing g with
  | nil => exact ⟨seq_refl _, rfl, rfl, rfl, rfl, rfl, rfl, rfl⟩
  | cons seg rest ih =>
    obtain ⟨x, ts⟩ := seg
    have h1 := ih (run (withLeaveOne g k x) ts) h.2
    have h2 : GEq (run (run (withLeaveOne g k x) ts) (rest.flatMap (·.2)))
        (withLeaveOne (run g (ts ++ rest.flatMap (·.2))) k x) := by
      rw [← run_append]
      exact leaveOne_moves_past_run g k x _ h.1
    exact geq_trans h1 (withLeaveAll_congr h2 k (rest.map (·.1)))

theorem withLeaveAll_st (g : G) (k : Key) (xs : List Nat) :
    (withLeaveAll g k xs).st = xs.foldl (fun st x => leaveRelOne st k x) g.st := by
  unfold withLeaveAll
  induction xs generalizing g with
  | nil => rfl
  | cons x xs ih => rw [List.foldl_cons, ih]; rfl

theorem leaveFwdSt_congr {st st' : State} (h : SEq st st') (k : Key) (as : List Nat) :
    SEq (leaveFwdSt st k as) (leaveFwdSt st' k as) := by
  obtain ⟨m, i, w, d, rm, r, r', rfl, rfl, hr⟩ := seq_cases h
  unfold leaveFwdSt
  cases get m k with
  | none => exact seq_mk hr
  | some gs => exact seq_mk hr

/-- **The stepped `leave_scoped` is the merged step.** Thread `i` is at `leave_scoped(s, g, as)`, the group entry
exists; its iterations (for `as`, in order) are interleaved with arbitrary regions of other threads (`segs`), then it
does the forward part. The resulting state is, for every lookup, the state after the SAME regions of the other threads
followed by the ONE-step entry region of `Pg.Conc` (`leaveEntry`), and the record it makes — payload and recipients —
is that step's record. -/
theorem leave_stepped_is_merged (g : G) (s g' : Nat) (segs : List (Nat × List Tid))
    (h : SteppedMovable g (s, g') segs)
    (he : (get (run g (segs.flatMap (·.2))).st.map (s, g')).isSome) :
    let as := segs.map (·.1)
    let fine := runStepped g (s, g') segs
    let coarse := run g (segs.flatMap (·.2))
    SEq (leaveFwdSt fine.st (s, g') as) (leaveEntry coarse.st s g' as).1 ∧
    (some (⟨false, s, g', as, recipients fine.st (s, g')⟩ : Pending)) = (leaveEntry coarse.st s g' as).2 ∧
    fine.thr = coarse.thr ∧ fine.exits = coarse.exits ∧ fine.locks = coarse.locks ∧ fine.sent = coarse.sent ∧
    fine.changes = coarse.changes := by
  intro as fine coarse
  have hred := leave_stepped_reduction g (s, g') segs h
  have hst : SEq fine.st (as.foldl (fun st x => leaveRelOne st (s, g') x) coarse.st) := by
    have := hred.1
    rw [withLeaveAll_st] at this
    exact this
  have hall : ∀ (gg : G) (xs : List Nat), (withLeaveAll gg (s, g') xs).thr = gg.thr ∧
      (withLeaveAll gg (s, g') xs).exits = gg.exits ∧ (withLeaveAll gg (s, g') xs).locks = gg.locks ∧
      (withLeaveAll gg (s, g') xs).sent = gg.sent ∧ (withLeaveAll gg (s, g') xs).changes = gg.changes := by
    intro gg xs
    unfold withLeaveAll
    induction xs generalizing gg with
    | nil => exact ⟨rfl, rfl, rfl, rfl, rfl⟩
    | cons x xs ih => rw [List.foldl_cons]; exact ih (withLeaveOne gg (s, g') x)
  obtain ⟨a1, a2, a3, a4, a5⟩ := hall coarse as
  refine ⟨?_, ?_, hred.2.2.1.trans a1, hred.2.1.trans a2, hred.2.2.2.1.trans a3,
    hred.2.2.2.2.2.2.1.trans a4, hred.2.2.2.2.2.2.2.trans a5⟩
  · rw [leave_stepped, if_pos he]
    exact leaveFwdSt_congr hst (s, g') as
  · have hrec : recipients fine.st (s, g') = recipients coarse.st (s, g') := by
      have hm : fine.st.map = coarse.st.map := by
        rw [hst.1]; rw [(foldl_leaveRelOne coarse.st (s, g') as)]
      have hw : fine.st.world = coarse.st.world := by
        rw [hst.2.2.1]; rw [(foldl_leaveRelOne coarse.st (s, g') as)]
      unfold recipients listenersOf worldOf
      rw [hm, hw]
    rw [hrec]
    unfold leaveEntry
    cases hg : get coarse.st.map (s, g') with
    | none => rw [hg] at he; cases he
    | some gs => rfl

end Pg.Conc
