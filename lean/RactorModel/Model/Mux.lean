import RactorModel.Model.Remote

/-!
# Several remote references over ONE connection: routing by `to` (C20)

`Remote.Net` is one proxy and one real actor with private FIFO pipes. In the code every proxy of a
session shares ONE chain of FIFO stages per direction (session mailbox, writer channel, byte
stream, reader, peer session mailbox); each frame carries `to` (the pid of the original), and the
receiving `NodeSession` looks the target up by that key:

* `handle_node` `Cast`/`Call`: `state.authorized_local_actor(to)` — the local actor with pid `to`
  (if advertised and alive), else the frame is dropped;
* `handle_node` `Reply`: `state.remote_actors.get(&to)` — the proxy stored under `to` by
  `get_or_spawn_remote_actor` (which stores the proxy it spawned with `ActorId::Remote{pid: to}`
  under the key `to`), else dropped.

`Wire` is that shared chain with the lookup table; `MultiProxy` is `remote_actors` with the
proxies' states (each with its OWN tag counter starting at 0, so equal tags in different proxies
are normal). The theorems in `Props/C20.lean` say that the shared wire is, for every pid, a private
FIFO pipe — the assumption under which `Net` is stated — and that nothing is ever handed to an
actor other than the one named by `to`.
-/

namespace Mux
open Remote

/-- the lookup table of the receiving session: key ↦ the actor stored under it -/
abbrev Routes := List (Nat × Nat)

/-- `get_or_spawn_remote_actor(pid)` / an actor with pid `pid` being advertised: the entry's key
is the pid of the actor it holds -/
def Routes.ensure (r : Routes) (pid : Nat) : Routes :=
  if r.any (·.1 == pid) then r else r ++ [(pid, pid)]

/-- `remote_actors.remove(pid)` / the local actor exits -/
def Routes.remove (r : Routes) (pid : Nat) : Routes := r.filter (·.1 != pid)

def Routes.lookup (r : Routes) (to : Nat) : Option Nat := (r.find? (·.1 == to)).map (·.2)

structure Wire (α : Type) where
  /-- the shared FIFO stages; an element is `(to, payload)` -/
  stages : Pipe (Nat × α) := [[]]
  routes : Routes := []
  /-- ghost: everything put on the wire, in order -/
  pushed : List (Nat × α) := []
  /-- everything that left the wire, in order: `(to, payload, actor it was handed to)`; `none` = dropped -/
  out : List (Nat × α × Option Nat) := []

inductive WOp (α : Type) where
  /-- the proxy / reply forwarder for pid `to` hands a frame to its session -/
  | send (to : Nat) (x : α)
  /-- stage `i` hands on its oldest element; out of the last stage the receiving session routes it -/
  | move (i : Nat)
  | ensure (pid : Nat)
  | remove (pid : Nat)

def Wire.step {α : Type} (w : Wire α) : WOp α → Wire α
  | .send to x => { w with stages := w.stages.push (to, x), pushed := w.pushed ++ [(to, x)] }
  | .move i =>
    let (st, o) := w.stages.move i
    match o with
    | none => { w with stages := st }
    | some (to, x) => { w with stages := st, out := w.out ++ [(to, x, w.routes.lookup to)] }
  | .ensure pid => { w with routes := w.routes.ensure pid }
  | .remove pid => { w with routes := w.routes.remove pid }

def Wire.run {α : Type} (w : Wire α) (ops : List (WOp α)) : Wire α := ops.foldl Wire.step w

/-- the part of a list of wire elements that concerns pid `p` -/
def proj {α : Type} (p : Nat) (l : List (Nat × α)) : List α := (l.filter (·.1 == p)).map (·.2)

/-- what left the wire for `p`, delivered or dropped -/
def Wire.outOf {α : Type} (w : Wire α) (p : Nat) : List α := proj p (w.out.map fun e => (e.1, e.2.1))

/-- what the actor `a` was handed, in order -/
def Wire.handedTo {α : Type} (w : Wire α) (a : Nat) : List (Nat × α) :=
  (w.out.filter (·.2.2 == some a)).map fun e => (e.1, e.2.1)

/-! ## `remote_actors` with the proxies' states -/

abbrev MultiProxy := List (Nat × Proxy)

/-- the session routes `Reply{to, tag, data}` to the proxy stored under `to`, which handles it;
`closed`: callers that have gone away -/
def MultiProxy.reply (m : MultiProxy) (closed : Nat → Bool) (to tag data : Nat) : MultiProxy × List Out :=
  match m.find? (·.1 == to) with
  | none => (m, [])
  | some (_, px) =>
    let (px', outs) := px.handle closed true (.reply tag data)
    (m.map fun e => if e.1 == to then (e.1, px') else e, outs)

end Mux
