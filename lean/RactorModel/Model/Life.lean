/-
Model `Life`: the control flow of ONE ractor actor, statement by statement after

  ractor/src/actor.rs            `ActorRuntime::{spawn, spawn_linked, new, start, processing_loop,
                                 process_message, handle_signal, do_pre_start/do_post_start/do_post_stop}`,
                                 `ActorLifecycleGuard::{new, mark_running, finish, cleanup, drop}`
  ractor/src/actor/actor_cell.rs `ActorPortSet::{run_with_signal, listen_in_priority, drop}`,
                                 `ActorCell::{set_status, terminate, kill, stop, drain}`
  ractor/src/actor/actor_properties.rs `send_message_unchecked, send_signal, send_stop, drain, send_drain_marker`
  ractor/src/actor/supervision.rs `SupervisionTree::{link, unlink, take_children, notify_supervisor}`

One model op = one real API call or one real poll of the spawn future / of the actor task
(E-LTS engine, `harness/hcore/src/lts.rs`). Callbacks are scripted: a callback logs `enter`,
then suspends at a gate until `resume` supplies the next *segment* (side effects, then
`tick` = suspend again | `ok` | `err n` | `panic n`); a segment logs `tick` when it starts
executing (the callback passed its suspension point).

`Actor.step : Actor → AOp → Actor × List Out` is the single-actor transition function; every
influence of other actors is an *environment op* (`supArrive`, `treeTaken`,
`kidAdd/kidDel`, the `supOk` argument of `pollSpawn`), so theorems quantified over all
`List AOp` cover every behaviour of the rest of the system. `World` composes several actors for the
driver (effects `emit`, `cascade`, `link`, `unlink` are routed to the other actors *through
`Actor.step`*).

The property predicates `C01.ok`, `C03.ok`, `C04.ok` on an actor's trace (`List Ev`) are defined at
the end of this file; the theorems in `Props/` and the run-time oracle in `Driver/Life.lean` use
these very definitions.

Import-free (core Lean only).
-/

namespace Life

inductive Cb | preStart | postStart | handle | sup | postStop
  deriving DecidableEq, Repr, Inhabited

inductive Res | ok | err (n : Nat) | panic (n : Nat)
  deriving DecidableEq, Repr, Inhabited

/-- `ActorStatus` (discriminants 0..6, only ever advances: `fetch_max`). -/
inductive Status | unstarted | starting | running | upgrading | draining | stopping | stopped
  deriving DecidableEq, Repr, Inhabited

def Status.rank : Status → Nat
  | .unstarted => 0 | .starting => 1 | .running => 2 | .upgrading => 3
  | .draining => 4 | .stopping => 5 | .stopped => 6

/-- `set_status` = `fetch_max`. -/
def Status.max (a b : Status) : Status := if a.rank < b.rank then b else a

/-- Exit reasons (`Option<String>` in the code). -/
inductive Reason
  | none                 -- `None`
  | text (s : String)    -- a user supplied stop reason
  | drained              -- "Drained"
  | killed               -- "killed"  (`Signal::Kill.to_string()`)
  | cancelled            -- "actor_task_cancelled"
  deriving DecidableEq, Repr, Inhabited

/-- A reason supplied by the user of `stop(reason)`. The reserved texts "Drained", "killed",
"actor_task_cancelled" are not user reasons (a user who passes them makes the events
indistinguishable; the harness never does). -/
def Reason.ofUser : Option String → Reason
  | .none => .none
  | .some s => .text s

def Reason.isUser : Reason → Bool
  | .none | .text _ => true
  | _ => false

/-- Supervision events as they travel through a supervision port. -/
inductive SupEv
  | started (c : Nat)
  | terminated (c : Nat) (hasState : Bool) (r : Reason)
  | failed (c : Nat) (isPanic : Bool) (n : Nat)   -- text "err-n" / "panic-n"
  deriving DecidableEq, Repr, Inhabited

def SupEv.isTerminal : SupEv → Bool
  | .started _ => false
  | _ => true

/-- `SupervisionEvent::clone_no_data`: what a monitor receives (the boxed state is not cloned). -/
def SupEv.strip : SupEv → SupEv
  | .terminated c _ r => .terminated c false r
  | e => e

def SupEv.who : SupEv → Nat
  | .started c => c | .terminated c _ _ => c | .failed c _ _ => c

inductive Fx
  | sendSelf (m : Nat) | stopSelf (r : Option String) | killSelf
  | joinGroup (g : String)        -- `pg::join(g, [myself])`
  | reply (k v : Nat)             -- reply `v` on the held reply port of call `k`
  | forget (k : Nat)              -- drop the held reply port of call `k`
  /-- spawn a child from inside the callback: `ActorRuntime::spawn_linked_instant(None, child, (), myself)`
  (the instant form: no await inside the callback; the child's start task is polled like any instant
  start). `c` is the slot the harness gives the child. -/
  | spawnChild (c : Nat)
  deriving DecidableEq, Repr, Inhabited

inductive Term | tick | ok | err (n : Nat) | panic (n : Nat)
  deriving DecidableEq, Repr, Inhabited

structure Seg where
  fx : List Fx
  term : Term
  deriving DecidableEq, Repr, Inhabited

/-- Items of the message port (`MuxedMessage`). -/
inductive Item | msg (m : Nat) | drain | call (k : Nat)   -- `call k`: an RPC request carrying reply port `k`
  deriving DecidableEq, Repr, Inhabited

/-- Where the actor's control flow is suspended. -/
inductive Phase
  | fresh                 -- slot exists, nothing spawned
  | cell                  -- `spawn_instant`: the cell was handed out (`Unstarted`, ports open, guard armed),
                          -- the start task was spawned and has never been polled
  | pre                   -- spawn future suspended inside `pre_start`
  | ready                 -- loop task spawned, never polled
  | postStart             -- suspended inside `post_start`
  | idle                  -- suspended in `listen_in_priority`
  | inMsg                 -- suspended inside `handle`
  | inSup                 -- suspended inside `handle_supervisor_evt`
  | postStop (r : Reason) -- suspended inside `post_stop`, exit reason `r` pending
  | done                  -- spawn failed / task finished / cancelled: ports dropped
  deriving DecidableEq, Repr, Inhabited

/-- The callback whose future exists in this phase. -/
def Phase.openCb : Phase → Option Cb
  | .pre => some .preStart | .postStart => some .postStart | .inMsg => some .handle
  | .inSup => some .sup | .postStop _ => some .postStop | _ => none

/-- The loop task exists and has not finished. -/
def Phase.isTask : Phase → Bool
  | .ready | .postStart | .idle | .inMsg | .inSup | .postStop _ => true
  | _ => false

inductive Arg | none | msg (m : Nat) | sup (e : SupEv) | call (k : Nat)
  deriving DecidableEq, Repr, Inhabited

inductive SpawnRet | ok | killed | nolink | startup (isPanic : Bool) (n : Nat) | registered
  | already      -- `SpawnErr::ActorAlreadyStarted` (the status was not `Unstarted` when `start` ran)
  | joinPanic    -- the join handle of an instant start task reported a panic (never produced by the model)
  deriving DecidableEq, Repr, Inhabited

inductive JoinRes | ok | cancelled | panic   -- `panic` is never produced by the model
  deriving DecidableEq, Repr, Inhabited

/-- What a caller sees of call `k` / the fate of its reply port. -/
inductive CallRes | pending | success (v : Nat) | senderError | sendErr
  deriving DecidableEq, Repr, Inhabited

/-- Fate of a reply port addressed to this actor. -/
inductive Fate | queued | held | replied (v : Nat) | dropped
  deriving DecidableEq, Repr, Inhabited

/-- What the outside can observe of an actor after an op. -/
structure Snap where
  status : Status
  sup : Option Nat
  inKids : Bool      -- it is in the child set of its supervisor
  foreign : Bool := false   -- it is in the child set of an actor that is NOT its supervisor (never, in the model)
  nameHeld : Bool    -- the registry maps its name to it
  ngroups : Nat      -- number of process groups it is a member of
  deriving DecidableEq, Repr, Inhabited

/-- The per-actor trace alphabet: everything the harness observes about one actor. -/
inductive Ev
  | enter (cb : Cb) (arg : Arg)
  | tick (cb : Cb)
  | exit (cb : Cb) (r : Res)
  | cancelled (cb : Cb)
  | sendRet (self : Bool) (m : Nat) (ok : Bool)
  | stopRet (self : Bool) (r : Reason) (ok : Bool)   -- `ok`: the stop port accepted the message
  | killRet (self : Bool) (ok : Bool)                -- `ok`: the signal port accepted the signal
  | drainRet (ok : Bool)
  | spawnRet (r : SpawnRet)
  | emit (to : Nat) (e : SupEv)    -- `notify_supervisor` handed `e` (about this actor) to `to`'s port
  | supArrive (e : SupEv)          -- `e` was handed to this actor's supervision port
  | supIs (p : Option Nat)         -- observed supervisor after the op (only when it changed)
  | isLocal                        -- the actor is a thread-local actor (first event of such an actor)
  | instant                        -- `spawn_instant*` returned `Ok((actor_ref, start_handle))`
  /-- feature `monitors`: `notify_supervisor` fanned `e` (a state-less copy) out to the monitors `tg`;
  `reg` = the monitors registered at that instant (in the model's own trace `tg = reg`; in a trace derived
  from the implementation `reg` comes from the harness's `monitor`/`unmonitor` ops, `tg` from the observed sends,
  both sorted, `tg` with repetitions) -/
  | monFan (reg tg : List Nat) (e : SupEv)
  | treeKill                       -- a supervisor's `terminate()` killed me and my signal port accepted it
  | aborted                        -- `JoinHandle::abort` hit the live task
  | dropped                        -- the spawn future was dropped while alive
  | join (r : JoinRes)
  | fxJoin (g : String)            -- the callback called `pg::join`
  | fxReply (k v : Nat) (ok : Bool)   -- the callback replied on port `k` (`ok`: it held the port)
  | fxForget (k : Nat) (ok : Bool)
  | fxSpawn (c : Nat) (loc : Bool)    -- the callback spawned child `c` (instant, linked to me at its start)
  | callRet (k : Nat) (r : CallRes)   -- what the caller of call `k` (addressed to this actor) sees
  | callSent (k : Nat) (ok : Bool)    -- the request of call `k` was sent: `ok` = accepted into the mailbox
  | polled                            -- the loop task was polled once (end of a `poll` op)
  | waitRet (w : Nat) (ready : Bool)  -- a `wait()` on this actor was polled
  | snap (s : Snap)                -- observable state after the op
  deriving DecidableEq, Repr, Inhabited

/-- Effects on other actors (interpreted by `World`). -/
inductive Eff
  | cascade (kids : List Nat)   -- `terminate()`: these children were detached and are to be killed
  | link (p : Nat)              -- `SupervisionTree::link`: insert me into `p`'s child set
  | unlink (p : Nat)            -- `SupervisionTree::unlink`: remove me from `p`'s child set
  | monSend (m : Nat) (e : SupEv)  -- feature `monitors`: hand the copy `e` to monitor `m`'s supervision port
  | spawnChild (c : Nat) (isLocal : Bool)   -- a callback of mine spawned child `c` with `spawn_linked_instant`
  deriving DecidableEq, Repr, Inhabited

inductive Out
  | ev (e : Ev)
  | note (s : String)           -- harness notes for inapplicable ops (`notask`, `nospawn`, …)
  | eff (x : Eff)
  deriving DecidableEq, Repr, Inhabited

structure Actor where
  id : Nat
  phase : Phase := .fresh
  seg : Option Seg := none
  wantSup : Option Nat := none
  /-- a `ThreadLocalActor` (`thread_local/inner.rs`): linked before `pre_start`, never reports its state -/
  isLocal : Bool := false
  /-- spawned with `spawn_instant*`: `start()` runs inside a spawned task -/
  instant : Bool := false
  /-- signal port: sender still in the cell / `Signal::Kill` in flight -/
  sigTx : Bool := true
  sigVal : Bool := false
  /-- stop port: sender still in the cell / message in flight -/
  stopTx : Bool := true
  stopVal : Option Reason := none
  supQ : List SupEv := []
  msgQ : List Item := []
  /-- `message_admission`: CLOSED bit and DRAIN_MARKER_SENT bit (the count is 0 between API calls) -/
  admClosed : Bool := false
  markerSent : Bool := false
  status : Status := .unstarted
  /-- `ActorLifecycleGuard` -/
  armed : Bool := false
  notifyOnCancel : Bool := false
  /-- `SupervisionTree`: my supervisor, my child set (`none` = permanently closed) -/
  sup : Option Nat := none
  kids : Option (List Nat) := some []
  /-- feature `monitors`: the actors monitoring me (`SupervisionTree::monitors`), ascending, no repetition -/
  mons : List Nat := []
  /-- registry: my name, and whether the registry maps it to me; process groups I am a member of -/
  name : Option String := none
  nameHeld : Bool := false
  groups : List String := []
  /-- reply ports of calls addressed to me -/
  calls : List (Nat × Fate) := []
  /-- wake-up bookkeeping of the loop task (`TaskCtl::runnable`) -/
  woken : Bool := false
  sigW : Bool := false
  stopW : Bool := false
  supW : Bool := false
  msgW : Bool := false
  gateW : Bool := false
  deriving DecidableEq, Repr, Inhabited

def Actor.init (id : Nat) : Actor := { id := id }

/-- The receive ends exist (`ActorPortSet` not yet dropped). -/
def Actor.portsOpen (a : Actor) : Bool :=
  match a.phase with
  | .fresh | .done => false
  | _ => true

/-- `ActorCell::set_status` = `fetch_max`; the first transition to `>= Stopping` unregisters the name
and leaves all process groups. -/
def Actor.setStatus (a : Actor) (s : Status) : Actor :=
  { a with status := a.status.max s,
           nameHeld := a.nameHeld && decide ((a.status.max s).rank < Status.stopping.rank),
           groups := if (a.status.max s).rank < Status.stopping.rank then a.groups else [] }

def setFate (l : List (Nat × Fate)) (k : Nat) (f : Fate) : List (Nat × Fate) :=
  l.map fun p => if p.1 = k then (k, f) else p

def fateOf (l : List (Nat × Fate)) (k : Nat) : Option Fate :=
  (l.find? (·.1 = k)).map (·.2)

/-- Result of a step: new state and outputs in the order they happened. -/
abbrev M := Actor × List Out

def andThen (x : M) (f : Actor → M) : M := ((f x.1).1, x.2 ++ (f x.1).2)

def say (a : Actor) (e : Ev) : M := (a, [.ev e])

/-! ### API calls (also used by the self side effects of a segment) -/

/-- `send_message_unchecked` + `MessageAdmission` (uninterleaved). -/
def apiSend (a : Actor) (m : Nat) : Actor × Bool :=
  if Status.draining.rank ≤ a.status.rank then (a, false)
  else if a.admClosed then (a, false)
  else if !a.portsOpen then (a, false)
  else ({ a with msgQ := a.msgQ ++ [.msg m], woken := a.woken || a.msgW, msgW := false }, true)

/-- `call`: like `send`, the message carries reply port `k`; `sendErr` hands the message (and the
port) back to the caller. -/
def apiCall (a : Actor) (k : Nat) : Actor × Bool :=
  if Status.draining.rank ≤ a.status.rank then (a, false)
  else if a.admClosed then (a, false)
  else if !a.portsOpen then (a, false)
  else ({ a with msgQ := a.msgQ ++ [.call k], calls := a.calls ++ [(k, .queued)],
                 woken := a.woken || a.msgW, msgW := false }, true)

/-- `send_stop`: takes the sender out of the cell, `oneshot::Sender::send`. -/
def apiStop (a : Actor) (r : Reason) : Actor × Bool :=
  if !a.stopTx then (a, false)
  else if !a.portsOpen then ({ a with stopTx := false }, false)
  else ({ a with stopTx := false, stopVal := some r, woken := a.woken || a.stopW }, true)

/-- `send_signal(Signal::Kill)`. -/
def apiKill (a : Actor) : Actor × Bool :=
  if !a.sigTx then (a, false)
  else if !a.portsOpen then ({ a with sigTx := false }, false)
  else ({ a with sigTx := false, sigVal := true, woken := a.woken || a.sigW }, true)

/-- `drain`: close admission, `Draining` unless already `>= Stopping`, `send_drain_marker`. -/
def apiDrain (a : Actor) : Actor × Bool :=
  let a1 : Actor := { a with admClosed := true,
                             -- (repo fix e926850: an `Unstarted` cell of `spawn_instant` stays `Unstarted`)
                             status := if a.status = .unstarted then a.status
                                       else if a.status.rank < Status.stopping.rank then .draining else a.status }
  if a1.markerSent then (a1, true)
  else if !a1.portsOpen then ({ a1 with markerSent := true }, false)
  else ({ a1 with markerSent := true, msgQ := a1.msgQ ++ [.drain],
                  woken := a1.woken || a1.msgW, msgW := false }, true)

/-! ### Exit paths -/

/-- `ActorPortSet::drop`: close and flush all four ports. -/
def Actor.dropPorts (a : Actor) : Actor :=
  { a with phase := .done, sigVal := false, stopVal := none, supQ := [], msgQ := [],
           calls := a.calls.map fun p => if p.2 = .queued then (p.1, .dropped) else p }

/-- `handle_signal`: `terminate()` — the self-kill is a no-op (the sender is gone), the child set is
taken and closed, the children are killed. -/
def handleSignal (a : Actor) : M :=
  ({ a with kids := none }, [.eff (.cascade (a.kids.getD []))])

/-- Insert into an ascending list without repetition. -/
def insertAsc (m : Nat) : List Nat → List Nat
  | [] => [m]
  | x :: l => if m < x then m :: x :: l else if m = x then x :: l else x :: insertAsc m l

/-- `SupervisionTree::notify_supervisor(e)`: with the `monitors` feature a state-less copy goes to every
monitor first (one `monFan` trace event, one `monSend` effect per monitor), then the event itself goes to
the supervisor. Without monitors (always so without the feature) this is the supervisor send alone. -/
def notifyOuts (a : Actor) (e : SupEv) : List Out :=
  (match a.mons with
    | [] => []
    | m :: ms => .ev (.monFan (m :: ms) (m :: ms) e.strip) :: (m :: ms).map (fun x => .eff (.monSend x e.strip)))
  ++ (match a.sup with
    | some p => [.ev (.emit p e)]
    | none => [])

/-- `ActorLifecycleGuard::cleanup(event)`. -/
def cleanup (a : Actor) (e : Option SupEv) : M :=
  if !a.armed then (a, [])
  else
    let a1 := a.setStatus .stopping
    let o1 : List Out := [.eff (.cascade (a1.kids.getD []))]
    let a2 : Actor := { a1 with kids := none }
    let o2 : List Out := match e with
      | some e => notifyOuts a2 e
      | none => []
    let o3 : List Out := match a2.sup with
      | some p => [.eff (.unlink p)]
      | none => []
    ({ (a2.setStatus .stopped) with sup := none, armed := false }, o1 ++ o2 ++ o3)

/-- The loop task ends: `lifecycle.finish(evt)`, ports dropped, join handle completes normally. -/
def finish (a : Actor) (e : SupEv) : M :=
  andThen (cleanup a (some e)) fun a => (a.dropPorts, [.ev (.join .ok)])

/-- A start-up failure: `start()` returns `Err`, the guard is dropped without an event. -/
def failSpawn (a : Actor) (r : SpawnRet) : M :=
  andThen (cleanup a none) fun a => (a.dropPorts, [.ev (.spawnRet r)])

/-- `Signal::Kill` observed by `run_with_signal` around `post_start` / `post_stop`
(`Err(ActorErr::Cancelled)`): `ActorTerminated(_, None, "killed")`. -/
def killedOutsideLoop (a : Actor) : M :=
  andThen (handleSignal a) fun a => finish a (.terminated a.id false .killed)

/-- `Signal::Kill` observed inside the message loop (`ActorLoopResult::signal`): the loop returns
`Ok((state, Some("killed"), was_killed = true, ports))`, the status becomes `Stopping`, `post_stop`
is skipped and `processing_loop` returns `Err(ActorErr::Cancelled)`:
`ActorTerminated(_, None, "killed")`. (Before the repair `fix: report no state when an actor is
killed inside its message loop` this path returned `Ok(exit_reason)` and the event carried
`Some(state)` — the former finding `c04.kill-state`.) -/
def killedInLoop (a : Actor) : M :=
  andThen (handleSignal a) fun a => finish (a.setStatus .stopping) (.terminated a.id false .killed)

/-- The loop ended with `ActorLoopResult::stop(r)`: status `Stopping`, `post_stop` is entered. -/
def enterPostStop (a : Actor) (r : Reason) : M :=
  ({ (a.setStatus .stopping) with phase := .postStop r, gateW := true },
   [.ev (.enter .postStop .none)])

/-- One `process_message`: `listen_in_priority` (biased: signal, stop, supervision, message) and
the start of the selected handler. -/
def listen (a : Actor) : M :=
  if a.sigVal then killedInLoop { a with sigVal := false }
  else
    let a : Actor := { a with sigW := true }
    match a.stopVal with
    | some r => enterPostStop { a with stopVal := none } r
    | none =>
      let a : Actor := { a with stopW := true }
      match a.supQ with
      | e :: q => ({ a with supQ := q, phase := .inSup, gateW := true }, [.ev (.enter .sup (.sup e))])
      | [] =>
        let a : Actor := { a with supW := true }
        match a.msgQ with
        | .msg m :: q => ({ a with msgQ := q, phase := .inMsg, gateW := true }, [.ev (.enter .handle (.msg m))])
        | .call k :: q => ({ a with msgQ := q, phase := .inMsg, gateW := true, calls := setFate a.calls k .held },
                           [.ev (.enter .handle (.call k))])
        | .drain :: q => enterPostStop { a with msgQ := q } .drained
        | [] => ({ a with msgW := true, phase := .idle }, [])

def failedEv (a : Actor) : Res → SupEv
  | .panic n => .failed a.id true n
  | .err n => .failed a.id false n
  | .ok => .failed a.id false 0

/-- What follows the return of the open callback of a *task* phase. -/
def afterExit (a : Actor) (r : Res) : M :=
  match a.phase, r with
  | .postStart, .ok =>
    let a := a.setStatus .running
    andThen (a, notifyOuts a (.started a.id)) listen
  | .inMsg, .ok => listen a
  | .inSup, .ok => listen a
  | .postStop rs, .ok =>
    -- the state of a thread-local actor is not `Send`: it is never boxed into the event
    finish a (.terminated a.id (!a.isLocal) rs)
  | .postStart, r => finish a (failedEv a r)
  | .postStop _, r => finish a (failedEv a r)
  | _, r => finish (a.setStatus .stopping) (failedEv a r)

/-- `SupervisionTree::link(me, p)` once its preconditions hold: insert me into `p`'s child set, make
`p` my supervisor and remove me from the previous supervisor's child set. -/
def doLink (a : Actor) (p : Nat) : M :=
  ({ a with sup := some p },
   .eff (.link p) :: (match a.sup with
     | some q => if q = p then [] else [.eff (.unlink q)]
     | none => []))

/-- What follows the return of `pre_start` (`supOk`: the requested supervisor accepts a link:
its status is below `Draining` and its child set is not closed). -/
def afterPre (a : Actor) (supOk : Bool) (r : Res) : M :=
  match r with
  | .err n => failSpawn a (.startup false n)
  | .panic n => failSpawn a (.startup true n)
  | .ok =>
    match (if a.isLocal then none else a.wantSup) with   -- a thread-local actor was linked by `opSpawn`
    | some p =>
      -- `try_link_starting` (repo fix ee38a9c): the child is refused only when it is already `>= Stopping`;
      -- a `drain()` during `pre_start` (status `Draining`) no longer fails the start — the actor is linked,
      -- runs its loop, handles its backlog and exits "Drained"
      if Status.stopping.rank ≤ a.status.rank || !supOk then failSpawn a .nolink
      else andThen (doLink a p) fun a =>
        ({ a with notifyOnCancel := true, phase := .ready, woken := true }, [.ev (.spawnRet .ok)])
    | none => ({ a with notifyOnCancel := true, phase := .ready, woken := true }, [.ev (.spawnRet .ok)])

def runFx (a : Actor) : Fx → M
  | .sendSelf m => ((apiSend a m).1, [.ev (.sendRet true m (apiSend a m).2)])
  | .stopSelf r => ((apiStop a (.ofUser r)).1, [.ev (.stopRet true (.ofUser r) (apiStop a (.ofUser r)).2)])
  | .killSelf => ((apiKill a).1, [.ev (.killRet true (apiKill a).2)])
  | .joinGroup g =>
    -- `pg::join` filters actors whose status is `> Draining`
    (if a.status.rank ≤ Status.draining.rank && !a.groups.contains g then { a with groups := a.groups ++ [g] } else a,
     [.ev (.fxJoin g)])
  | .reply k v =>
    if fateOf a.calls k = some .held then ({ a with calls := setFate a.calls k (.replied v) }, [.ev (.fxReply k v true)])
    else (a, [.ev (.fxReply k v false)])
  | .forget k =>
    if fateOf a.calls k = some .held then ({ a with calls := setFate a.calls k .dropped }, [.ev (.fxForget k true)])
    else (a, [.ev (.fxForget k false)])
  | .spawnChild c => (a, [.ev (.fxSpawn c a.isLocal), .eff (.spawnChild c a.isLocal)])

def runFxs (a : Actor) : List Fx → M
  | [] => (a, [])
  | f :: fs => andThen (runFx a f) fun a => runFxs a fs

def Term.res : Term → Res
  | .ok => .ok | .err n => .err n | .panic n => .panic n | .tick => .ok

/-- A supplied segment executes inside callback `cb`; `k` is the continuation after a return. -/
def runSeg (a : Actor) (cb : Cb) (s : Seg) (k : Actor → Res → M) : M :=
  andThen (say a (.tick cb)) fun a =>
  andThen (runFxs a s.fx) fun a =>
  match s.term with
  | .tick => ({ a with gateW := a.phase.isTask }, [])
  | t => andThen (say a (.exit cb t.res)) fun a => k a t.res

/-! ### The ops -/

inductive AOp
  /-- nameFree: the registry has no such name; isLocal: `ThreadLocalActor::spawn*`; supOk: the
  requested supervisor accepts a link right now (only consulted for thread-local actors) -/
  | spawn (sup : Option Nat) (name : Option String) (nameFree : Bool) (isLocal : Bool) (supOk : Bool)
  /-- `spawn_instant` / `spawn_linked_instant` (Send and thread-local): `new()` only -/
  | spawnInstant (sup : Option Nat) (name : Option String) (nameFree : Bool) (isLocal : Bool)
  | pollSpawn (supOk : Bool)
  | dropSpawn
  /-- the public `ActorCell::link(p)` (`supOk`: `p` is below `Draining` and its child set is open) -/
  | link (p : Nat) (supOk : Bool)
  /-- the public `ActorCell::unlink(p)` -/
  | unlink (p : Nat)
  | poll
  | abort
  | resume (s : Seg)
  | send (m : Nat)
  | stop (r : Option String)
  | kill
  | drain
  | supArrive (e : SupEv)        -- environment: an event is handed to my supervision port
  | treeTaken                    -- environment: my supervisor's `terminate()` reached me
  | kidAdd (c : Nat)             -- environment: `c` linked itself to me
  | kidDel (c : Nat)             -- environment: `c` unlinked itself
  | monAdd (m : Nat)             -- feature `monitors`: `m.monitor(me)`
  | monDel (m : Nat)             -- feature `monitors`: `m.unmonitor(me)`
  | monDrop (m : Nat)            -- feature `monitors`: a send to the dead monitor `m` failed: it is removed
  | call (k : Nat)               -- `actor.call(..)` first poll: the request is sent
  | pollCall (k : Nat)           -- the caller polls its call future
  | pollWait (w : Nat)           -- somebody polls a `wait()` on this actor
  deriving DecidableEq, Repr, Inhabited

/-- `spawn`/`spawn_linked`: `new()` (cell, ports, armed guard), `start()` up to the first
suspension inside `pre_start`. -/
def opSpawn (a : Actor) (sup : Option Nat) (name : Option String) (nameFree : Bool)
    (isLocal : Bool) (supOk : Bool) : M :=
  match a.phase with
  | .fresh =>
    if name.isSome && !nameFree then (a, [.ev (.spawnRet .registered)])   -- `ActorCell::new` fails: no cell
    else if isLocal then
      -- thread_local/inner.rs `start`: `Starting`, then the link is made synchronously, before the
      -- builder (which runs `pre_start`) is shipped to the spawner's thread
      match sup with
      | some p =>
        if !supOk then
          -- `start` returns `Err`, the guard is dropped: the cell that existed for an instant is gone
          -- before the harness learns it (`pre_start` never ran)
          (a, [.ev (.spawnRet .nolink)])
        else ({ a with phase := .pre, status := .starting, armed := true, wantSup := sup, isLocal := true,
                       name := name, nameHeld := name.isSome, sup := some p },
              [.ev .isLocal, .eff (.link p), .ev (.enter .preStart .none)])
      | none => ({ a with phase := .pre, status := .starting, armed := true, wantSup := sup, isLocal := true,
                          name := name, nameHeld := name.isSome },
                 [.ev .isLocal, .ev (.enter .preStart .none)])
    else ({ a with phase := .pre, status := .starting, armed := true, wantSup := sup,
                   name := name, nameHeld := name.isSome },
          [.ev (.enter .preStart .none)])
  | _ => (a, [.note "respawn"])

/-- `spawn_instant*`: `new()` (cell, ports, armed guard) and nothing else; the `ActorRef` is handed out
while the status is `Unstarted`, `start()` will run in a spawned task. -/
def opSpawnInstant (a : Actor) (sup : Option Nat) (name : Option String) (nameFree : Bool)
    (isLocal : Bool) : M :=
  match a.phase with
  | .fresh =>
    if name.isSome && !nameFree then (a, [.ev (.spawnRet .registered)])
    else if isLocal then
      ({ a with phase := .cell, instant := true, armed := true, wantSup := sup, isLocal := true,
                name := name, nameHeld := name.isSome }, [.ev .isLocal, .ev .instant])
    else
      ({ a with phase := .cell, instant := true, armed := true, wantSup := sup,
                name := name, nameHeld := name.isSome }, [.ev .instant])
  | _ => (a, [.note "respawn"])

/-- `run_with_signal(pre_start)` polled for the first time by an instant start task: the signal port
is polled first, so a kill that arrived while the cell was `Unstarted` wins and `pre_start` is never
entered (its future is dropped unpolled: no `cancelled` either). -/
def beginPre (a : Actor) : M :=
  if a.sigVal then
    andThen (handleSignal { a with sigVal := false }) fun a => failSpawn a .killed
  else ({ a with phase := .pre }, [.ev (.enter .preStart .none)])

/-- First poll of the start task of an instant spawn: `start()` from its first statement, beginning
with the "cannot start an actor more than once" test (`status != Unstarted` ⇒ `Err(ActorAlreadyStarted)`).
That branch is dead: nothing writes the status of a cell that has not been started (`drain` leaves an
`Unstarted` cell `Unstarted`, repo fix e926850) — `Lemmas/LifeCell.lean` proves `phase = cell → status =
Unstarted` for every reachable state, and the automaton clause `c04.instant-start-refused` (part of
`C04.reported_once`) rejects a trace with `Err(already)`. -/
def startInstant (a : Actor) (supOk : Bool) : M :=
  if a.status ≠ .unstarted then failSpawn a .already
  else
  let a : Actor := { a with status := .starting }
  if a.isLocal then
    -- thread_local/inner.rs: the link is made synchronously, then the builder is shipped
    match a.wantSup with
    | some p =>
      if !supOk then failSpawn a .nolink
      else andThen (doLink a p) beginPre
    | none => beginPre a
  else beginPre a

def opPollSpawn (a : Actor) (supOk : Bool) : M :=
  match a.phase with
  | .cell => startInstant a supOk
  | .pre =>
    if a.sigVal then
      andThen (say { a with sigVal := false } (.cancelled .preStart)) fun a =>
      andThen (handleSignal a) fun a => failSpawn a .killed
    else
      match a.seg with
      | none => (a, [])
      | some s => runSeg { a with seg := none } .preStart s (fun a r => afterPre a supOk r)
  | _ => (a, [.note "nospawn"])

def opDropSpawn (a : Actor) : M :=
  match a.phase with
  | .cell =>
    -- the start task is aborted before its first poll: its captures (guard, ports) are dropped
    andThen (a, [.ev .dropped, .note "sjoin Cancelled"]) fun a =>
    andThen (cleanup a none) fun a => (a.dropPorts, [])
  | .pre =>
    andThen (a, [.ev .dropped, .ev (.cancelled .preStart)] ++ (if a.instant then [.note "sjoin Cancelled"] else [])) fun a =>
    andThen (cleanup a none) fun a => (a.dropPorts, [])
  | _ => (a, [.note "nospawn"])

/-- One poll of the loop task while callback `cb` is open: `run_with_signal` polls the signal port
first, then the callback future. -/
def pollOpen (a : Actor) (cb : Cb) : M :=
  let a : Actor := { a with woken := false }
  if a.sigVal then
    andThen (say { a with sigVal := false } (.cancelled cb)) fun a =>
    match a.phase with
    | .inMsg | .inSup => killedInLoop a
    | _ => killedOutsideLoop a
  else
    let a : Actor := { a with sigW := true }
    match a.seg with
    | none => ({ a with gateW := true }, [])
    | some s => runSeg { a with seg := none } cb s afterExit

/-- One poll of the loop task. -/
def opPoll (a : Actor) : M :=
  match a.phase with
  | .ready =>
    let a : Actor := { a with woken := false }
    if a.sigVal then killedOutsideLoop { a with sigVal := false }
    else ({ a with phase := .postStart, sigW := true, gateW := true }, [.ev (.enter .postStart .none)])
  | .idle => listen { a with woken := false }
  | .postStart => pollOpen a .postStart
  | .inMsg => pollOpen a .handle
  | .inSup => pollOpen a .sup
  | .postStop _ => pollOpen a .postStop
  | _ => (a, [.note "notask"])

/-- `JoinHandle::abort` + the runtime dropping the task's future. -/
def opAbort (a : Actor) : M :=
  if a.phase.isTask then
    let o : List Out := match a.phase.openCb with
      | some cb => [.ev .aborted, .ev (.cancelled cb)]
      | none => [.ev .aborted]
    andThen (a, o) fun a =>
    andThen (cleanup a (if a.notifyOnCancel then some (.terminated a.id false .cancelled) else none)) fun a =>
    (a.dropPorts, [.ev (.join .cancelled)])
  else (a, [.note "notask"])

def opResume (a : Actor) (s : Seg) : M :=
  match a.phase.openCb with
  | none => (a, [.note "noopen"])
  | some _ =>
    if a.seg.isSome then (a, [.note "busy"])
    else ({ a with seg := some s, woken := a.woken || (a.gateW && a.phase.isTask), gateW := false }, [])

def opSupArrive (a : Actor) (e : SupEv) : M :=
  if a.portsOpen then
    ({ a with supQ := a.supQ ++ [e], woken := a.woken || a.supW, supW := false }, [.ev (.supArrive e)])
  else (a, [.ev (.supArrive e)])

/-- My supervisor runs `terminate()`: `take_children` detaches me (my supervisor link is cleared —
I am in its child set only while it is my supervisor, `SupervisionTree::link`), then the worklist
kills me if my status is `< Stopping` (repo fix a9fecd6; it was `<= Upgrading`) and takes *my* children. -/
def opTreeTaken (a : Actor) : M :=
  let a1 : Actor := { a with sup := none }
  if a1.status.rank < Status.stopping.rank then
    ({ (apiKill a1).1 with kids := none },
     (if (apiKill a1).2 then [.ev .treeKill] else []) ++ [.eff (.cascade ((apiKill a1).1.kids.getD []))])
  else ({ a1 with kids := none }, [.eff (.cascade (a1.kids.getD []))])

/-- The public `ActorCell::link(p)` = `SupervisionTree::link(me, p)`: refused when either side is
`>= Draining` or `p`'s child set is closed. -/
def opLink (a : Actor) (p : Nat) (supOk : Bool) : M :=
  if Status.draining.rank ≤ a.status.rank || !supOk then (a, [])
  else doLink a p

/-- The public `ActorCell::unlink(p)`: only if `p` is my current supervisor. -/
def opUnlink (a : Actor) (p : Nat) : M :=
  if a.sup = some p then ({ a with sup := none }, [.eff (.unlink p)]) else (a, [])

/-- API calls and environment ops on an existing cell. -/
def Actor.envOp (a : Actor) : AOp → M
  | .send m => ((apiSend a m).1, [.ev (.sendRet false m (apiSend a m).2)])
  | .stop r => ((apiStop a (.ofUser r)).1, [.ev (.stopRet false (.ofUser r) (apiStop a (.ofUser r)).2)])
  | .kill => ((apiKill a).1, [.ev (.killRet false (apiKill a).2)])
  | .drain => ((apiDrain a).1, [.ev (.drainRet (apiDrain a).2)])
  | .supArrive e => opSupArrive a e
  | .treeTaken => opTreeTaken a
  | .link p supOk => opLink a p supOk
  | .unlink p => opUnlink a p
  | .kidAdd c => ({ a with kids := a.kids.map (fun l => if l.contains c then l else l ++ [c]) }, [])
  | .kidDel c => ({ a with kids := a.kids.map (fun l => l.filter (· != c)) }, [])
  | .monAdd m => ({ a with mons := insertAsc m a.mons }, [])
  | .monDel m => ({ a with mons := a.mons.filter (· != m) }, [])
  | .monDrop m => ({ a with mons := a.mons.filter (· != m) }, [.note s!"mondrop {m}"])
  | .call k => ((apiCall a k).1, [.ev (.callSent k (apiCall a k).2),
                                  .ev (.callRet k (if (apiCall a k).2 then .pending else .sendErr))])
  | .pollCall k =>
    match fateOf a.calls k with
    | some (.replied v) => ({ a with calls := a.calls.filter (·.1 != k) }, [.ev (.callRet k (.success v))])
    | some .dropped => ({ a with calls := a.calls.filter (·.1 != k) }, [.ev (.callRet k .senderError)])
    | some _ => (a, [.ev (.callRet k .pending)])
    | none => (a, [.note "nocall"])
  | .pollWait w => (a, [.ev (.waitRet w (a.status = .stopped))])
  | _ => (a, [])

/-- The end of a poll of the live loop task is a trace event (`polled`): C02 judges at that moment
that a loop left idle has an empty mailbox. -/
def pollMark (a : Actor) (x : M) : M := if a.phase.isTask then (x.1, x.2 ++ [.ev .polled]) else x

def Actor.stepCore (a : Actor) : AOp → M
  | .spawn sup name nameFree isLocal supOk => opSpawn a sup name nameFree isLocal supOk
  | .spawnInstant sup name nameFree isLocal => opSpawnInstant a sup name nameFree isLocal
  | .pollSpawn supOk => opPollSpawn a supOk
  | .dropSpawn => opDropSpawn a
  | .poll => pollMark a (opPoll a)
  | .abort => opAbort a
  | .resume s => opResume a s
  | op => if a.phase = .fresh then (a, [.note "nocell"]) else a.envOp op   -- no cell, nothing to call

/-- The transition function: `stepCore`, then the observed-supervisor event if it changed. -/
def Actor.snap (a : Actor) : Snap :=
  { status := a.status, sup := a.sup, inKids := a.sup.isSome, nameHeld := a.nameHeld, ngroups := a.groups.length }

def Actor.step (a : Actor) (op : AOp) : M :=
  let r := a.stepCore op
  (r.1, r.2 ++ (if r.1.sup = a.sup then [] else [.ev (.supIs r.1.sup)])
            ++ (if r.1.phase = .fresh then [] else [.ev (.snap r.1.snap)]))

def evs : List Out → List Ev
  | [] => []
  | .ev e :: l => e :: evs l
  | _ :: l => evs l

/-- Run a list of ops, collecting the trace. -/
def Actor.run (a : Actor) : List AOp → Actor × List Ev
  | [] => (a, [])
  | op :: ops =>
    let r := a.step op
    let r' := Actor.run r.1 ops
    (r'.1, evs r.2 ++ r'.2)

def trace (id : Nat) (ops : List AOp) : List Ev := ((Actor.init id).run ops).2

def Ev.isSnap : Ev → Bool
  | .snap _ => true
  | .polled => true      -- the end-of-poll mark is bookkeeping like the snapshots
  | _ => false

/-- The trace without the per-op snapshots and end-of-poll marks (for readable examples). -/
def traceNoSnap (id : Nat) (ops : List AOp) : List Ev := (trace id ops).filter (fun e => !e.isSnap)

/-! ### World: several actors, effects routed through `Actor.step` -/

structure World where
  actors : List Actor := []
  /-- pending `wait()` futures: (w, target) -/
  waits : List (Nat × Nat) := []
  /-- pending call futures: (k, callee) -/
  callers : List (Nat × Nat) := []
  deriving Repr, Inhabited

/-- Outputs tagged with the actor that produced them. -/
abbrev WOut := Nat × Out

def World.get (w : World) (i : Nat) : Actor := w.actors.getD i (Actor.init i)

def World.set (w : World) (i : Nat) (a : Actor) : World := { w with actors := w.actors.set i a }

/-- Step actor `i` with a single-actor op; outputs tagged. -/
def World.apply (w : World) (i : Nat) (op : AOp) : World × List WOut :=
  if i < w.actors.length then
    let r := (w.get i).step op
    (w.set i r.1, r.2.map (fun o => (i, o)))
  else (w, [])

mutual
/-- `ActorCell::terminate` acting on the detached children `kids`. -/
def World.cascade (fuel : Nat) (w : World) (kids : List Nat) : World × List WOut :=
  match fuel with
  | 0 => (w, [])
  | fuel + 1 =>
    match kids with
    | [] => (w, [])
    | c :: cs =>
      let r1 := w.apply c .treeTaken
      let r2 := World.effects fuel r1.1 r1.2
      let r3 := World.cascade fuel r2.1 cs
      (r3.1, r1.2 ++ r2.2 ++ r3.2)

/-- Route the effects among `outs` (in order) to the other actors. -/
def World.effects (fuel : Nat) (w : World) (outs : List WOut) : World × List WOut :=
  match fuel with
  | 0 => (w, [])
  | fuel + 1 =>
    match outs with
    | [] => (w, [])
    | (src, o) :: rest =>
      let r := match o with
        | .ev (.emit p e) => w.apply p (.supArrive e)
        | .eff (.cascade kids) => World.cascade fuel w kids
        | .eff (.link p) => w.apply p (.kidAdd src)
        | .eff (.unlink p) => w.apply p (.kidDel src)
        | .eff (.spawnChild c loc) =>
          -- the cell of the child: `new()` only; it asks for `src` as its supervisor at its start
          let w1 : World := if c = w.actors.length then { w with actors := w.actors ++ [Actor.init c] } else w
          w1.apply c (.spawnInstant (some src) none true loc)
        | .eff (.monSend m e) =>
          -- best effort: a monitor whose port is gone is removed from the monitor set
          let r1 := w.apply m (.supArrive e)
          if (w.get m).portsOpen then r1
          else
            let r2 := r1.1.apply src (.monDrop m)
            (r2.1, r1.2 ++ r2.2)
        | _ => (w, [])
      let r' := World.effects fuel r.1 rest
      (r'.1, r.2 ++ r'.2)
end

inductive Op
  | case
  | spawn (a : Nat) (sup : Option Nat) (name : Option String) (isLocal : Bool)
  | spawnInstant (a : Nat) (sup : Option Nat) (name : Option String) (isLocal : Bool)
  | link (a : Nat) (p : Nat)
  | unlink (a : Nat) (p : Nat)
  | monitor (m : Nat) (a : Nat)      -- feature `monitors`: `m.monitor(a)`
  | unmonitor (m : Nat) (a : Nat)
  | pollSpawn (a : Nat)
  | dropSpawn (a : Nat)
  | poll (a : Nat)
  | abort (a : Nat)
  | resume (a : Nat) (s : Seg)
  | send (a : Nat) (m : Nat)
  | stop (a : Nat) (r : Option String)
  | kill (a : Nat)
  | drain (a : Nat)
  | wait (w : Nat) (a : Nat)
  | pollWait (w : Nat)
  | call (k : Nat) (a : Nat)
  | pollCall (k : Nat)
  deriving DecidableEq, Repr, Inhabited

/-- The registry has no entry for `n`. -/
def World.nameFree (w : World) (n : Option String) : Bool :=
  match n with
  | none => true
  | some n => !w.actors.any fun a => a.nameHeld && a.name == some n

/-- `SupervisionTree::link` preconditions on the supervisor's side. -/
def World.supOkOf (w : World) (sup : Option Nat) : Bool :=
  match sup with
  | some p => decide ((w.get p).status.rank < Status.draining.rank) && (w.get p).kids.isSome
  | none => true

/-- `target` is `x` or one of its ancestors (walk up the supervisor chain; `fuel` ≥ number of actors). -/
def World.above (w : World) (fuel : Nat) (x target : Nat) : Bool :=
  match fuel with
  | 0 => false
  | fuel + 1 =>
    if x = target then true
    else match (w.get x).sup with
      | some q => w.above fuel q target
      | none => false

/-- `SupervisionTree::link(a, p)` is possible on `p`'s side. The code does NOT refuse a link that closes a
supervision cycle (`p` is `a` or a descendant of `a`): see `World.closesCycle` and known finding F15. -/
def World.supOkFor (w : World) (_a p : Nat) : Bool := w.supOkOf (some p)

/-- Linking `a` under `p` would close a supervision cycle. -/
def World.closesCycle (w : World) (a p : Nat) : Bool := w.above (w.actors.length + 1) p a

/-- `a` is on a supervision cycle (its supervisor chain comes back to it). In that configuration the
code's `terminate()` of the exiting `a` walks back to `a` and clears its supervisor before
`notify_supervisor`, so `a`'s terminal event is NOT sent (F15, `c04.missing-terminal-in-cycle`); the
model's `cleanup` does send it — the model is claimed to describe the code on acyclic runs only. -/
def World.onCycle (w : World) (a : Nat) : Bool :=
  match (w.get a).sup with
  | some p => w.above (w.actors.length + 1) p a
  | none => false

/-- The harness op closes a supervision cycle (a public `link`, or the link a start is going to make). -/
def Op.closesCycle (w : World) : Op → Bool
  | .link a p => w.closesCycle a p
  | .pollSpawn a =>
    match (w.get a).wantSup with
    | some p => (w.get a).sup != some p && w.closesCycle a p
    | none => false
  | _ => false

def World.supOk (w : World) (a : Nat) : Bool :=
  match (w.get a).wantSup with
  | some p => w.supOkFor a p
  | none => true

def Op.target (w : World) : Op → Option (Nat × AOp)
  | .case => none
  | .spawn a sup name loc => some (a, .spawn sup name (w.nameFree name) loc
      (match sup with | some p => w.supOkFor a p | none => true))
  | .spawnInstant a sup name loc => some (a, .spawnInstant sup name (w.nameFree name) loc)
  | .link a p => some (a, .link p (w.supOkFor a p))
  | .unlink a p => some (a, .unlink p)
  | .monitor m a => some (a, .monAdd m)
  | .unmonitor m a => some (a, .monDel m)
  | .pollSpawn a => some (a, .pollSpawn (w.supOk a))
  | .dropSpawn a => some (a, .dropSpawn)
  | .poll a => some (a, .poll)
  | .abort a => some (a, .abort)
  | .resume a s => some (a, .resume s)
  | .send a m => some (a, .send m)
  | .stop a r => some (a, .stop r)
  | .kill a => some (a, .kill)
  | .drain a => some (a, .drain)
  | .wait wid a => some (a, .pollWait wid)
  | .pollWait wid => (w.waits.find? (·.1 = wid)).map fun p => (p.2, .pollWait wid)
  | .call k a => some (a, .call k)
  | .pollCall k => (w.callers.find? (·.1 = k)).map fun p => (p.2, .pollCall k)

/-- Bookkeeping of the harness-side futures (pending waits and calls). -/
def World.tables (w : World) (op : Op) (outs : List WOut) : World :=
  match op with
  | .wait wid a =>
    if outs.any (fun o => o.2 == .ev (.waitRet wid false)) then { w with waits := w.waits ++ [(wid, a)] } else w
  | .pollWait wid =>
    if outs.any (fun o => o.2 == .ev (.waitRet wid true)) then { w with waits := w.waits.filter (·.1 != wid) } else w
  | .call k a =>
    if outs.any (fun o => o.2 == .ev (.callRet k .pending)) then { w with callers := w.callers ++ [(k, a)] } else w
  | .pollCall k =>
    if outs.any (fun o => o.2 == .ev (.callRet k .pending)) then w else { w with callers := w.callers.filter (·.1 != k) }
  | _ => w

/-- One harness op: the target actor's own outputs (rendered and compared with the
implementation's notes) and the outputs of the other actors caused by its effects. -/
def World.step (w : World) (op : Op) : World × List WOut × List WOut :=
  match op with
  | .case => ({}, [], [])
  | _ =>
    match op.target w with
    | none =>
      (w, [(0, .note (match op with | .pollWait _ => "nowait" | .pollCall _ => "nocall" | _ => "bad-op"))], [])
    | some (a, aop) =>
      -- a `spawn` of the next fresh index creates the slot
      let w : World := if a = w.actors.length then { w with actors := w.actors ++ [Actor.init a] } else w
      let r := w.apply a aop
      let fuel := 4 * (w.actors.length + 1) * (r.2.length + 1) + 8
      let r' := World.effects fuel r.1 r.2
      (r'.1.tables op r.2, r.2, r'.2)

/-! ### fuel sufficiency of `World.effects`, as a computed predicate (evaluated by the driver on every
replayed step: `model-fuel-exhausted`; `Lemmas/LifeDelivery.lean` proves delivery under it) -/

mutual
def World.cascadeDone (fuel : Nat) (w : World) (kids : List Nat) : Bool :=
  match fuel with
  | 0 => kids.isEmpty
  | fuel + 1 =>
    match kids with
    | [] => true
    | c :: cs =>
      let r1 := w.apply c .treeTaken
      let r2 := World.effects fuel r1.1 r1.2
      World.effectsDone fuel r1.1 r1.2 && World.cascadeDone fuel r2.1 cs

def World.effectsDone (fuel : Nat) (w : World) (outs : List WOut) : Bool :=
  match fuel with
  | 0 => outs.isEmpty
  | fuel + 1 =>
    match outs with
    | [] => true
    | (src, o) :: rest =>
      let r := match o with
        | .ev (.emit p e) => w.apply p (.supArrive e)
        | .eff (.cascade kids) => World.cascade fuel w kids
        | .eff (.link p) => w.apply p (.kidAdd src)
        | .eff (.unlink p) => w.apply p (.kidDel src)
        | .eff (.spawnChild c loc) =>
          let w1 : World := if c = w.actors.length then { w with actors := w.actors ++ [Actor.init c] } else w
          w1.apply c (.spawnInstant (some src) none true loc)
        | .eff (.monSend m e) =>
          let r1 := w.apply m (.supArrive e)
          if (w.get m).portsOpen then r1
          else
            let r2 := r1.1.apply src (.monDrop m)
            (r2.1, r1.2 ++ r2.2)
        | _ => (w, [])
      (match o with
        | .eff (.cascade kids) => World.cascadeDone fuel w kids
        | _ => true) && World.effectsDone fuel r.1 rest
end

/-- The fuel `World.step` gives to the effects of one op sufficed. -/
def World.stepDone (w : World) (op : Op) : Bool :=
  match op with
  | .case => true
  | _ =>
    match op.target w with
    | none => true
    | some (a, aop) =>
      let w : World := if a = w.actors.length then { w with actors := w.actors ++ [Actor.init a] } else w
      let r := w.apply a aop
      let fuel := 4 * (w.actors.length + 1) * (r.2.length + 1) + 8
      World.effectsDone fuel r.1 r.2

/-- A run of the composed world: all outputs (the target's own, then those of the actors its
effects reached), tagged by actor, in order. -/
def World.run (w : World) : List Op → World × List WOut
  | [] => (w, [])
  | op :: ops =>
    let r := w.step op
    let r' := World.run r.1 ops
    (r'.1, r.2.1 ++ r.2.2 ++ r'.2)

/-! ### Source-derived tables the model depends on (tied to `Extracted` in `Props/`) -/

/-- `listen` tests the ports in this order (the textual arm order of the biased `select!`). -/
def selectOrder : List String := ["signal", "stop", "supervision", "message"]

/-- `pollOpen` tests the signal port before polling the callback future (`run_with_signal`). -/
def runWithSignalOrder : List String := ["signal", "new_state"]

/-- `cleanup` performs these steps in this order. -/
def cleanupSteps : List String :=
  ["set_status:Stopping", "terminate", "notify_supervisor", "unlink", "set_status:Stopped"]

/-- `Status.rank` as a table. -/
def statusTable : List (String × Nat) :=
  [("Unstarted", Status.unstarted.rank), ("Starting", Status.starting.rank), ("Running", Status.running.rank),
   ("Upgrading", Status.upgrading.rank), ("Draining", Status.draining.rank), ("Stopping", Status.stopping.rank),
   ("Stopped", Status.stopped.rank)]

/-- `opTreeTaken` kills a child whose status satisfies this (`ActorCell::terminate`). -/
def terminateKillCondition : String := "< Stopping"

/-! ### Property predicates on one actor's trace

Each is the acceptance of the trace by an explicit automaton `next : St → Ev → Except String St`
(the error names the violated clause). -/

def accepts {σ : Type} (next : σ → Ev → Except String σ) : σ → List Ev → Except String σ
  | s, [] => .ok s
  | s, e :: es => match next s e with
    | .ok s' => accepts next s' es
    | .error c => .error c

namespace C01

/-- Lifecycle stage as far as the callback events tell. -/
inductive Stage
  | init                 -- nothing yet
  | preOpen              -- `pre_start` entered, not yet returned
  | preOk                -- `pre_start` returned ok
  | psOpen               -- `post_start` open
  | run                  -- `post_start` returned ok, no callback open
  | hOpen (cb : Cb)      -- a message / supervision handler is open
  | stopOpen             -- `post_stop` open
  | dead                 -- a callback failed, was cancelled, or `post_stop` returned
  deriving DecidableEq, Repr, Inhabited

structure St where
  stage : Stage := .init
  /-- a stop message was accepted or a drain marker was enqueued -/
  stopReq : Bool := false
  /-- a kill was accepted by the signal port -/
  killed : Bool := false
  deriving DecidableEq, Repr, Inhabited

def isHandler : Cb → Bool
  | .handle | .sup => true
  | _ => false

/-- A callback is open. -/
def Stage.isOpen : Stage → Bool
  | .preOpen | .psOpen | .hOpen _ | .stopOpen => true
  | _ => false

/-- The lifecycle automaton. -/
def next (s : St) : Ev → Except String St
  | .enter cb _ =>
    match s.stage, cb with
    | .init, .preStart => .ok { s with stage := .preOpen }
    | .preOk, .postStart => .ok { s with stage := .psOpen }
    | .run, .handle => .ok { s with stage := .hOpen .handle }
    | .run, .sup => .ok { s with stage := .hOpen .sup }
    | .run, .postStop =>
      if s.killed then .error "c01.post_stop-after-kill"
      else if !s.stopReq then .error "c01.post_stop-not-graceful"
      else .ok { s with stage := .stopOpen }
    | .preOpen, _ | .psOpen, _ | .hOpen _, _ | .stopOpen, _ => .error "c01.overlap"
    | .dead, .postStop => .error "c01.post_stop-after-failure"
    | _, _ => .error "c01.order"
  | .tick cb =>
    match s.stage, cb with
    | .preOpen, .preStart | .psOpen, .postStart | .stopOpen, .postStop => .ok s
    | .hOpen c, cb => if c = cb then .ok s else .error "c01.tick-not-open"
    | _, _ => .error "c01.tick-not-open"
  | .exit cb r =>
    match s.stage, cb with
    | .preOpen, .preStart => .ok { s with stage := if r = .ok then .preOk else .dead }
    | .psOpen, .postStart => .ok { s with stage := if r = .ok then .run else .dead }
    | .stopOpen, .postStop => .ok { s with stage := .dead }
    | .hOpen c, cb =>
      if c = cb then .ok { s with stage := if r = .ok then .run else .dead } else .error "c01.exit-not-open"
    | _, _ => .error "c01.exit-not-open"
  | .cancelled cb =>
    match s.stage, cb with
    | .preOpen, .preStart | .psOpen, .postStart | .stopOpen, .postStop => .ok { s with stage := .dead }
    | .hOpen c, cb => if c = cb then .ok { s with stage := .dead } else .error "c01.cancel-not-open"
    | _, _ => .error "c01.cancel-not-open"
  | .stopRet _ _ true => .ok { s with stopReq := true }
  | .drainRet true => .ok { s with stopReq := true }
  | .killRet _ true => .ok { s with killed := true }
  | .treeKill => .ok { s with killed := true }     -- a supervisor's `terminate()` is an accepted kill too
  -- the end of the actor's task / of its start-up ends the lifecycle: no callback may follow
  -- (an open callback is first `cancelled`, which ends the lifecycle itself)
  | .aborted => .ok (if s.stage.isOpen then s else { s with stage := .dead })
  | .dropped => .ok (if s.stage.isOpen then s else { s with stage := .dead })
  | .join _ => .ok { s with stage := .dead }
  | .spawnRet r =>
    match r with
    | .ok | .registered => .ok s
    -- (a thread-local spawn whose link is refused fails before a cell is visible: the slot is untouched)
    | .nolink => .ok (if s.stage = .init then s else { s with stage := .dead })
    | _ => .ok { s with stage := .dead }
  | _ => .ok s

def ok (tr : List Ev) : Bool := (accepts next {} tr).isOk

end C01

namespace C03

structure St where
  /-- a kill (API, self, or a supervisor's `terminate()`) found the signal port open -/
  killed : Bool := false
  /-- a stop found the stop port open -/
  stopAcc : Bool := false
  /-- supervision events handed to the port and not yet handled -/
  supPending : Nat := 0
  /-- the task / the spawn future was aborted or dropped -/
  aborted : Bool := false
  /-- the open callback killed its own actor in the segment that is executing: that segment may still
  return (the `exit` of the same poll), nothing else may happen -/
  grace : Bool := false
  deriving DecidableEq, Repr, Inhabited

def next (s : St) : Ev → Except String St
  | .enter cb _ =>
    if s.killed then .error "c03.enter-after-kill"
    else match cb with
      | .handle =>
        if s.stopAcc then .error "c03.handler-after-stop"
        else if s.supPending ≠ 0 then .error "c03.message-before-supervision"
        else .ok s
      | .sup =>
        if s.stopAcc then .error "c03.handler-after-stop"
        else if s.supPending = 0 then .error "c03.supervision-from-nowhere"
        else .ok { s with supPending := s.supPending - 1 }
      | _ => .ok s
  | .tick _ => if s.killed then .error "c03.progress-after-kill" else .ok s
  -- kill is immediate: after an accepted kill the open callback does not even return, except that the
  -- segment which killed its own actor runs to its end
  | .exit _ _ => if s.killed && !s.grace then .error "c03.exit-after-kill" else .ok { s with grace := false }
  -- stop is graceful: a callback is cancelled only by a kill or by an abort of the task / start-up —
  -- never by a stop; after an accepted stop the open handler runs to its end
  | .cancelled _ =>
    if s.killed || s.aborted then .ok s
    else if s.stopAcc then .error "c03.stop-cancelled-callback"
    else .error "c03.cancelled-without-kill"
  | .killRet self true => .ok { s with killed := true, grace := s.grace || self }
  | .treeKill => .ok { s with killed := true }
  | .stopRet _ _ true => .ok { s with stopAcc := true }
  | .supArrive _ => .ok { s with supPending := s.supPending + 1 }
  | .aborted => .ok { s with aborted := true }
  | .dropped => .ok { s with aborted := true }
  | _ => .ok s

def ok (tr : List Ev) : Bool := (accepts next {} tr).isOk

end C03

namespace C04

structure St where
  /-- observed supervisor -/
  sup : Option Nat := none
  /-- `post_start` returned ok and no callback was entered since -/
  startable : Bool := false
  startedEmitted : Bool := false
  terminalEmitted : Bool := false
  /-- last failure of a callback other than `pre_start` -/
  fail : Option (Bool × Nat) := none
  preFailed : Bool := false        -- `pre_start` failed / was cancelled / the spawn future was dropped
  postStopOk : Bool := false
  killed : Bool := false
  aborted : Bool := false
  stopReason : Option Reason := none
  drainReq : Bool := false
  /-- a thread-local actor: its state is not `Send` and is never reported -/
  isLocal : Bool := false
  /-- `post_start` returned ok while the actor was supervised: `ActorStarted` is due before anything else -/
  mustStart : Bool := false
  /-- the exit request the loop consumed when it entered `post_stop`: the accepted stop (the stop port
  outranks the mailbox, so a stop accepted before wins over a drain marker), else the drain marker -/
  took : Option Reason := none
  /-- feature `monitors`: the terminal event the monitors got -/
  fanTerminal : Option SupEv := none
  deriving DecidableEq, Repr, Inhabited

/-- The request that `enter post_stop` consumes, given what was accepted so far. -/
def tookOf (s : St) : Option Reason :=
  match s.stopReason with
  | some r => some r
  | none => some .drained

/-- Is the terminal event `e` the right one for what the trace shows? -/
def classify (s : St) : SupEv → Except String Unit
  | .started _ => .ok ()
  | .failed _ p n => if s.fail = some (p, n) then .ok () else .error "c04.failed-text"
  | .terminated _ hasState r =>
    match r with
    | .killed =>
      if !s.killed then .error "c04.killed-without-kill"
      else if hasState then .error "c04.kill-state"
      else .ok ()
    | .cancelled =>
      if s.aborted && !hasState then .ok () else .error "c04.cancelled-class"
    | r =>
      if !s.postStopOk then .error "c04.terminated-without-post_stop"
      else if hasState == s.isLocal then .error "c04.graceful-state"   -- state iff not thread-local
      -- the reason is the one of the request the loop took (also when both a stop and a drain were requested)
      else if s.took = some r then .ok ()
      else .error "c04.reason"

def next (me : Nat) (s : St) : Ev → Except String St
  | .emit to e =>
    if e.who ≠ me then .error "c04.who"
    else if s.sup ≠ some to then .error "c04.target"
    else if s.preFailed then .error "c04.event-after-pre_start-failure"
    else if s.terminalEmitted then .error "c04.after-terminal"
    else if e.isTerminal then
      if s.mustStart then .error "c04.missing-started"      -- `ActorStarted` was due first
      -- the monitors (if any) got the same event: same constructor, same text / reason
      else if s.fanTerminal.isSome && s.fanTerminal != some e.strip then .error "c04.monitor-event-differs"
      else match classify s e with
      | .ok () => .ok { s with terminalEmitted := true }
      | .error c => .error c
    else if s.startedEmitted then .error "c04.started-twice"
    else if !s.startable then .error "c04.started-not-after-post_start"
    else .ok { s with startedEmitted := true, startable := false, mustStart := false }
  -- feature `monitors`: every monitor registered at that instant gets the event, exactly once, without
  -- state; nobody else; at most one terminal event; `ActorStarted` only right after `post_start` returned ok
  | .monFan reg tg e =>
    if e.who ≠ me then .error "c04.who"
    else if tg ≠ reg then .error "c04.monitor-set"
    else if e.strip ≠ e then .error "c04.monitor-state"
    else if s.preFailed then .error "c04.event-after-pre_start-failure"
    else if s.terminalEmitted || s.fanTerminal.isSome then .error "c04.after-terminal"
    else if e.isTerminal then .ok { s with fanTerminal := some e }
    else if !s.startable then .error "c04.started-not-after-post_start"
    else .ok s
  | .enter cb _ =>
    -- positive form: a supervised actor whose `post_start` returned ok reports `ActorStarted`
    -- before any further callback
    if s.mustStart then .error "c04.missing-started"
    else .ok { s with startable := false, took := if cb = .postStop then tookOf s else s.took }
  | .exit cb r =>
    match cb, r with
    | .preStart, .ok => .ok s
    | .preStart, _ => .ok { s with preFailed := true }
    | .postStart, .ok => .ok { s with startable := true, mustStart := s.sup.isSome }
    | .postStop, .ok => .ok { s with postStopOk := true }
    | _, .ok => .ok s
    | _, .err n => .ok { s with fail := some (false, n) }
    | _, .panic n => .ok { s with fail := some (true, n) }
  | .cancelled .preStart => .ok { s with preFailed := true }
  | .dropped => .ok { s with preFailed := true }
  | .aborted => .ok { s with aborted := true }
  | .isLocal => .ok { s with isLocal := true }
  | .killRet _ true => .ok { s with killed := true }
  | .treeKill => .ok { s with killed := true }
  | .stopRet _ r true => .ok { s with stopReason := some r }
  | .drainRet true => .ok { s with drainReq := true }
  | .supIs p => .ok { s with sup := p }
  | .spawnRet .ok => if s.preFailed then .error "c04.spawn-ok-after-failure" else .ok s
  -- a cell handed out by `spawn_instant` is always started: nothing an `ActorRef` holder can do
  -- while it is `Unstarted` (send, stop, drain, link, …) makes `start()` refuse to run
  | .spawnRet .already => .error "c04.instant-start-refused"
  | .spawnRet .joinPanic => .error "c04.start-join-panic"   -- the start task must complete normally
  -- a kill that wins against `pre_start` (possibly before it was entered): silent for ever
  | .spawnRet .killed => .ok { s with preFailed := true }
  | .join .ok =>
    -- the task ended by itself: a supervised actor must have reported its end
    if s.sup.isSome && !s.terminalEmitted then .error "c04.missing-terminal" else .ok s
  | .join .cancelled =>
    if !s.aborted then .error "c04.join-cancelled"
    else if s.sup.isSome && !s.terminalEmitted then .error "c04.missing-terminal" else .ok s
  | .join .panic => .error "c04.join-panic"   -- the join handle must complete normally
  -- the link transaction: an actor is in its supervisor's child set and in nobody else's (at every op
  -- boundary: after `link`/`unlink`, a spawn, a supervisor's `terminate()`, its own exit)
  | .snap sn =>
    if sn.foreign then .error "c04.in-foreign-child-set"
    else if sn.inKids != sn.sup.isSome then .error "c04.child-set-mismatch"
    else .ok s
  | _ => .ok s

/-- The property as stated. -/
def ok (me : Nat) (tr : List Ev) : Bool := (accepts (next me) {} tr).isOk

end C04

namespace C02

/-- user messages as the handler sees them -/
def userItems : List Item → List Arg
  | [] => []
  | .msg m :: l => .msg m :: userItems l
  | .call k :: l => .call k :: userItems l
  | .drain :: l => userItems l

structure St where
  /-- accepted and not yet handled, in the order the sends completed -/
  queue : List Arg := []
  /-- the loop is listening: the last callback event was `exit post_start|handle|sup ok` -/
  idle : Bool := false
  entered : Bool := false   -- `pre_start` was entered
  over : Bool := false      -- the actor's task / spawn ended
  deriving DecidableEq, Repr, Inhabited

/-- C02 at the level `Life` observes (one mailbox, API-level sends):
* `enter handle x` only for the *oldest* accepted, not yet handled message `x` — so every handled
  message was accepted (a refused send is never handled), none is handled twice, none is skipped,
  and the handling order is the order in which the sends completed (FIFO per mailbox);
* when a poll leaves the loop listening (`polled` while idle) no accepted message is outstanding:
  an accepted message that the loop took out of the mailbox was handed to `handle`;
* nothing is handled after the actor's task ended. -/
def next (s : St) : Ev → Except String St
  | .sendRet _ m true => .ok { s with queue := s.queue ++ [.msg m] }
  | .callSent k true => .ok { s with queue := s.queue ++ [.call k] }
  | .enter cb arg =>
    match cb with
    | .handle =>
      if s.over then .error "c02.handled-after-exit"
      else match s.queue with
        | x :: q => if x = arg then .ok { s with queue := q, idle := false } else .error "c02.order"
        | [] => .error "c02.handled-not-accepted"
    | cb => .ok { s with idle := false, entered := s.entered || cb == .preStart }
  | .exit cb r => .ok { s with idle := decide (r = .ok) && (cb == .postStart || cb == .handle || cb == .sup) }
  | .cancelled _ => .ok { s with idle := false }
  | .aborted => .ok { s with idle := false }
  | .join _ => .ok { s with idle := false, over := true }
  | .dropped => .ok { s with idle := false, over := true }
  | .spawnRet r =>
    match r with
    | .ok => .ok s
    | .registered => .ok s
    | _ => .ok { s with idle := false, over := s.over || s.entered }
  | .polled => if s.idle && !s.queue.isEmpty then .error "c02.accepted-not-handled" else .ok s
  | .instant => .ok { s with entered := true }   -- `spawn_instant`: the mailbox exists from now on
  | _ => .ok s

def ok (tr : List Ev) : Bool := (accepts next {} tr).isOk

/-- Messages handled / accepted along a trace, in order. -/
def handled : List Ev → List Arg
  | [] => []
  | .enter .handle x :: l => x :: handled l
  | _ :: l => handled l

def accepted : List Ev → List Arg
  | [] => []
  | .sendRet _ m true :: l => .msg m :: accepted l
  | .callSent k true :: l => .call k :: accepted l
  | _ :: l => accepted l

end C02

namespace Residue

structure St where
  /-- `pre_start` was entered: the actor exists for the outside world -/
  entered : Bool := false
  /-- the spawn of this actor did not produce a running actor -/
  failed : Bool := false
  deriving DecidableEq, Repr, Inhabited

/-- Nothing is left of the actor. -/
def clean (sn : Snap) : Except String Unit :=
  if sn.status ≠ .stopped then .error "residue.status-not-stopped"
  else if sn.sup.isSome then .error "residue.supervisor-left"
  else if sn.inKids then .error "residue.in-child-set"
  else if sn.nameHeld then .error "residue.name-held"
  else if sn.ngroups ≠ 0 then .error "residue.group-member"
  else .ok ()

/-- After a spawn that failed (`pre_start` Err / panic, kill during start-up, refused link) or
whose future was dropped: no callback activity, no supervision event, every observable snapshot is
clean, sends are refused, waiters are released, calls queued to it are resolved.
(A name clash — `spawnRet registered` — creates no actor at all; it is judged by the frame clause
of the driver.) This automaton is an extra run-time oracle of the `Life` driver
(model name `life-residue`); C08 itself is decided by a separate check. -/
def next (s : St) : Ev → Except String St
  | .spawnRet r =>
    match r with
    | .ok => if s.failed then .error "residue.spawn-ok-after-failure" else .ok s
    | .registered => .ok s
    -- (a thread-local actor whose link is refused fails before `pre_start`: nobody ever saw it)
    | _ => .ok { s with failed := s.entered }
  | .dropped => .ok { s with failed := true }
  | .enter cb _ =>
    if s.failed then .error "residue.callback-after-failed-spawn"
    else .ok { s with entered := s.entered || cb == .preStart }
  | .tick _ => if s.failed then .error "residue.callback-after-failed-spawn" else .ok s
  | .exit _ _ => if s.failed then .error "residue.callback-after-failed-spawn" else .ok s
  | .emit _ _ => if s.failed then .error "residue.supervision-event" else .ok s
  | .monFan _ _ _ => if s.failed then .error "residue.supervision-event" else .ok s
  | .snap sn =>
    if s.failed then
      match clean sn with
      | .ok () => .ok s
      | .error c => .error c
    else .ok s
  | .sendRet _ _ true => if s.failed then .error "residue.send-accepted" else .ok s
  | .callRet _ .pending => if s.failed then .error "residue.call-not-resolved" else .ok s
  | .callRet _ (.success _) => if s.failed then .error "residue.call-answered" else .ok s
  | .waitRet _ false => if s.failed then .error "residue.waiter-not-released" else .ok s
  | _ => .ok s

def ok (tr : List Ev) : Bool := (accepts next {} tr).isOk

end Residue

end Life
