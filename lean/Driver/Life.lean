import RactorModel.Model.Life
import Driver.Common

/-! Driver for the `Life` model (C01, C03, C04).

ops (written by `harness/hcore/src/bin/life.rs` after executing them on the real code):
  `case n` · `spawn a sup=p|-` · `pollspawn a` · `dropspawn a` · `poll a` · `abort a`
  `resume a [sendself:m] [stopself[:r]] [killself] (tick|ok|err:n|panic:n)`
  `send a m` · `stop a r|-` · `kill a` · `drain a`
observation: `<notes joined by "; ">|- | <a:Status/sup/nkids …>|- | run=<ids>|-`

The model's observation is rendered from `World.step`; the oracles `C01.ok`, `C03.ok`, `C04.ok`
(the automata of `Model/Life.lean`) are run on the per-actor traces *derived from the
implementation's observation line* (notes, API results, status fields) — never from the model.
Model names `life-c01` / `life-c03` / `life-c04` select which property's clauses are reported;
the DIFF comparison is always on.
-/

namespace Driver.LifeDrv
open _root_.Life Driver

/-! ### rendering -/

def cbName : Cb → String
  | .preStart => "pre_start" | .postStart => "post_start" | .handle => "handle"
  | .sup => "sup" | .postStop => "post_stop"

def cbOf? : String → Option Cb
  | "pre_start" => some .preStart | "post_start" => some .postStart | "handle" => some .handle
  | "sup" => some .sup | "post_stop" => some .postStop | _ => none

def reasonStr : Reason → String
  | .none => "-" | .text s => s | .drained => "Drained" | .killed => "killed"
  | .cancelled => "actor_task_cancelled"

def reasonOf (s : String) : Reason :=
  if s == "-" then .none else if s == "Drained" then .drained else if s == "killed" then .killed
  else if s == "actor_task_cancelled" then .cancelled else .text s

def resStr : Res → String
  | .ok => "ok" | .err n => s!"err:{n}" | .panic n => s!"panic:{n}"

def supEvStr : SupEv → String
  | .started c => s!"Started {c}"
  | .terminated c st r => s!"Terminated {c} s{if st then 1 else 0} {reasonStr r}"
  | .failed c p n => s!"Failed {c} {if p then "panic" else "err"}-{n}"

def okErr (b : Bool) : String := if b then "Ok" else "Err"
def sendStr (b : Bool) : String := if b then "Ok" else "Err(SendErr)"

def spawnRetStr : SpawnRet → String
  | .ok => "Ok" | .killed => "Err(killed)" | .nolink => "Err(nolink)"
  | .startup p n => s!"Err(startup:{if p then "panic" else "err"}-{n})"
  | .registered => "Err(registered)"
  | .already => "Err(already)"
  | .joinPanic => "Panic"

def callResStr : CallRes → String
  | .pending => "Pending" | .success v => s!"Success({v})" | .senderError => "SenderError"
  | .sendErr => "Err(SendErr)"

/-- The note the harness prints for this output of actor `a` (none for silent ones). -/
def renderOut (a : Nat) : Out → Option String
  | .ev (.enter cb arg) =>
    let t := match arg with
      | .none => "" | .msg m => s!" {m}" | .sup e => " " ++ supEvStr e | .call k => s!" call{k}"
    some s!"enter {a} {cbName cb}{t}"
  | .ev (.tick cb) => some s!"tick {a} {cbName cb}"
  | .ev (.exit cb r) => some s!"exit {a} {cbName cb} {resStr r}"
  | .ev (.cancelled cb) => some s!"cancelled {a} {cbName cb}"
  | .ev (.sendRet self m ok) => some (if self then s!"fx sendself {m} {sendStr ok}" else s!"ret {sendStr ok}")
  | .ev (.stopRet self r ok) => some (if self then s!"fx stopself {reasonStr r} {okErr ok}" else s!"ret {okErr ok}")
  | .ev (.killRet self ok) => some (if self then s!"fx killself {okErr ok}" else s!"ret {okErr ok}")
  | .ev (.drainRet ok) => some s!"ret {sendStr ok}"
  | .ev (.spawnRet r) => some s!"ret {spawnRetStr r}"
  | .ev (.emit to e) => some s!"emit {to} {supEvStr e}"
  | .ev (.join r) => some s!"join {a} {match r with | .ok => "Ok" | .cancelled => "Cancelled" | .panic => "Panic"}"
  | .ev (.fxJoin g) => some s!"fx join {g}"
  | .ev (.fxReply k v ok) => some s!"fx reply {k} {v} {if ok then "Ok" else "NoPort"}"
  | .ev (.fxForget k ok) => some s!"fx forget {k} {if ok then "Ok" else "NoPort"}"
  | .ev (.fxSpawn c loc) => some s!"fx spawnchild {c}{if loc then " local" else ""}"
  | .ev (.callRet k r) => some s!"call {k} {callResStr r}"
  | .ev (.waitRet w ready) => some s!"wait {w} {if ready then "Ready" else "Pending"}"
  | .ev .instant => some "inst Ok"
  | .ev (.monFan _ tg e) =>
    if tg.isEmpty then none else some ("; ".intercalate (tg.map fun m => s!"monemit {m} {supEvStr e}"))
  | .ev _ => none
  | .note s => some s
  | .eff _ => none

def statusStr : Status → String
  | .unstarted => "Un" | .starting => "St" | .running => "Ru" | .upgrading => "Up"
  | .draining => "Dr" | .stopping => "Sg" | .stopped => "Sd"

def sortNats (l : List Nat) : List Nat := (l.toArray.qsort (· < ·)).toList

def renderWorld (w : World) (names groups : List String) : String :=
  let sts := w.actors.filterMap fun a =>
    if a.phase = .fresh then none
    else
      let kids := match a.kids with
        | some l => showNats (sortNats l)
        | none => "x"      -- closed by a `terminate()`
      some s!"{a.id}:{statusStr a.status}/{match a.sup with | some p => toString p | none => "-"}/{kids}"
  let run := w.actors.filterMap fun a => if a.phase.isTask && a.woken then some (toString a.id) else none
  let sts := if sts.isEmpty then "-" else " ".intercalate sts
  let run := if run.isEmpty then "-" else ",".intercalate run
  let nameT := names.map fun n =>
    match w.actors.find? (fun a => a.nameHeld && a.name == some n) with
    | some a => s!"{n}={a.id}"
    | none => s!"{n}=-"
  let groupT := groups.map fun g =>
    s!"{g}={showNats ((w.actors.filter (fun a => a.groups.contains g)).map (·.id))}"
  let tabs := nameT ++ groupT
  let tabs := if tabs.isEmpty then "-" else " ".intercalate tabs
  s!"{sts} | run={run} | {tabs}"

def renderLine (w : World) (names groups : List String) (own others : List WOut) : String :=
  let notes := own.filterMap fun (a, o) => renderOut a o
  let notes := if notes.isEmpty then "-" else "; ".intercalate notes
  -- actors killed by a `terminate()` during this op (hook note `treekill`), as a sorted extra field
  let tk := sortNats ((own ++ others).filterMap fun (a, o) => if o == .ev .treeKill then some a else none)
  let tail := if tk.isEmpty then "" else s!" | tk={showNats tk}"
  -- monitors dropped because a send to them failed (model note `mondrop m` of the monitored actor)
  let md := (own ++ others).filterMap fun (a, o) => match o with
    | .note t => match t.splitOn " " with
      | ["mondrop", m] => some s!"{a}:{m}"
      | _ => none
    | _ => none
  let md := (md.toArray.qsort (· < ·)).toList
  let tail := if md.isEmpty then tail else tail ++ s!" | md={",".intercalate md}"
  s!"{notes} | {renderWorld w names groups}{tail}"

/-! ### parsing ops -/

def userReason (s : String) : Option String := if s == "-" then none else some s

def parseFx? (t : String) : Option Fx :=
  match t.splitOn ":" with
  | ["sendself", m] => m.toNat?.map .sendSelf
  | ["stopself"] => some (.stopSelf none)
  | ["stopself", r] => some (.stopSelf (userReason r))
  | ["killself"] => some .killSelf
  | ["join", g] => some (.joinGroup g)
  | ["reply", k, v] => do pure (.reply (← k.toNat?) (← v.toNat?))
  | ["forget", k] => k.toNat?.map .forget
  | ["spawnchild", c] => c.toNat?.map .spawnChild
  | _ => none

def parseTerm? (t : String) : Option Term :=
  match t.splitOn ":" with
  | ["tick"] => some .tick
  | ["ok"] => some .ok
  | ["err", n] => n.toNat?.map .err
  | ["panic", n] => n.toNat?.map .panic
  | _ => none

def parseSeg? (ts : List String) : Option Seg :=
  match ts.getLast? with
  | none => none
  | some last => do
    let term ← parseTerm? last
    let fx ← ts.dropLast.mapM parseFx?
    pure ⟨fx, term⟩

def parseOp? (line : String) : Option Op :=
  match words line with
  | ["case", _] => some .case
  | "spawn" :: a :: sup :: name :: kind => do
    let loc := kind == ["kind=local"]
    let a ← a.toNat?
    let name ← match name.splitOn "=" with
      | ["name", "-"] => some none
      | ["name", n] => some (some n)
      | _ => none
    match sup.splitOn "=" with
    | ["sup", "-"] => pure (.spawn a none name loc)
    | ["sup", p] => do let p ← p.toNat?; pure (.spawn a (some p) name loc)
    | _ => none
  | "spawninstant" :: a :: sup :: name :: kind => do
    let loc := kind == ["kind=local"]
    let a ← a.toNat?
    let name ← match name.splitOn "=" with
      | ["name", "-"] => some none
      | ["name", n] => some (some n)
      | _ => none
    match sup.splitOn "=" with
    | ["sup", "-"] => pure (.spawnInstant a none name loc)
    | ["sup", p] => do let p ← p.toNat?; pure (.spawnInstant a (some p) name loc)
    | _ => none
  | ["link", a, p] => do pure (.link (← a.toNat?) (← p.toNat?))
  | ["monitor", m, a] => do pure (.monitor (← m.toNat?) (← a.toNat?))
  | ["unmonitor", m, a] => do pure (.unmonitor (← m.toNat?) (← a.toNat?))
  | ["unlink", a, p] => do pure (.unlink (← a.toNat?) (← p.toNat?))
  | ["wait", w, a] => do pure (.wait (← w.toNat?) (← a.toNat?))
  | ["pollwait", w] => w.toNat?.map .pollWait
  | ["call", k, a] => do pure (.call (← k.toNat?) (← a.toNat?))
  | ["pollcall", k] => k.toNat?.map .pollCall
  | ["pollspawn", a] => a.toNat?.map .pollSpawn
  | ["dropspawn", a] => a.toNat?.map .dropSpawn
  | ["poll", a] => a.toNat?.map .poll
  | ["abort", a] => a.toNat?.map .abort
  | "resume" :: a :: rest => do let a ← a.toNat?; let s ← parseSeg? rest; pure (.resume a s)
  | ["send", a, m] => do pure (.send (← a.toNat?) (← m.toNat?))
  | ["stop", a, r] => do pure (.stop (← a.toNat?) (userReason r))
  | ["kill", a] => a.toNat?.map .kill
  | ["drain", a] => a.toNat?.map .drain
  | _ => none

/-! ### deriving the per-actor traces from the implementation's observation -/

def parseFail? (t : String) : Option (Bool × Nat) :=
  match t.splitOn "-" with
  | ["err", n] => n.toNat?.map (false, ·)
  | ["panic", n] => n.toNat?.map (true, ·)
  | _ => none

def parseSupEv? : List String → Option SupEv
  | ["Started", c] => c.toNat?.map .started
  | ["Terminated", c, st, r] => do
    let c ← c.toNat?
    let st ← (if st == "s1" then some true else if st == "s0" then some false else none)
    pure (.terminated c st (reasonOf r))
  | ["Failed", c, t] => do
    let c ← c.toNat?
    let (p, n) ← parseFail? t
    pure (.failed c p n)
  | _ => none

def parseRes? (t : String) : Option Res :=
  match t.splitOn ":" with
  | ["ok"] => some .ok
  | ["err", n] => n.toNat?.map .err
  | ["panic", n] => n.toNat?.map .panic
  | _ => none

def parseSpawnRet? (t : String) : Option SpawnRet :=
  if t == "Ok" then some .ok
  else if t == "Err(killed)" then some .killed
  else if t == "Err(nolink)" then some .nolink
  else if t == "Err(registered)" then some .registered
  else if t == "Err(already)" then some .already
  else if t == "Panic" then some .joinPanic
  else match t.splitOn "startup:" with
    | ["Err(", rest] =>
      match (rest.splitOn ")") with
      | [x, ""] => (parseFail? x).map fun (p, n) => .startup p n
      | _ => none
    | _ => none

/-- Events (tagged by actor) that one note of the implementation stands for; `none` = unparsable. -/
def parseCallRes? (t : String) : Option CallRes :=
  if t == "Pending" then some .pending
  else if t == "SenderError" then some .senderError
  else if t == "Err(SendErr)" then some .sendErr
  else match t.splitOn "Success(" with
    | ["", rest] => match rest.splitOn ")" with
      | [v, ""] => v.toNat?.map .success
      | _ => none
    | _ => none

/-- The actor an op is about, from the op line and the driver's own wait / call tables
(filled from `wait w a` / `call k a` op lines). -/
def opActor (waits calls : List (Nat × Nat)) : Op → Nat
  | .case => 0
  | .spawn a _ _ _ | .pollSpawn a | .dropSpawn a | .poll a | .abort a | .resume a _ | .send a _
  | .stop a _ | .kill a | .drain a | .wait _ a | .call _ a | .spawnInstant a _ _ _ | .link a _ | .unlink a _
  | .monitor _ a | .unmonitor _ a => a
  | .pollWait w => ((waits.find? (·.1 = w)).map (·.2)).getD 0
  | .pollCall k => ((calls.find? (·.1 = k)).map (·.2)).getD 0

def noteEvents (tgt : Nat) (op : Op) (note : String) : Option (List (Nat × Ev)) :=
  match words note with
  | "enter" :: a :: cb :: rest => do
    let a ← a.toNat?; let cb ← cbOf? cb
    let arg ← match cb, rest with
      | .handle, [m] =>
        match m.splitOn "call" with
        | ["", k] => k.toNat?.map Arg.call
        | _ => m.toNat?.map Arg.msg
      | .sup, r => (parseSupEv? r).map Arg.sup
      | _, [] => some Arg.none
      | _, _ => none
    pure [(a, .enter cb arg)]
  | ["tick", a, cb] => do pure [(← a.toNat?, .tick (← cbOf? cb))]
  | ["exit", a, cb, r] => do pure [(← a.toNat?, .exit (← cbOf? cb) (← parseRes? r))]
  | ["cancelled", a, cb] => do pure [(← a.toNat?, .cancelled (← cbOf? cb))]
  | ["fx", "sendself", m, r] => do pure [(tgt, .sendRet true (← m.toNat?) (r == "Ok"))]
  | ["fx", "stopself", r, x] => pure [(tgt, .stopRet true (reasonOf r) (x == "Ok"))]
  | ["fx", "killself", x] => pure [(tgt, .killRet true (x == "Ok"))]
  | ["ret", x] =>
    match op with
    | .send a m => pure [(a, .sendRet false m (x == "Ok"))]
    | .stop a r => pure [(a, .stopRet false (.ofUser r) (x == "Ok"))]
    | .kill a => pure [(a, .killRet false (x == "Ok"))]
    | .drain a => pure [(a, .drainRet (x == "Ok"))]
    | .spawn a _ _ _ | .pollSpawn a | .spawnInstant a _ _ _ => do pure [(a, .spawnRet (← parseSpawnRet? x))]
    | _ => none
  | ["inst", "Ok"] => pure [(tgt, .instant)]
  | ["sjoin", _] => pure []
  | "emit" :: p :: rest => do
    let p ← p.toNat?
    let e ← parseSupEv? rest
    pure [(e.who, .emit p e), (p, .supArrive e)]
  | ["join", a, r] => do
    let a ← a.toNat?
    let r ← (if r == "Ok" then some JoinRes.ok else if r == "Cancelled" then some JoinRes.cancelled
             else if r == "Panic" then some JoinRes.panic else none)
    pure [(a, .join r)]
  | ["fx", "join", g] => pure [(tgt, .fxJoin g)]
  | ["fx", "reply", k, v, x] => do pure [(tgt, .fxReply (← k.toNat?) (← v.toNat?) (x == "Ok"))]
  | ["fx", "forget", k, x] => do pure [(tgt, .fxForget (← k.toNat?) (x == "Ok"))]
  -- a child spawned from inside a callback: the callback's own event, and the child's `instant` (+ flavour)
  | ["fx", "spawnchild", c] => do
    let c ← c.toNat?
    pure [(tgt, .fxSpawn c false), (c, .instant)]
  | ["fx", "spawnchild", c, "local"] => do
    let c ← c.toNat?
    pure [(tgt, .fxSpawn c true), (c, .isLocal), (c, .instant)]
  | ["call", k, r] => do
    let k ← k.toNat?
    let r ← parseCallRes? r
    -- the first poll of the call future (op `call k a`) is the send of the request
    match op with
    | .call _ _ => pure [(tgt, .callSent k (r != .sendErr)), (tgt, .callRet k r)]
    | _ => pure [(tgt, .callRet k r)]
  | ["wait", w, r] => do pure [(tgt, .waitRet (← w.toNat?) (r == "Ready"))]
  | ["notask"] | ["nospawn"] | ["noopen"] | ["busy"] | ["respawn"] | ["nocell"] | ["nowait"] | ["nocall"] | ["nomon"]
  | ["bad-op"] => pure []
  | _ => none

def statusOf? : String → Option Status
  | "Un" => some .unstarted | "St" => some .starting | "Ru" => some .running | "Up" => some .upgrading
  | "Dr" => some .draining | "Sg" => some .stopping | "Sd" => some .stopped | _ => none

structure ObsActor where
  id : Nat
  status : Status
  sup : Option Nat
  kids : List Nat
  kidsClosed : Bool := false

/-- Status field `a:St/sup/kids …` of the observation. -/
def parseStatuses (field : String) : List ObsActor :=
  (words field).filterMap fun w =>
    match w.splitOn ":" with
    | [a, rest] =>
      match rest.splitOn "/" with
      | [st, sup, kids] => do
        let a ← a.toNat?
        let st ← statusOf? st
        pure { id := a, status := st, sup := sup.toNat?, kids := (natList? kids).getD [], kidsClosed := kids == "x" }
      | _ => none
    | _ => none

/-- Table field `n1=0 g1=0,2 …`: (key, members). -/
def parseTables (field : String) : List (String × List Nat) :=
  (words field).filterMap fun w =>
    match w.splitOn "=" with
    | [k, v] => some (k, (natList? v).getD [])
    | _ => none

/-! ### driver state -/

inductive Prop3 | c01 | c03 | c04 | residue | c02
  deriving DecidableEq

structure Mon where
  c01 : Except String C01.St := .ok {}
  c03 : Except String C03.St := .ok {}
  c04 : Except String C04.St := .ok {}
  res : Except String Residue.St := .ok {}
  c02 : Except String C02.St := .ok {}
  /-- last observed supervisor (status field) -/
  sup : Option Nat := none

instance : Inhabited Mon := ⟨{}⟩

structure St where
  w : World := {}
  mons : Array Mon := #[]
  hist : UInt64 := 0
  /-- names / groups mentioned so far in this case (order of first mention) -/
  names : List String := []
  groups : List String := []
  /-- from the op lines: wait id → target, call id → callee -/
  waits : List (Nat × Nat) := []
  calls : List (Nat × Nat) := []
  /-- previous observation (for the name-clash frame clause) -/
  prev : String := ""
  /-- actors a `terminate()` reached in this case (their child set is closed: a link to them is refused) -/
  treeKilled : List Nat := []
  /-- feature `monitors`: who monitors whom, from the harness's own `monitor` / `unmonitor` ops (and the
  `md=` field: monitors the implementation dropped after a failed send): monitored actor → monitors, ascending -/
  monReg : List (Nat × List Nat) := []

def feed {σ : Type} (next : σ → Ev → Except String σ) (m : Except String σ) (e : Ev) :
    Except String σ × Option String :=
  match m with
  | .error c => (.error c, none)           -- already reported for this actor
  | .ok s => match next s e with
    | .ok s' => (.ok s', none)
    | .error c => (.error c, some c)

/-- Feed one implementation-derived event of actor `a` to its three automata. -/
def feedEv (which : Prop3) (mons : Array Mon) (a : Nat) (e : Ev) : Array Mon × List String :=
  let mons := if a < mons.size then mons else mons ++ Array.replicate (a + 1 - mons.size) (default : Mon)
  let m := mons[a]!
  let (c01, f1) := feed C01.next m.c01 e
  let (c03, f3) := feed C03.next m.c03 e
  let (c04, f4) := feed (C04.next a) m.c04 e
  let (res, f8) := feed Residue.next m.res e
  let (c02, f2) := feed C02.next m.c02 e
  let fails := match which with
    | .c01 => f1.toList | .c03 => f3.toList | .c04 => f4.toList | .residue => f8.toList | .c02 => f2.toList
  (mons.set! a { m with c01, c03, c04, res, c02 }, fails)

def hasSub (s sub : String) : Bool := (s.splitOn sub).length > 1

/-- `target` is `x` or an ancestor of `x` in the observed supervision tree. -/
def obsAbove (obs : List ObsActor) : Nat → Nat → Nat → Bool
  | 0, _, _ => false
  | fuel + 1, x, target =>
    if x == target then true
    else match (obs.find? (·.id == x)).bind (·.sup) with
      | some q => obsAbove obs fuel q target
      | none => false

def regOf (reg : List (Nat × List Nat)) (a : Nat) : List Nat := ((reg.find? (·.1 == a)).map (·.2)).getD []

def regSet (reg : List (Nat × List Nat)) (a : Nat) (l : List Nat) : List (Nat × List Nat) :=
  (reg.filter (·.1 != a)) ++ [(a, l)]

/-- `monemit to <event…>` → (to, event) -/
def parseMonEmit? (note : String) : Option (Nat × SupEv) :=
  match words note with
  | "monemit" :: to :: rest => do pure (← to.toNat?, ← parseSupEv? rest)
  | _ => none

def addNew (l : List String) (x : String) : List String := if l.contains x then l else l ++ [x]

/-- the STATE part of an observation line (statuses, runnable set, names): the first field is the events of the
op and a trailing `tk=…` field lists the tree kills issued inside the op - both are per-op, not state -/
def afterBar (s : String) : String :=
  match s.splitOn " | " with
  | _ :: rest => " | ".intercalate (rest.filter fun f => !f.startsWith "tk=")
  | [] => ""

def step (which : Prop3) (st : St) (opLine impl : String) : St × StepOut :=
  match parseOp? opLine with
  | none => (st, { model := "bad-op" })
  | some op =>
    let st := if op = .case then ({ hist := st.hist } : St) else st
    -- names / groups are known to the harness from the op line
    let names := match op with
      | .spawn _ _ (some n) _ => addNew st.names n
      | .spawnInstant _ _ (some n) _ => addNew st.names n
      | _ => st.names
    let groups := match op with
      | .resume _ sg => sg.fx.foldl (fun acc f => match f with | .joinGroup g => addNew acc g | _ => acc) st.groups
      | _ => st.groups
    let waits := match op with | .wait w a => st.waits ++ [(w, a)] | _ => st.waits
    let calls := match op with | .call k a => st.calls ++ [(k, a)] | _ => st.calls
    let (w', own, others) := st.w.step op
    -- Known finding F15: an actor that exits while it is on a supervision cycle does not send its terminal
    -- event to its supervisor (its own `terminate()` walks back to it and clears the link first). The
    -- model's `cleanup` sends it; in exactly that configuration the rendering follows the code, so that the
    -- witness can be replayed on every run without a DIFF; the ORACLE below still reports the finding.
    let tgt0 := opActor st.waits st.calls op
    let onCyc := op != .case && st.w.onCycle tgt0
    let ownR := if onCyc then own.filter (fun (_, o) => match o with
        | .ev (.emit _ e) => !e.isTerminal
        | _ => true) else own
    let model := renderLine w' names groups ownR others
    let hist := if op = .case then 0 else mixHash st.hist (hash opLine)
    -- implementation-derived events
    let tgt := opActor waits calls op
    let fields := impl.splitOn " | "
    let notes := match fields with
      | n :: _ => if n == "-" then [] else n.splitOn "; "
      | [] => []
    let pre : List (Nat × Ev) := match op with
      | .spawn a _ _ true =>   -- the op line says the actor is thread-local (and it was created)
        if notes.any (fun n => hasSub n "enter") then [(a, .isLocal)] else []
      | .spawnInstant a _ _ true => if notes.contains "inst Ok" then [(a, .isLocal)] else []
      | .abort a => if notes.contains "notask" then [] else [(a, .aborted)]
      | .dropSpawn a => if notes.contains "nospawn" then [] else [(a, .dropped)]
      | _ => []
    -- feature `monitors`: all copies of one event sent to monitors in this op are ONE `monFan` event of
    -- the actor the event is about (registered set from the harness's ops, observed targets sorted, with
    -- repetitions), placed where the first copy was sent
    let mdPairs : List (Nat × Nat) := (fields.drop 4).foldl (fun acc f =>
      match f.splitOn "=" with
      | ["md", v] => acc ++ (v.splitOn ",").filterMap fun x =>
          match x.splitOn ":" with
          | [a, m] => do pure (← a.toNat?, ← m.toNat?)
          | _ => none
      | _ => acc) []
    let monAll : List (Nat × SupEv) := notes.filterMap parseMonEmit?
    -- (the registered set is kept current inside the op: a monitor whose copy could not be delivered — field
    -- `md=` — is dropped right after that fan-out)
    let (evsR, bad, _, regNow) := notes.foldl
      (fun (acc : List (Nat × Ev) × Bool × List SupEv × List (Nat × List Nat)) n =>
      let (evs0, bad0, seen, reg) := acc
      if n.startsWith "monemit " then
        match parseMonEmit? n with
        | some (to, e) =>
          -- every copy arrives at that monitor's supervision port (C03 counts arrivals)
          if seen.contains e then (evs0 ++ [(to, Ev.supArrive e)], bad0, seen, reg)
          else
            let tg := sortNats ((monAll.filter (·.2 == e)).map (·.1))
            let regA := regOf reg e.who
            let reg' := regSet reg e.who (regA.filter fun m => !(tg.contains m && mdPairs.contains (e.who, m)))
            (evs0 ++ [(e.who, Ev.monFan regA tg e), (to, Ev.supArrive e)], bad0, seen ++ [e], reg')
        | none => (evs0, true, seen, reg)
      else
        match noteEvents tgt op n with
        | some l => (evs0 ++ l, bad0, seen, reg)
        | none => (evs0, true, seen, reg)) (pre, false, [], st.monReg)
    -- a monitored actor whose task ended must have told its monitors: if no terminal copy was observed,
    -- the missing fan-out is put in front of the `join` (judged `c04.monitor-set`)
    let evsR : List (Nat × Ev) := evsR.foldl (fun acc (a, e) =>
      match e with
      | .join _ =>
        let reg := regOf regNow a
        let seen := evsR.any fun (b, x) => b == a && (match x with | .monFan _ _ f => f.isTerminal | _ => false)
        if reg.isEmpty || seen then acc ++ [(a, e)]
        else acc ++ [(a, Ev.monFan reg [] (.terminated a false .none)), (a, e)]
      | _ => acc ++ [(a, e)]) []
    -- actors killed by a `terminate()` inside this op (5th field `tk=a,b`)
    let tkA : List Nat := match fields with
      | _ :: _ :: _ :: _ :: rest => rest.foldl (fun acc f => match f.splitOn "=" with
        | ["tk", v] => acc ++ (natList? v).getD []
        | _ => acc) []
      | _ => []
    let evsR := evsR ++ tkA.map fun a => (a, Ev.treeKill)
    -- the end of a poll of a live loop task
    let evsR : List (Nat × Ev) := match op with
      | .poll a => if notes.contains "notask" then evsR else evsR ++ [(a, Ev.polled)]
      | _ => evsR
    let (mons, fails) := evsR.foldl (fun (acc : Array Mon × List String) (a, e) =>
      let (m, f) := feedEv which acc.1 a e
      (m, acc.2 ++ f)) (st.mons, [])
    -- observed supervisors (status field), fed after the notes; then the snapshot of every actor
    let obs := match fields with
      | _ :: f :: _ => parseStatuses f
      | _ => []
    let tabs := match fields with
      | _ :: _ :: _ :: f :: _ => parseTables f
      | _ => []
    let (mons, fails) := obs.foldl (fun (acc : Array Mon × List String) o =>
      let mons := if o.id < acc.1.size then acc.1 else acc.1 ++ Array.replicate (o.id + 1 - acc.1.size) (default : Mon)
      let (mons, fails) :=
        if mons[o.id]!.sup = o.sup then (mons, acc.2)
        else
          let mons := mons.set! o.id { mons[o.id]! with sup := o.sup }
          let (m, f) := feedEv which mons o.id (.supIs o.sup)
          (m, acc.2 ++ f)
      let sn : Snap := {
        status := o.status, sup := o.sup,
        -- in the child set of its observed supervisor / of somebody who is not its supervisor
        inKids := obs.any (fun p => some p.id == o.sup && p.kids.contains o.id),
        foreign := obs.any (fun p => some p.id != o.sup && p.kids.contains o.id),
        nameHeld := tabs.any (fun t => names.contains t.1 && t.2 == [o.id]),
        ngroups := (tabs.filter (fun t => groups.contains t.1 && t.2.contains o.id)).length }
      let (m, f) := feedEv which mons o.id (.snap sn)
      (m, fails ++ f)) (mons, fails)
    -- F15 gets its own clause name: a missing terminal event of an actor that was on a supervision cycle
    -- (observed link graph before the op) when its task ended
    let prevObs0 := match st.prev.splitOn " | " with
      | _ :: f :: _ => parseStatuses f
      | _ => []
    let cycActors : List Nat := prevObs0.filterMap fun o =>
      match o.sup with
      | some p => if obsAbove prevObs0 (prevObs0.length + 1) p o.id then some o.id else none
      | none => none
    let endedHere : List Nat := evsR.filterMap fun (a, e) => match e with | .join _ => some a | _ => none
    let fails := fails.map fun c =>
      if c == "c04.missing-terminal" && endedHere.any (fun a => cycActors.contains a) then "c04.missing-terminal-in-cycle" else c
    let pfx := match which with | .c01 => "c01" | .c03 => "c03" | .c04 => "c04" | .residue => "residue" | .c02 => "c02"
    let fails := if bad then fails ++ [pfx ++ ".unparsable"] else fails
    -- the model must have routed every effect of this step (never drop one silently)
    let fails := if st.w.stepDone op then fails else fails ++ [pfx ++ ".model-fuel-exhausted"]
    -- residue oracle, driver-level clauses about the registry: a name that the implementation showed as free
    -- can be taken; a name clash leaves every observable field as it was
    let fails := match which, op with
      | .residue, .spawn _ _ (some n) _ | .residue, .spawnInstant _ _ (some n) _ =>
        let prevTabs := match st.prev.splitOn " | " with
          | _ :: _ :: _ :: f :: _ => parseTables f
          | _ => []
        let wasFree := !(prevTabs.any (fun t => t.1 == n && !t.2.isEmpty))
        let clash := notes.contains "ret Err(registered)"
        fails ++ (if clash && wasFree then ["residue.name-not-reusable"] else [])
              ++ (if !clash && !wasFree then ["residue.clash-not-detected"] else [])
              ++ (if clash && !(afterBar impl == afterBar st.prev || st.names.contains n == false) then ["residue.clash-changed-state"] else [])
      | _, _ => fails
    -- C04, driver-level clauses about the public `link` / `unlink`: a link that must succeed (both sides
    -- below `Draining` before the op, the new supervisor's child set not closed by a `terminate()`) makes
    -- the target the supervisor; an `unlink` of the current supervisor clears it
    let prevObs := match st.prev.splitOn " | " with
      | _ :: f :: _ => parseStatuses f
      | _ => []
    let fails := match which, op with
      | .c04, .link a p =>
        match prevObs.find? (·.id == a), prevObs.find? (·.id == p), obs.find? (·.id == a) with
        | some oa, some op', some na =>
          if oa.status.rank < Status.draining.rank && op'.status.rank < Status.draining.rank
              && !op'.kidsClosed && !obsAbove prevObs (prevObs.length + 1) p a && na.sup != some p
          then fails ++ ["c04.link-ignored"] else fails
        | _, _, _ => fails
      | .c04, .unlink a p =>
        match prevObs.find? (·.id == a), obs.find? (·.id == a) with
        | some oa, some na => if oa.sup == some p && na.sup == some p then fails ++ ["c04.unlink-ignored"] else fails
        | _, _ => fails
      | _, _ => fails
    -- non-trivial: the op reached the property's interesting branch
    -- bookkeeping of the monitor sets
    let monReg := match op with
      | .monitor m a =>
        if notes.contains "nocell" || notes.contains "nomon" then st.monReg
        else regSet st.monReg a (sortNats ((regOf st.monReg a).filter (· != m) ++ [m]))
      | .unmonitor m a =>
        if notes.contains "nocell" || notes.contains "nomon" then st.monReg
        else regSet st.monReg a ((regOf st.monReg a).filter (· != m))
      | _ => st.monReg
    let monReg := mdPairs.foldl (fun r (a, m) => regSet r a ((regOf r a).filter (· != m))) monReg
    let tgtA : Option Actor := if op = .case then none else some (st.w.get tgt)
    let filled : Nat := match tgtA with
      | some a => (if a.sigVal then 1 else 0) + (if a.stopVal.isSome then 1 else 0)
                  + (if a.supQ.isEmpty then 0 else 1) + (if a.msgQ.isEmpty then 0 else 1)
      | none => 0
    let openCb : Bool := match tgtA with | some a => a.phase.openCb.isSome | none => false
    let isPoll := match op with | .poll _ | .pollSpawn _ => true | _ => false
    let failedSpawn : Bool := match tgtA with
      | some a => a.phase = .done && !a.notifyOnCancel
      | none => false
    let nontrivial := match which with
      | .c01 => hasSub impl "cancelled" || hasSub impl " err:" || hasSub impl " panic:"
                || hasSub impl "post_stop" || hasSub impl "enter"
      | .c03 => (isPoll && (filled ≥ 2 || (filled ≥ 1 && openCb)))
                || ((match op with | .kill _ | .stop _ _ => true | _ => false) && hasSub impl "ret Ok" && (openCb || filled ≥ 1))
                || hasSub impl "fx killself Ok" || hasSub impl "fx stopself"
      | .c04 => hasSub impl "monemit" || hasSub impl "emit" || hasSub impl "ret Err(" || hasSub impl "join" || hasSub impl "cancelled"
      | .c02 => hasSub impl " handle " || ((match op with | .send _ _ | .call _ _ => true | _ => false) && (hasSub impl "ret Ok" || hasSub impl "Pending"))
                || hasSub impl "fx sendself" || (isPoll && (match tgtA with | some a => !a.msgQ.isEmpty | none => false))
      | .residue => ((match op with | .spawn _ _ _ _ | .pollSpawn _ | .spawnInstant _ _ _ _ => true | _ => false) && hasSub impl "ret Err(")
                || ((match op with | .dropSpawn _ => true | _ => false) && !hasSub impl "nospawn")
                || failedSpawn
    ({ w := w', mons, hist, names, groups, waits, calls, prev := impl, treeKilled := st.treeKilled ++ tkA, monReg },
     { model, oracle := fails, nontrivial, key := some (toString hist) })

def run (which : Prop3) (ops impl : Array String) : IO Tally :=
  replay ({} : St) (step which) ops impl

end Driver.LifeDrv
