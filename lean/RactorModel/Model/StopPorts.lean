/-!
# Model `StopPorts` — the one-shot stop / signal ports racing with drain and the actor's loop (C07, C02)

Small-step model of

* `ActorProperties::send_stop` / `send_signal` (`actor_properties.rs`): `self.stop.lock().take()` —
  the first caller takes the one-shot sender out of the `Mutex<Option<_>>`, every later caller finds
  `None` and gets `Err(ChannelClosed)`; the taker's `send` fails when the receiver was closed
  (`ActorPortSet::drop`). The mutex makes the whole call ONE atomic step.
* `ActorProperties::drain` reduced to what the loop can see of it: `close` (`fetch_or CLOSED`) and
  the marker step (`send_drain_marker`: only when closed and not yet sent; enqueue fails silently when
  the receiver is gone). Tickets / the status CAS are the business of `Model/Admission.lean`.
* the actor task: `listen_in_priority` (biased select: signal > stop > [supervision] > message),
  `run_with_signal` around the message handler and around `post_stop` (signal first at every poll),
  and `ActorPortSet::drop` (close + flush of every port).

The transition system is over *actions* (`act : S → Act → S`); an execution is any `List Act`. A
thread layer (`G`, `step`, `run`: any number of threads, each with a program `List Op`, a `drain`
being two actions of the same thread) is put on top; every thread execution is an action sequence
(`Lemmas/StopPorts.lean`), so what is proved for all action sequences holds for all thread counts,
programs and schedules.

Core Lean only; imports nothing.
-/

namespace StopPorts

/-- What the supervisor is told (`ActorTerminated(_, _, reason)`): `"killed"`, the stop reason
(`none` = `stop(None)`), `"Drained"`. -/
inductive Reason where
  | killed
  | stop (r : Option Nat)
  | drained
  deriving DecidableEq, Repr, Inhabited

inductive Item where
  | msg
  | drain
  deriving DecidableEq, Repr, Inhabited

/-- Where the actor task is. -/
inductive Phase where
  /-- inside `listen_in_priority` -/
  | listening
  /-- inside `run_with_signal(handle_message)` -/
  | handling
  /-- the loop returned `stop(reason)` (stop message or drain marker): inside
  `run_with_signal(post_stop)` -/
  | postStop (r : Reason)
  /-- the exit reason is final; `ActorPortSet` not dropped yet -/
  | decided (r : Reason)
  /-- `ActorPortSet::drop` ran: every port closed and flushed -/
  | gone (r : Reason)
  deriving DecidableEq, Repr, Inhabited

/-- Ghost clock of the loop: 0 = still choosing (listening / handling), 1 = `post_stop` running,
2 = exit reason final, 3 = ports dropped. -/
def Phase.epoch : Phase → Nat
  | .listening => 0
  | .handling => 0
  | .postStop _ => 1
  | .decided _ => 2
  | .gone _ => 3

def Phase.exit? : Phase → Option Reason
  | .decided r => some r
  | .gone r => some r
  | _ => none

/-- Ghost log entry: one `stop(reason)` / `kill()` call and what it returned. -/
structure Call where
  kill : Bool
  /-- stop reason (`none`: `stop(None)`, and for kills) -/
  reason : Option Nat
  /-- `send_stop` / `send_signal` returned `Ok` -/
  accepted : Bool
  /-- ghost: the loop's epoch at the time of the call -/
  epoch : Nat
  deriving DecidableEq, Repr, Inhabited

def Call.stopAcc (c : Call) : Bool := !c.kill && c.accepted
def Call.killAcc (c : Call) : Bool := c.kill && c.accepted

structure S where
  /-- `stop: Mutex<Option<OneshotSender>>` still holds the sender -/
  stopTx : Bool := true
  /-- value sitting in the stop one-shot, not yet received -/
  stopVal : Option (Option Nat) := none
  /-- `signal: Mutex<Option<OneshotSender>>` still holds the sender -/
  sigTx : Bool := true
  /-- a `Signal::Kill` sits in the signal one-shot -/
  sigVal : Bool := false
  /-- the `ActorPortSet` has not been dropped (receivers open) -/
  portsOpen : Bool := true
  /-- admission word: closed / marker bits -/
  closed : Bool := false
  marker : Bool := false
  /-- mailbox, oldest first -/
  queue : List Item := []
  phase : Phase := .listening
  /-- ghost: every stop/kill call in order -/
  calls : List Call := []
  /-- ghost: number of handler starts -/
  handled : Nat := 0
  /-- ghost: handler starts at a poll that found a stop or signal pending (must stay 0) -/
  handledOverPort : Nat := 0
  deriving Repr, Inhabited

inductive Act where
  /-- `cell.stop(reason)` = `send_stop` -/
  | stop (r : Option Nat)
  /-- `cell.kill()` = `send_signal(Kill)` -/
  | kill
  /-- a complete message send (admission is `Model/Admission`'s business) -/
  | send
  /-- `drain`: `fetch_or(CLOSED)` -/
  | dClose
  /-- `drain`: `send_drain_marker` -/
  | dMarker
  /-- the actor task is polled once; `fin`: the future wrapped by `run_with_signal` (handler,
  `post_stop`) completes in this poll -/
  | poll (fin : Bool)
  /-- `ActorPortSet::drop` -/
  | dropPorts
  deriving DecidableEq, Repr, Inhabited

/-- What the biased `select!` of `listen_in_priority` picks. -/
inductive Pick where
  | signal
  | stop (r : Option Nat)
  | msg
  | drain
  | pending
  deriving DecidableEq, Repr, Inhabited

/-- textual arm order of the biased `select!` in `listen_in_priority` and in `run_with_signal`
(tied to the source by `Extracted.selectArmVariants` / `Extracted.runWithSignalArms`) -/
def pickOrder : List String := ["signal", "stop", "supervision", "message"]
def runWithSignalOrder : List String := ["signal", "new_state"]

/-- signal > stop > message (supervision events are not part of this model) -/
def pick (sigVal : Bool) (stopVal : Option (Option Nat)) (head : Option Item) : Pick :=
  if sigVal then .signal
  else match stopVal with
    | some r => .stop r
    | none =>
      match head with
      | some .msg => .msg
      | some .drain => .drain
      | none => .pending

def act (s : S) : Act → S
  | .stop r =>
    let acc := s.stopTx && s.portsOpen
    { s with stopTx := false,
             stopVal := if acc then some r else s.stopVal,
             calls := s.calls ++ [⟨false, r, acc, s.phase.epoch⟩] }
  | .kill =>
    let acc := s.sigTx && s.portsOpen
    { s with sigTx := false,
             sigVal := if acc then true else s.sigVal,
             calls := s.calls ++ [⟨true, none, acc, s.phase.epoch⟩] }
  | .send => if !s.closed && s.portsOpen then { s with queue := s.queue ++ [.msg] } else s
  | .dClose => { s with closed := true }
  | .dMarker =>
    if s.closed && !s.marker then
      { s with marker := true, queue := if s.portsOpen then s.queue ++ [.drain] else s.queue }
    else s
  | .poll fin =>
    match s.phase with
    | .listening =>
      match pick s.sigVal s.stopVal s.queue.head? with
      | .signal => { s with sigVal := false, phase := .decided .killed }
      | .stop r => { s with stopVal := none, phase := .postStop (.stop r) }
      | .msg => { s with queue := s.queue.tail, handled := s.handled + 1, phase := .handling,
                         handledOverPort := s.handledOverPort + (if s.sigVal || s.stopVal.isSome then 1 else 0) }
      | .drain => { s with queue := s.queue.tail, phase := .postStop .drained }
      | .pending => s
    | .handling =>
      if s.sigVal then { s with sigVal := false, phase := .decided .killed }
      else if fin then { s with phase := .listening } else s
    | .postStop r =>
      if s.sigVal then { s with sigVal := false, phase := .decided .killed }
      else if fin then { s with phase := .decided r } else s
    | .decided _ => s
    | .gone _ => s
  | .dropPorts =>
    match s.phase with
    | .decided r => { s with portsOpen := false, stopVal := none, sigVal := false, queue := [], phase := .gone r }
    | _ => s

def runActs (s : S) (l : List Act) : S := l.foldl act s

/-! ### thread layer -/

inductive Op where
  | stop (r : Option Nat)
  | kill
  | send
  | drain
  deriving DecidableEq, Repr, Inhabited

/-- A thread: remaining program, and whether it is inside `drain` (after the close, before the
marker step). -/
structure Thread where
  ops : List Op
  inDrain : Bool := false
  deriving Repr, Inhabited

/-- the next atomic action of a thread -/
def Thread.next (t : Thread) : Option (Act × Thread) :=
  if t.inDrain then some (.dMarker, { t with inDrain := false })
  else match t.ops with
    | [] => none
    | .stop r :: rest => some (.stop r, { ops := rest })
    | .kill :: rest => some (.kill, { ops := rest })
    | .send :: rest => some (.send, { ops := rest })
    | .drain :: rest => some (.dClose, { ops := rest, inDrain := true })

structure G where
  s : S := {}
  threads : List Thread := []
  deriving Repr, Inhabited

inductive Tid where
  | t (i : Nat)
  | poll (fin : Bool)
  | dropPorts
  deriving DecidableEq, Repr, Inhabited

def step (g : G) : Tid → G
  | .t i =>
    match g.threads[i]? with
    | none => g
    | some th =>
      match th.next with
      | none => g
      | some (a, th') => { s := act g.s a, threads := g.threads.set i th' }
  | .poll fin => { g with s := act g.s (.poll fin) }
  | .dropPorts => { g with s := act g.s .dropPorts }

def run (g : G) (sched : List Tid) : G := sched.foldl step g

def init (progs : List (List Op)) : G :=
  { s := {}, threads := progs.map (fun p => { ops := p }) }

/-! ### The run-time oracle

`Obs` is what can be observed of a case — of the model (`obsOf`) and of the real implementation (the
driver fills it from the harness's records: every caller's result, the exit reason the supervisor
saw). `Obs.violations` is proved empty for every reachable state of the model (`Props/C07.lean`) and
evaluated by the driver on the implementation's observations. -/

structure Obs where
  calls : List Call
  /-- the exit reason reported, if the actor has exited -/
  exit : Option Reason
  /-- a drain marker was sent (the marker bit) -/
  marker : Bool
  /-- handler starts at a poll with a stop / signal pending -/
  handledOverPort : Nat
  /-- the actor task ran until it blocked and no call is in flight -/
  final : Bool
  deriving Repr, Inhabited

/-- the first request to a port is accepted unless the ports were already dropped -/
def firstOk : Option Call → Bool
  | some c => c.accepted || c.epoch == 3
  | none => true

/-- a kill accepted before the loop's decisive poll (the last poll of `post_stop`) -/
def Call.killInTime (c : Call) : Bool := c.killAcc && decide (c.epoch ≤ 1)

/-- a stop accepted before the loop chose its exit -/
def Call.stopInTime (c : Call) : Bool := c.stopAcc && c.epoch == 0

/-- The reported reason is an accepted request (or the marker), by the priority rule
signal > stop > drain marker. -/
def exitViolations (calls : List Call) (marker : Bool) : Option Reason → List String
  | none => []
  | some .killed =>
    if calls.any Call.killInTime then [] else ["exit-reason-not-an-accepted-request"]
  | some (.stop x) =>
    (if calls.any (fun c => c.stopInTime && c.reason == x) then []
     else if calls.any (fun c => !c.kill && !c.accepted && c.reason == x) then ["refused-stop-reason-won"]
     else ["exit-reason-not-an-accepted-request"]) ++
    (if calls.all (fun c => !c.killInTime) then [] else ["accepted-kill-lost-to-stop"])
  | some .drained =>
    (if marker then [] else ["exit-reason-not-an-accepted-request"]) ++
    (if calls.all (fun c => !c.killInTime) then [] else ["accepted-kill-lost-to-drain"]) ++
    (if calls.all (fun c => !c.stopInTime) then [] else ["accepted-stop-lost-to-drain"])

def Obs.violations (o : Obs) : List String :=
  -- at most one request is ever accepted by each one-shot port
  (if o.calls.countP Call.stopAcc ≤ 1 then [] else ["two-stop-requests-accepted"]) ++
  (if o.calls.countP Call.killAcc ≤ 1 then [] else ["two-kill-requests-accepted"]) ++
  -- the first request to a port whose receiver is still open is accepted (no spurious refusal)
  (if firstOk (o.calls.find? (fun c => !c.kill)) then [] else ["first-stop-request-refused"]) ++
  (if firstOk (o.calls.find? (fun c => c.kill)) then [] else ["first-kill-request-refused"]) ++
  -- nothing is accepted once the ports were dropped
  (if o.calls.all (fun c => !(c.accepted && c.epoch == 3)) then [] else ["request-accepted-after-exit"]) ++
  exitViolations o.calls o.marker o.exit ++
  -- stop / kill outrank messages
  (if o.handledOverPort == 0 then [] else ["message-handled-over-pending-stop"]) ++
  -- a request accepted in time makes the actor exit
  (if !o.final || o.exit.isSome || o.calls.all (fun c => !(c.accepted && decide (c.epoch ≤ 1))) then []
   else ["request-accepted-but-actor-runs-on"])

/-- The clauses that need no knowledge of *when* (relative to the loop) a request was made: what a
free-running run (real threads, no schedule points, multi-threaded runtime) can be judged by. -/
def Obs.freeViolations (o : Obs) : List String :=
  (if o.calls.countP Call.stopAcc ≤ 1 then [] else ["two-stop-requests-accepted"]) ++
  (if o.calls.countP Call.killAcc ≤ 1 then [] else ["two-kill-requests-accepted"]) ++
  (match o.exit with
   | none => []
   | some .killed => if o.calls.any Call.killAcc then [] else ["exit-reason-not-an-accepted-request"]
   | some (.stop x) =>
     if o.calls.any (fun c => c.stopAcc && c.reason == x) then []
     else if o.calls.any (fun c => !c.kill && !c.accepted && c.reason == x) then ["refused-stop-reason-won"]
     else ["exit-reason-not-an-accepted-request"]
   | some .drained => if o.marker then [] else ["exit-reason-not-an-accepted-request"]) ++
  (if !o.final || o.exit.isSome || o.calls.all (fun c => !c.accepted) then []
   else ["request-accepted-but-actor-runs-on"])

def obsOf (s : S) (final : Bool) : Obs :=
  { calls := s.calls, exit := s.phase.exit?, marker := s.marker, handledOverPort := s.handledOverPort,
    final := final }

/-- The actor task is blocked: it is listening with nothing pending, or gone. -/
def blocked (s : S) : Bool :=
  match s.phase with
  | .listening => !s.sigVal && s.stopVal.isNone && s.queue.isEmpty
  | .gone _ => true
  | _ => false

end StopPorts
