import RactorModel.Lemmas.FactorySlot

/-! Two per-slot invariants: at most one job in flight per slot; `pending_key_counts` counts
exactly the queued and the in-flight jobs of the slot. -/

namespace Factory

def keysCurr (p : WP) : List Nat := p.curr.map (·.1)
def keysMq (p : WP) : List Nat := p.mq.map (·.key)

/-- the slot's bookkeeping is consistent -/
structure SlotOk (p : WP) : Prop where
  one : p.curr.length ≤ 1
  tracks : ∀ k, p.pending.count k = (keysCurr p).count k + (keysMq p).count k

theorem count_erase_nat (l : List Nat) (a k : Nat) : (l.erase a).count k = l.count k - (if k = a then 1 else 0) := by
  rw [List.count_erase]
  by_cases h : k = a
  · subst h; simp
  · have : (a == k) = false := by simp; exact fun h' => h h'.symm
    simp [h, this]

/-- `get_next_non_expired_job`: what leaves the queue is untracked, unless it is returned -/
theorem getNextNonExpired_tracks {hd : Option Nat} (mq : List Job) (pend : List Nat) (e : Env) (c : Nat → Nat)
    (h : ∀ k, pend.count k = c k + (mq.map (·.key)).count k) :
    ∀ k, (getNextNonExpired hd mq pend e).2.2.1.count k =
      c k + ((getNextNonExpired hd mq pend e).2.1.map (·.key)).count k
        + ((getNextNonExpired hd mq pend e).1.toList.map (·.key)).count k := by
  induction mq generalizing pend e with
  | nil => intro k; simp [getNextNonExpired]; exact h k
  | cons j rest ih =>
    unfold getNextNonExpired
    split
    · intro k
      have := h k
      simp only [List.map_cons, List.count_cons, Option.toList_some, List.map_nil, List.count_nil] at this ⊢
      omega
    · apply ih
      intro k
      have hk := h k
      have hj := h j.key
      rw [count_erase_nat]
      simp only [List.map_cons, List.count_cons, beq_self_eq_true, if_true] at hk hj
      by_cases hkj : k = j.key
      · subst hkj; simp only [if_true, beq_self_eq_true] at hk ⊢; omega
      · have : (j.key == k) = false := by simp; exact fun h' => hkj h'.symm
        simp only [hkj, if_false, this, Bool.false_eq_true] at hk ⊢; omega

theorem getNext_tracks (p : WP) (e : Env) (c : Nat → Nat) (h : ∀ k, p.pending.count k = c k + (keysMq p).count k) :
    ∀ k, (p.getNext e).2.1.pending.count k =
      c k + (keysMq (p.getNext e).2.1).count k + ((p.getNext e).1.toList.map (·.key)).count k :=
  getNextNonExpired_tracks p.mq p.pending e c h

theorem currInsert_nil (k id : Nat) : currInsert [] k id = [(k, id)] := rfl

/-- `dispatch_job` on a slot with nothing in flight: the job is in flight or back at the queue head -/
theorem dispatchJob_slotOk (p : WP) (e : Env) (j : Job) (hc : p.curr = [])
    (h : ∀ k, p.pending.count k = (keysMq p).count k + ([j.key]).count k) : SlotOk (p.dispatchJob e j).1 := by
  unfold WP.dispatchJob
  split
  · refine ⟨by simp [hc, currInsert_nil], ?_⟩
    intro k
    have := h k
    simp only [keysCurr, keysMq, hc, currInsert_nil, List.map_cons, List.map_nil] at this ⊢
    omega
  · refine ⟨by simp [hc], ?_⟩
    intro k
    have := h k
    simp only [keysCurr, keysMq, hc, List.map_cons, List.map_nil, List.count_cons, List.count_nil] at this ⊢
    omega

theorem shedOldest_slotOk (limit fuel : Nat) (p : WP) (e : Env) (h : SlotOk p) : SlotOk (shedOldest limit fuel p e).1 := by
  induction fuel generalizing p e with
  | zero => exact h
  | succ fuel ih =>
    unfold shedOldest
    split
    · have hg := getNext_tracks p e (fun k => (keysCurr p).count k) h.tracks
      have hcurr := getNext_curr p e
      cases hn : p.getNext e with
      | mk r pe =>
        obtain ⟨p', e'⟩ := pe
        rw [hn] at hg hcurr
        simp only at hg hcurr
        cases r with
        | none =>
          simp only
          apply ih
          refine ⟨by rw [hcurr]; exact h.one, ?_⟩
          intro k
          have := hg k
          simp only [Option.toList_none, List.map_nil, List.count_nil, Nat.add_zero] at this
          simp only [keysCurr, hcurr]; exact this
        | some d =>
          simp only
          apply ih
          refine ⟨by simp only [WP.untrack]; rw [hcurr]; exact h.one, ?_⟩
          intro k
          have hk := hg k
          have hd := hg d.key
          simp only [Option.toList_some, List.map_cons, List.map_nil, List.count_cons, List.count_nil, beq_self_eq_true,
            if_true] at hk hd
          simp only [WP.untrack, keysCurr, keysMq, hcurr]
          rw [count_erase_nat]
          by_cases hkd : k = d.key
          · subst hkd; simp only [if_true, beq_self_eq_true] at hk ⊢; simp only [keysCurr, keysMq] at hk; omega
          · have : (d.key == k) = false := by simp; exact fun h' => hkd h'.symm
            simp only [hkd, if_false, this, Bool.false_eq_true] at hk ⊢; simp only [keysCurr, keysMq] at hk; omega
    · exact h

theorem enqueueAccepted_slotOk (p : WP) (e : Env) (j : Job) (hone : p.curr.length ≤ 1)
    (h : ∀ k, p.pending.count k = (keysCurr p).count k + (keysMq p).count k + ([j.key]).count k) :
    SlotOk (p.enqueueAccepted e j).1 := by
  unfold WP.enqueueAccepted
  split
  · rename_i hce
    have hc : p.curr = [] := by simpa using hce
    have hg := getNext_tracks p e (fun k => ([j.key]).count k) (by
      intro k; have := h k; simp only [keysCurr, hc, List.map_nil, List.count_nil, Nat.zero_add] at this; omega)
    have hcurr := getNext_curr p e
    cases hn : p.getNext e with
    | mk r pe =>
      obtain ⟨p', e'⟩ := pe
      rw [hn] at hg hcurr
      simp only at hg hcurr
      cases r with
      | none =>
        simp only
        apply dispatchJob_slotOk _ _ _ (by rw [hcurr]; exact hc)
        intro k
        have := hg k
        simp only [Option.toList_none, List.map_nil, List.count_nil, Nat.add_zero] at this
        omega
      | some older =>
        simp only
        apply dispatchJob_slotOk _ _ _ (by simp only; rw [hcurr]; exact hc)
        intro k
        have := hg k
        simp only [Option.toList_some, List.map_cons, List.map_nil] at this
        simp only [keysMq, List.map_append, List.count_append, List.map_cons, List.map_nil] at this ⊢
        omega
  · simp only
    have hpush : SlotOk { p with mq := p.mq ++ [j] } := by
      refine ⟨hone, ?_⟩
      intro k
      have := h k
      simp only [keysCurr, keysMq, List.map_append, List.count_append, List.map_cons, List.map_nil] at this ⊢
      omega
    split
    · exact shedOldest_slotOk _ _ _ _ hpush
    · exact hpush

theorem slotOk_inv : SlotInv SlotOk where
  enqueue := by
    intro p e j h
    unfold WP.enqueueJob
    split
    · exact h
    · apply enqueueAccepted_slotOk
      · exact h.one
      · intro k
        have := h.tracks k
        simp only [WP.track, keysCurr, keysMq, List.count_cons, List.count_nil] at this ⊢
        omega
  complete := by
    intro p e key h
    unfold WP.workerComplete
    split
    · rename_i hany
      -- the only entry in flight is the completed key
      obtain ⟨x, hx, hxk⟩ := List.any_eq_true.mp hany
      have hxk' : x.1 = key := by simpa using hxk
      have hcur : p.curr = [x] := by
        have h1 := h.one
        cases hc : p.curr with
        | nil => rw [hc] at hx; cases hx
        | cons y ys =>
          rw [hc] at h1 hx
          have : ys = [] := by
            cases ys with
            | nil => rfl
            | cons _ _ => simp at h1
          subst this
          simp only [List.mem_singleton] at hx
          rw [hx]
      have hfil : p.curr.filter (fun x => x.1 != key) = [] := by
        rw [hcur]; simp [hxk']
      generalize hp0 : ({ p with curr := p.curr.filter (fun x => x.1 != key), pending := p.pending.erase key } : WP) = p0
      have h0c : p0.curr = [] := by subst hp0; exact hfil
      have h0t : ∀ k, p0.pending.count k = 0 + (keysMq p0).count k := by
        intro k
        subst hp0
        have := h.tracks k
        simp only [keysCurr, keysMq, hcur, List.map_cons, List.map_nil, List.count_cons, List.count_nil] at this ⊢
        rw [count_erase_nat]
        by_cases hk : k = key
        · subst hk; simp only [if_true, hxk', beq_self_eq_true] at this ⊢; omega
        · have hx1 : (x.1 == k) = false := by rw [hxk']; simp; exact fun h' => hk h'.symm
          simp only [hk, if_false, hx1, Bool.false_eq_true] at this ⊢; omega
      have hg := getNext_tracks p0 e (fun _ => 0) h0t
      have hcurr := getNext_curr p0 e
      cases hn : p0.getNext e with
      | mk r pe =>
        obtain ⟨p', e'⟩ := pe
        rw [hn] at hg hcurr
        simp only at hg hcurr
        cases r with
        | none =>
          simp only [hn]
          refine ⟨by rw [hcurr, h0c]; simp, ?_⟩
          intro k
          have := hg k
          simp only [Option.toList_none, List.map_nil, List.count_nil, Nat.add_zero, Nat.zero_add] at this
          simp only [keysCurr, hcurr, h0c, List.map_nil, List.count_nil, Nat.zero_add]; exact this
        | some nj =>
          simp only [hn]
          apply dispatchJob_slotOk _ _ _ (by rw [hcurr]; exact h0c)
          intro k
          have := hg k
          simp only [Option.toList_some, List.map_cons, List.map_nil, Nat.zero_add] at this
          exact this
    · exact h
  replace := by
    intro p e naid h
    unfold WP.replaceWorker
    simp only
    generalize hp0 : ({ p with curr := [], pending := p.curr.foldl (fun acc x => acc.erase x.1) p.pending, actor := naid } : WP) = p0
    have h0c : p0.curr = [] := by subst hp0; rfl
    have h0t : ∀ k, p0.pending.count k = 0 + (keysMq p0).count k := by
      intro k
      subst hp0
      have := h.tracks k
      have h1 := h.one
      cases hc : p.curr with
      | nil => simp only [hc, keysCurr, keysMq, List.map_nil, List.count_nil, List.foldl_nil, Nat.zero_add] at this ⊢; exact this
      | cons y ys =>
        rw [hc] at h1
        have : ys = [] := by
          cases ys with
          | nil => rfl
          | cons _ _ => simp at h1
        subst this
        simp only [hc, keysCurr, keysMq, List.map_cons, List.map_nil, List.count_cons, List.count_nil, List.foldl_cons,
          List.foldl_nil] at this ⊢
        rw [count_erase_nat]
        by_cases hk : k = y.1
        · subst hk; simp only [if_true, beq_self_eq_true] at this ⊢; omega
        · have hy : (y.1 == k) = false := by simp; exact fun h' => hk h'.symm
          simp only [hk, if_false, hy, Bool.false_eq_true] at this ⊢; omega
    have hg := getNext_tracks p0 e (fun _ => 0) h0t
    have hcurr := getNext_curr p0 e
    cases hn : p0.getNext e with
    | mk r pe =>
      obtain ⟨p', e'⟩ := pe
      rw [hn] at hg hcurr
      simp only at hg hcurr
      cases r with
      | none =>
        simp only [hn]
        refine ⟨by rw [hcurr, h0c]; simp, ?_⟩
        intro k
        have := hg k
        simp only [Option.toList_none, List.map_nil, List.count_nil, Nat.add_zero, Nat.zero_add] at this
        simp only [keysCurr, hcurr, h0c, List.map_nil, List.count_nil, Nat.zero_add]; exact this
      | some nj =>
        simp only [hn]
        apply dispatchJob_slotOk _ _ _ (by rw [hcurr]; exact h0c)
        intro k
        have := hg k
        simp only [Option.toList_some, List.map_cons, List.map_nil, Nat.zero_add] at this
        exact this
  draining := fun p b h => ⟨h.one, h.tracks⟩
  disc := fun p d h => ⟨h.one, h.tracks⟩
  handler := fun p hd h => ⟨h.one, h.tracks⟩
  fresh := fun wid aid d hd => ⟨by simp, fun k => by simp [keysCurr, keysMq]⟩

end Factory
