import RactorModel.Model.FailingTransport
import RactorModel.Lemmas.FramesIo

/-! `Model/FailingTransport.lean` against `Codec.readFrames` / `readFramesIo`. -/

namespace Codec

/-- what follows the data: nothing (EOF) or a failing read and then anything -/
def tl (b : Bool) (rest : List Piece) : List Piece := if b then .fail :: rest else []

theorem readChunk_allEmpty (k : Nat) (cs : List Bytes) (t : List Piece) (h : cs.all (·.isEmpty) = true) :
    readChunk k cs = ([], []) ∧ readChunkT k (cs.map .data ++ t) = readChunkT k t := by
  induction cs with
  | nil => exact ⟨rfl, rfl⟩
  | cons c cs ih =>
    simp only [List.all_cons, Bool.and_eq_true] at h
    obtain ⟨i1, i2⟩ := ih h.2
    simp [readChunk, readChunkT, h.1, i1, i2]

theorem readChunk_some (k : Nat) (hk : 0 < k) (cs : List Bytes) (t : List Piece) (h : cs.all (·.isEmpty) = false) :
    (readChunk k cs).1 ≠ [] ∧
    readChunkT k (cs.map .data ++ t) = (.got (readChunk k cs).1, (readChunk k cs).2.map .data ++ t) := by
  induction cs with
  | nil => simp at h
  | cons c cs ih =>
    by_cases hc : c.isEmpty = true
    · have h' : cs.all (·.isEmpty) = false := by simpa [hc] using h
      obtain ⟨i1, i2⟩ := ih h'
      simp only [readChunk, hc, ↓reduceIte, List.map_cons, List.cons_append, readChunkT]
      exact ⟨i1, i2⟩
    · have hne : c ≠ [] := by simpa using hc
      simp only [readChunk, hc, Bool.false_eq_true, ↓reduceIte, List.map_cons, List.cons_append, readChunkT]
      refine ⟨?_, ?_⟩
      · cases c with
        | nil => exact absurd rfl hne
        | cons x xs => cases k with
          | zero => omega
          | succ k => simp
      · split <;> simp

theorem readLoopT_eq (csz need : Nat) (hc : 0 < csz) (b : Bool) (rest : List Piece) :
    ∀ (fuel : Nat) (buf : Bytes) (cs : List Bytes) (tr : List ReadEv), need - buf.length ≤ fuel →
      readLoopT csz need fuel buf (cs.map .data ++ tl b rest) =
        match (readLoop csz need fuel buf cs tr).1 with
        | none => (.error (if b then .io else .eof), (tl b rest).drop 1)
        | some x => (.ok x, (readLoop csz need fuel buf cs tr).2.1.map .data ++ tl b rest) := by
  intro fuel
  induction fuel with
  | zero =>
    intro buf cs tr hf
    have : ¬ buf.length < need := by omega
    simp [readLoopT, readLoop, this]
  | succ fuel ih =>
    intro buf cs tr hf
    by_cases hl : buf.length < need
    · have hk : 0 < min (need - buf.length) csz := by omega
      simp only [readLoopT, readLoop, hl, ↓reduceIte]
      cases ha : cs.all (·.isEmpty) with
      | true =>
        obtain ⟨a1, a2⟩ := readChunk_allEmpty (min (need - buf.length) csz) cs (tl b rest) ha
        rw [a1, a2]
        cases b <;> simp [tl, readChunkT]
      | false =>
        obtain ⟨a1, a2⟩ := readChunk_some (min (need - buf.length) csz) hk cs (tl b rest) ha
        rw [a2]
        have hg : (readChunk (min (need - buf.length) csz) cs).1.isEmpty = false := by simpa using a1
        have hlen : 0 < (readChunk (min (need - buf.length) csz) cs).1.length := by
          cases hh : (readChunk (min (need - buf.length) csz) cs).1 with
          | nil => exact absurd hh a1
          | cons x xs => simp
        simp only [hg, Bool.false_eq_true, ↓reduceIte]
        exact ih _ _ _ (by simp only [List.length_append]; omega)
    · simp [readLoopT, readLoop, hl]

theorem readNT_eq (csz need : Nat) (hc : 0 < csz) (b : Bool) (rest : List Piece) (cs : List Bytes) :
    readNT csz need (cs.map .data ++ tl b rest) =
      match (readN csz need cs).1 with
      | none => (.error (if b then .io else .eof), (tl b rest).drop 1)
      | some x => (.ok x, (readN csz need cs).2.1.map .data ++ tl b rest) :=
  readLoopT_eq csz need hc b rest need [] cs [] (by simp)

theorem readFrameT_eq {Msg : Type} (dec : Bytes → Option Msg) (max : Nat) (b : Bool) (rest : List Piece)
    (cs : List Bytes) :
    (readFrameT dec max (cs.map .data ++ tl b rest)).1 = ioEnd b (readFrame dec max cs).1 ∧
    (∀ m, (readFrame dec max cs).1 = .ok m →
      (readFrameT dec max (cs.map .data ++ tl b rest)).2 = (readFrame dec max cs).2.1.map .data ++ tl b rest) := by
  have h1 := readNT_eq 8 8 (by decide) b rest cs
  unfold readFrameT readFrame
  rcases hr : readN 8 8 cs with ⟨o, cs', tr⟩
  rw [hr] at h1
  cases o with
  | none =>
    simp only at h1
    rw [h1]
    cases b <;> simp [ioEnd]
  | some hdr =>
    simp only at h1
    rw [h1]
    simp only
    cases hck : checkedFrameLength (beVal hdr) max with
    | error e =>
      simp only
      refine ⟨?_, by intro m hm; simp at hm⟩
      unfold checkedFrameLength at hck
      split at hck
      · cases hck; cases b <;> rfl
      · split at hck
        · cases hck; cases b <;> rfl
        · cases hck
    | ok len =>
      simp only
      have h2 := readNT_eq chunkSize len (by decide) b rest cs'
      rcases hr2 : readN chunkSize len cs' with ⟨o2, cs'', tr2⟩
      rw [hr2] at h2
      cases o2 with
      | none =>
        simp only at h2
        rw [h2]
        cases b <;> simp [ioEnd]
      | some payload =>
        simp only at h2
        rw [h2]
        simp only
        cases hd : dec payload with
        | none => simp only; refine ⟨by cases b <;> rfl, by intro m hm; simp at hm⟩
        | some m =>
          simp only
          constructor
          · cases b <;> rfl
          · intros; first | rfl | trivial

theorem readFramesLoopT_eq {Msg : Type} (dec : Bytes → Option Msg) (max : Nat) (b : Bool) (rest : List Piece) :
    ∀ (fuel : Nat) (cs : List Bytes),
      readFramesLoopT dec max fuel (cs.map .data ++ tl b rest) = (readFramesLoop dec max fuel cs).1.map (ioEnd b) := by
  intro fuel
  induction fuel with
  | zero => intro cs; rfl
  | succ fuel ih =>
    intro cs
    obtain ⟨f1, f2⟩ := readFrameT_eq dec max b rest cs
    simp only [readFramesLoopT, readFramesLoop]
    rcases hr : readFrame dec max cs with ⟨r, cs', tr⟩
    rw [hr] at f1 f2
    rcases hrt : readFrameT dec max (cs.map .data ++ tl b rest) with ⟨rt, ps'⟩
    rw [hrt] at f1 f2
    simp only at f1 f2
    cases r with
    | err e =>
      simp only [List.map_cons, List.map_nil]
      subst f1
      try rw [hrt]
      cases e <;> cases b <;> rfl
    | ok m =>
      have : rt = .ok m := by rw [f1]; rfl
      subst this
      have hps := f2 m rfl
      subst hps
      try rw [hrt]
      simp only [List.map_cons]
      rw [ih cs']
      rfl

theorem dataLen_tl (b : Bool) (rest : List Piece) (cs : List Bytes) : dataLen (cs.map .data ++ tl b rest) = streamLen cs := by
  induction cs with
  | nil => cases b <;> simp [tl, dataLen, streamLen]
  | cons c cs ih => simp only [List.map_cons, List.cons_append, dataLen, ih, streamLen, List.flatten_cons, List.length_append]

end Codec
