import RactorModel.Lemmas.PgFineEq

/-! Who is told: the recipients of every notification are fixed in the region that makes the change. -/

namespace Pg
open AList

theorem expectedEvents_eq (st : State) (isJoin : Bool) (s g : Nat) (as : List Nat) :
    expectedEvents st isJoin s g as = (recipients st (s, g)).map (fun m => Ev.mk m isJoin s g as) := rfl

/-- `join_scoped` = its entry region followed by its notification region (when nobody passes the
status re-check the entry region only leaves a transient empty group entry behind, which the
clean-up region removes, and nothing is sent) -/
theorem joinEntry_notify (st : State) (s g : Nat) (as : List Nat) :
    (as.filter (alive st) ≠ [] → (joinEntry st s g as).1 = (join st s g as).1) ∧
    (((joinEntry st s g as).2.map notifyPending).getD []) = (join st s g as).2 := by
  unfold joinEntry
  by_cases hne : as.filter (alive st) = []
  · simp [hne, join_noop st s g as hne]
  · simp only [hne, ↓reduceIte, Option.map_some, Option.getD_some, true_and, ne_eq, not_false_eq_true, forall_const]
    rw [join_events]
    simp only [specEvents, hne, ↓reduceIte, expectedEvents_eq, notifyPending]

/-- `leave_scoped` = its entry region followed by its notification region -/
theorem leaveEntry_notify (st : State) (s g : Nat) (as : List Nat) :
    (leaveEntry st s g as).1 = (leave st s g as).1 ∧
    (((leaveEntry st s g as).2.map notifyPending).getD []) = (leave st s g as).2 := by
  unfold leaveEntry
  cases hg : get st.map (s, g) with
  | none => simp [leave_noop st s g as hg]
  | some gs =>
    simp only [Option.map_some, Option.getD_some, true_and]
    rw [leave_events]
    simp only [specEvents, hg, Option.isSome_some, ↓reduceIte, expectedEvents_eq, notifyPending]

namespace Fine

/-- the environment steps of the lock-step model -/
def isEnv : FOp → Bool
  | .api _ | .monRecheck _ _ | .monScopeRecheck _ _ | .joinClean _ _ _ => true
  | _ => false

theorem env_keeps_phase (a : Nat) (fs : FState) (op : FOp) (h : isEnv op = true) :
    (fstep a fs op).ph = fs.ph := by
  cases op <;> simp only [isEnv, Bool.false_eq_true] at h <;> simp only [fstep]
  split <;> rfl

theorem envs_keep_phase (a : Nat) (ops : List FOp) (fs : FState) (h : ∀ op ∈ ops, isEnv op = true) :
    (frun a fs ops).ph = fs.ph := by
  induction ops generalizing fs with
  | nil => rfl
  | cons op ops ih =>
    simp only [frun]
    rw [ih _ (fun o ho => h o (by simp [ho])), env_keeps_phase a fs op (h op (by simp))]

/-- a `leave_all` iteration that removes the exiter records the recipients of that very moment -/
theorem lvKey_records (a : Nat) (st : State) (mk : List Key) (removed : List (Key × List Nat)) (k : Key)
    (hk : k ∈ mk) (hm : a ∈ membersOf st k) :
    (fstep a ⟨st, .leaving mk removed⟩ (.lvKey k)).ph = .leaving (del k mk) (removed ++ [(k, recipients st k)]) := by
  simp [fstep, hk, leaveKey, hm]

/-- what `finish` sends is a function of the records alone -/
theorem finishLeave_events (st : State) (a : Nat) (removed : List (Key × List Nat)) :
    (finishLeave st a removed).2 = removed.flatMap (fun r => r.2.map (fun m => Ev.mk m false r.1.1 r.1.2 [a])) := rfl

end Fine
end Pg
