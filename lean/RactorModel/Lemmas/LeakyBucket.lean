import RactorModel.Model.LeakyBucket

/-! Helper lemmas for the leaky-bucket clauses of C15. -/

namespace LeakyBucket

theorem satAdd_le (a b : Nat) : satAdd a b ≤ a + b := Nat.min_le_left _ _
theorem satMul_le (a b : Nat) : satMul a b ≤ a * b := Nat.min_le_left _ _
theorem satAdd_le_max (a b : Nat) : satAdd a b ≤ USIZE_MAX := Nat.min_le_right _ _

theorem tokens_le (c : Cfg) (d now : Nat) :
    tokens c d now ≤ ((now - d) / c.interval + 1) * c.refill := by
  unfold tokens periods
  refine Nat.le_trans (Nat.min_le_left _ _) (Nat.le_trans (satMul_le _ _) ?_)
  exact Nat.mul_le_mul_right _ (Nat.min_le_left _ _)

theorem tokens_le_cap (c : Cfg) (d now : Nat) : tokens c d now ≤ MAX_LB_BALANCE :=
  Nat.min_le_right _ _

theorem refresh_balance_le_max (c : Cfg) (s : LB) (now : Nat) (h : s.balance ≤ c.max) :
    (refresh c s now).balance ≤ c.max := by
  unfold refresh
  split
  · exact h
  · split
    · exact h
    · split
      · exact Nat.min_le_right _ _
      · exact Nat.min_le_right _ _

theorem bump_balance_le (s : LB) : (bump s).balance ≤ s.balance := by
  unfold bump; split <;> simp <;> omega

theorem new_balance_le_max (c : Cfg) (i : Option Nat) (now : Nat) : (new c i now).balance ≤ c.max :=
  Nat.min_le_right _ _

theorem step_balance_le_max (c : Cfg) (s : LB) (call : Call) (h : s.balance ≤ c.max) :
    (step c s call).balance ≤ c.max := by
  cases call with
  | check now => exact refresh_balance_le_max c s now h
  | bump => exact Nat.le_trans (bump_balance_le s) h

theorem run_balance_le_max (c : Cfg) (s : LB) (calls : List Call) (h : s.balance ≤ c.max) :
    (run c s calls).balance ≤ c.max := by
  induction calls generalizing s with
  | nil => exact h
  | cons call rest ih => exact ih _ (step_balance_le_max c s call h)

/-- `boundaries` really counts the lattice points `d + k·I ≤ t1`. -/
theorem boundaries_spec (c : Cfg) (hI : 0 < c.interval) (d t1 k : Nat) :
    d + k * c.interval ≤ t1 ↔ k < boundaries c (some d) t1 := by
  unfold boundaries
  simp only
  split
  · rename_i hd
    rw [Nat.lt_succ_iff, Nat.le_div_iff_mul_le hI]
    omega
  · rename_i hd
    constructor
    · intro h
      have : d ≤ d + k * c.interval := Nat.le_add_right _ _
      omega
    · intro h; omega

/-- Key arithmetic fact: a refresh at `now ∈ [d, t1]` consumes exactly the boundaries up to
`now` and leaves the rest pending. -/
theorem boundaries_split (I d now t1 : Nat) (hI : 0 < I) (hd : d ≤ now) (hnow : now ≤ t1)
    (hle : now + (I - (now - d) % I) ≤ t1) :
    (t1 - d) / I + 1 = ((now - d) / I + 1) + ((t1 - (now + (I - (now - d) % I))) / I + 1) := by
  have hdm := Nat.div_add_mod (now - d) I
  have hr := Nat.mod_lt (now - d) hI
  generalize hq : (now - d) / I = q at *
  generalize hrr : (now - d) % I = r at *
  have e : t1 - d = (t1 - (now + (I - r))) + I * (q + 1) := by
    rw [Nat.mul_add, Nat.mul_one]; omega
  rw [e, Nat.add_mul_div_left _ _ hI]
  omega

theorem budget_refresh_le (c : Cfg) (s : LB) (now t1 : Nat) (hI : 0 < c.interval)
    (hnow : now ≤ t1) : budget c (refresh c s now) t1 ≤ budget c s t1 := by
  unfold refresh
  cases hdl : s.deadline with
  | none => simp
  | some d =>
    simp only
    split
    · exact Nat.le_refl _
    · rename_i hge
      have hge : d ≤ now := Nat.le_of_not_lt hge
      have hI' : ¬ c.interval = 0 := by omega
      simp only [hI', if_false]
      unfold budget
      simp only [hdl]
      have htok := tokens_le c d now
      have hb : min (satAdd s.balance (tokens c d now)) c.max
          ≤ s.balance + ((now - d) / c.interval + 1) * c.refill :=
        Nat.le_trans (Nat.min_le_left _ _) (Nat.le_trans (satAdd_le _ _) (Nat.add_le_add_left htok _))
      have hdt : d ≤ t1 := Nat.le_trans hge hnow
      have hB : boundaries c (some d) t1 = (t1 - d) / c.interval + 1 := by
        unfold boundaries; simp [hdt]
      rw [hB]
      unfold checkedAdd
      split
      · -- new deadline representable
        rename_i hrep
        by_cases hle : now + (c.interval - (now - d) % c.interval) ≤ t1
        · have hB' : boundaries c (some (now + (c.interval - (now - d) % c.interval))) t1
              = (t1 - (now + (c.interval - (now - d) % c.interval))) / c.interval + 1 := by
            unfold boundaries; simp [hle]
          rw [hB', boundaries_split c.interval d now t1 hI hge hnow hle]
          generalize (now - d) / c.interval + 1 = P at *
          generalize (t1 - (now + (c.interval - (now - d) % c.interval))) / c.interval + 1 = Q at *
          rw [Nat.mul_add c.refill, Nat.mul_comm c.refill P]
          omega
        · have hB' : boundaries c (some (now + (c.interval - (now - d) % c.interval))) t1 = 0 := by
            unfold boundaries; simp [hle]
          rw [hB']
          have hmono : (now - d) / c.interval + 1 ≤ (t1 - d) / c.interval + 1 :=
            Nat.succ_le_succ (Nat.div_le_div_right (by omega))
          have := Nat.mul_le_mul_left c.refill hmono
          rw [Nat.mul_comm c.refill ((now - d) / c.interval + 1)] at this
          simp only [Nat.mul_zero, Nat.add_zero]
          omega
      · -- deadline no longer representable: the limiter never refills again
        have hB' : boundaries c none t1 = 0 := rfl
        rw [hB']
        have hmono : (now - d) / c.interval + 1 ≤ (t1 - d) / c.interval + 1 :=
          Nat.succ_le_succ (Nat.div_le_div_right (by omega))
        have := Nat.mul_le_mul_left c.refill hmono
        rw [Nat.mul_comm c.refill ((now - d) / c.interval + 1)] at this
        simp only [Nat.mul_zero, Nat.add_zero]
        omega

theorem budget_bump (c : Cfg) (s : LB) (t1 : Nat) :
    (if s.balance > 0 then 1 else 0) + budget c (bump s) t1 = budget c s t1 := by
  unfold bump budget
  split
  · simp only; omega
  · simp

/-- Potential argument: admitted jobs plus what is still available never exceeds the budget. -/
theorem admitted_add_budget_le (c : Cfg) (hI : 0 < c.interval) (t1 : Nat) (s : LB) (calls : List Call)
    (ht : timesLe t1 calls = true) :
    admitted c s calls + budget c (run c s calls) t1 ≤ budget c s t1 := by
  induction calls generalizing s with
  | nil => simp [admitted, run]
  | cons call rest ih =>
    simp only [timesLe, List.all_cons, Bool.and_eq_true] at ht
    have ih' := ih (step c s call) (by simpa [timesLe] using ht.2)
    simp only [admitted, run, List.foldl_cons] at *
    cases call with
    | check now =>
      have hn : now ≤ t1 := by simpa using ht.1
      have := budget_refresh_le c s now t1 hI hn
      simp only [effective, step, check, Bool.false_eq_true, if_false] at *
      omega
    | bump =>
      have := budget_bump c s t1
      simp only [effective, step, decide_eq_true_eq] at *
      omega

end LeakyBucket
