import RactorModel.Lemmas.PgOk

/-! Refinement facts: membership after each op, queries as projections, notifications. -/

namespace Pg
open AList

/-! ### membership is untouched by the monitor ops -/

theorem monitor_membersOf {st : State} (h : Inv st) (g a : Nat) (k : Key) :
    membersOf (monitor st g a) k = membersOf st k := by
  by_cases hd : a ∈ st.dead
  · unfold membersOf; rw [(monitor_dead_get h g a hd).1]
  · rw [monitor_alive_state st g a hd]
    unfold membersOf
    simp only [get_set]
    by_cases e : k = (defaultScope, g)
    · rw [if_pos e, e]; rfl
    · rw [if_neg e]

theorem monitorScope_membersOf {st : State} (h : Inv st) (s a : Nat) (k : Key) :
    membersOf (monitorScope st s a) k = membersOf st k := by
  by_cases hd : a ∈ st.dead
  · unfold membersOf; rw [(monitorScope_dead_get h s a hd).2.2.2.1]
  · rw [monitorScope_alive_state st s a hd]; rfl

theorem demonitor_membersOf (st : State) (g a : Nat) (k : Key) :
    membersOf (demonitor st g a) k = membersOf st k := by
  unfold membersOf
  simp only [demonitor, get_alter]
  by_cases e : k = (defaultScope, g)
  · rw [if_pos e, dropListener_members, e]
  · rw [if_neg e]

theorem exit_membersOf {st : State} (h : Inv st) (a : Nat) (k : Key) :
    membersOf (exit st a).1 k = if a ∈ st.dead then membersOf st k else del a (membersOf st k) := by
  by_cases hd : a ∈ st.dead
  · rw [if_pos hd, exit_dead_noop st a hd]
  · rw [if_neg hd]
    cases hr : get st.rel a with
    | none =>
      rw [exit_norel st a hd hr]
      have : a ∉ membersOf st k := by
        intro x
        have := (h.mem k a).mp x
        simp [relMem, relOf, hr, Rel.empty] at this
      rw [del_of_not_mem this]; rfl
    | some r => unfold membersOf; rw [exit_map_get h hd hr, purge_members]

/-- The membership relation after one op is the specification's (`specMember`). -/
theorem member_step {st : State} (h : Inv st) (op : Op) (s g a : Nat) :
    member (step st op).1 s g a ↔ specMember (member st) (fun x => x ∉ st.dead) op s g a := by
  unfold member
  cases op with
  | join s0 g0 as =>
    simp only [step, specMember, member, join_members, Prod.mk.injEq]
    constructor
    · rintro (x | ⟨⟨rfl, rfl⟩, y⟩)
      · exact Or.inl x
      · exact Or.inr ⟨rfl, rfl, y⟩
    · rintro (x | ⟨rfl, rfl, y⟩)
      · exact Or.inl x
      · exact Or.inr ⟨⟨rfl, rfl⟩, y⟩
  | leave s0 g0 as =>
    simp only [step, specMember, member]
    cases hg : get st.map (s0, g0) with
    | none =>
      rw [leave_noop st s0 g0 as hg]
      constructor
      · intro x
        refine ⟨x, ?_⟩
        rintro ⟨rfl, rfl, _⟩
        unfold membersOf at x; rw [hg] at x; cases x
      · exact fun x => x.1
    | some gs =>
      rw [leave_members st s0 g0 as hg]
      simp only [Prod.mk.injEq, and_assoc]
  | monitor g0 b => simp only [step, specMember, member, monitor_membersOf h]
  | monitorScope s0 b => simp only [step, specMember, member, monitorScope_membersOf h]
  | demonitor g0 b => simp only [step, specMember, member, demonitor_membersOf]
  | demonitorScope s0 b => simp only [step, specMember, member]; rfl
  | newRemote b => simp only [step, specMember, member]; rfl
  | drain b => simp only [step, specMember, member]
  | exit b =>
    simp only [step, specMember, member, exit_membersOf h]
    by_cases hd : b ∈ st.dead
    · rw [if_pos hd]
      constructor
      · exact fun x => ⟨x, Or.inr (fun y => y hd)⟩
      · exact fun x => x.1
    · rw [if_neg hd, mem_del]
      constructor
      · exact fun x => ⟨x.1, Or.inl x.2⟩
      · rintro ⟨x, y | y⟩
        · exact ⟨x, y⟩
        · exact absurd hd y

/-! ### queries are projections of the membership relation -/

theorem mem_nonEmptyKeys {st : State} (h : Inv st) (k : Key) : k ∈ nonEmptyKeys st ↔ membersOf st k ≠ [] := by
  unfold nonEmptyKeys
  simp only [List.mem_map, List.mem_filter, Bool.not_eq_eq_eq_not, Bool.not_true, List.isEmpty_eq_false_iff]
  constructor
  · rintro ⟨⟨k', gs⟩, ⟨hp, hne⟩, rfl⟩
    rw [(map_entry h hp).2.1]; exact hne
  · intro hne
    cases hg : get st.map k with
    | none => unfold membersOf at hne; rw [hg] at hne; exact absurd rfl hne
    | some gs =>
      refine ⟨(k, gs), ⟨mem_of_get hg, ?_⟩, rfl⟩
      unfold membersOf at hne; rw [hg] at hne; exact hne

/-! ### dead actors -/

theorem dead_owns_nothing {st : State} (h : Inv st) {a : Nat} (hd : a ∈ st.dead) :
    (∀ k, a ∉ membersOf st k) ∧ (∀ k, a ∉ listenersOf st k) ∧ (∀ s, a ∉ worldOf st s) := by
  have hr := h.dead a hd
  refine ⟨?_, ?_, ?_⟩
  · intro k x
    have := (h.mem k a).mp x
    simp [relMem, relOf, hr, Rel.empty] at this
  · intro k x
    have := (h.gmon k a).mp x
    simp [relGmon, relOf, hr, Rel.empty] at this
  · intro s x
    have := (h.wmon s a).mp x
    simp [relWmon, relOf, hr, Rel.empty] at this

theorem dead_mono_step (st : State) (op : Op) {a : Nat} (hd : a ∈ st.dead) : a ∈ (step st op).1.dead := by
  cases op with
  | join s g as => simp only [step]; rw [join_dead]; exact hd
  | leave s g as =>
    simp only [step]
    cases hg : get st.map (s, g) with
    | none => rw [leave_noop st s g as hg]; exact hd
    | some gs => rw [leave_dead st s g as hg]; exact hd
  | monitor g b =>
    simp only [step, monitor]
    split <;> exact hd
  | monitorScope s b =>
    simp only [step, monitorScope]
    split <;> exact hd
  | demonitor g b => exact hd
  | demonitorScope s b => exact hd
  | newRemote b => exact hd
  | drain b => exact hd
  | exit b =>
    simp only [step]
    by_cases hb : b ∈ st.dead
    · rw [exit_dead_noop st b hb]; exact hd
    · cases hr : get st.rel b with
      | none => rw [exit_norel st b hb hr]; exact List.mem_append_left _ hd
      | some r =>
        rw [exit_rel st b hb hr]
        unfold leaveAll
        rw [afterDemon_rel_get]
        exact List.mem_append_left _ hd

theorem dead_mono_run (ops : List Op) (st : State) {a : Nat} (hd : a ∈ st.dead) : a ∈ (run st ops).dead := by
  induction ops generalizing st with
  | nil => exact hd
  | cons op ops ih => exact ih _ (dead_mono_step st op hd)

theorem exit_marks_dead (st : State) (a : Nat) : a ∈ (exit st a).1.dead := by
  by_cases hb : a ∈ st.dead
  · rw [exit_dead_noop st a hb]; exact hb
  · cases hr : get st.rel a with
    | none => rw [exit_norel st a hb hr]; simp
    | some r =>
      rw [exit_rel st a hb hr]
      unfold leaveAll
      rw [afterDemon_rel_get]
      simp [afterDemon]

/-! ### notifications -/

theorem flatMap_congr' {α β : Type} {l : List α} {f g : α → List β} (h : ∀ x ∈ l, f x = g x) :
    l.flatMap f = l.flatMap g := by
  induction l with
  | nil => rfl
  | cons x l ih =>
    simp only [List.flatMap_cons]
    rw [h x (by simp), ih (fun y hy => h y (by simp [hy]))]

theorem join_events (st : State) (s g : Nat) (as : List Nat) :
    (join st s g as).2 = specEvents st (.join s g as) := by
  unfold specEvents expectedEvents
  by_cases hne : as.filter (alive st) = []
  · simp [join_noop st s g as hne, hne]
  · simp only [join, hne, ↓reduceIte, notifyWorld, List.map_append, List.append_assoc, listenersOf]
    cases get st.map (s, g) <;> rfl

theorem leave_events (st : State) (s g : Nat) (as : List Nat) :
    (leave st s g as).2 = specEvents st (.leave s g as) := by
  unfold specEvents expectedEvents
  cases hg : get st.map (s, g) with
  | none => simp [leave, hg]
  | some gs => simp [leave, hg, notifyWorld, listenersOf]

theorem exit_events {st : State} (h : Inv st) (a : Nat) :
    ((exit st a).2).Perm (specEvents st (.exit a)) := by
  unfold specEvents
  by_cases hd : a ∈ st.dead
  · simp [exit_dead_noop st a hd, hd]
  · have hc : st.dead.contains a = false := by simpa using hd
    simp only [hc, Bool.false_eq_true, ↓reduceIte]
    cases hr : get st.rel a with
    | none =>
      rw [exit_norel st a hd hr]
      have : (keys st.map).filter (fun k => decide (a ∈ membersOf st k)) = [] := by
        rw [List.filter_eq_nil_iff]
        intro k _
        simp only [decide_eq_true_eq]
        intro x
        have := (h.mem k a).mp x
        simp [relMem, relOf, hr, Rel.empty] at this
      rw [this]; exact List.Perm.refl _
    | some r =>
      rw [exit_rel st a hd hr]
      unfold leaveAll
      rw [afterDemon_rel_get]
      simp only
      have hrm := (rel_fields h hd hr).1
      have hall : ∀ k ∈ r.mem, a ∈ membersOf st k := fun k hk => (h.mem k a).mpr (hrm ▸ hk)
      have hrem : r.mem.filter (fun k => decide (a ∈ membersOf (afterDemon st a r) k)) = r.mem := by
        rw [List.filter_eq_self]
        intro k hk
        simp only [afterDemon_members h hd hr, decide_eq_true_eq]
        exact hall k hk
      rw [hrem]
      have hperm : r.mem.Perm ((keys st.map).filter (fun k => decide (a ∈ membersOf st k))) := by
        apply (List.perm_ext_iff_of_nodup ?_ ?_).mpr
        · intro k
          simp only [List.mem_filter, decide_eq_true_eq]
          constructor
          · intro hk
            refine ⟨?_, hall k hk⟩
            rw [mem_keys_iff]
            have := hall k hk
            unfold membersOf at this
            cases hg : get st.map k with
            | none => rw [hg] at this; cases this
            | some gs => rfl
          · rintro ⟨_, x⟩
            exact hrm ▸ (h.mem k a).mp x
        · exact hrm ▸ (h.ndR a).1
        · exact (nodup_keys_iff.mpr h.kMap).filter _
      refine List.Perm.trans ?_ (hperm.flatMap_right _)
      apply List.Perm.of_eq
      apply flatMap_congr'
      intro k _
      simp only [notifyWorld, List.map_append, List.append_assoc]
      have hw : ∀ s, worldOf (afterDemon st a r) s = del a (worldOf st s) := by
        intro s; unfold worldOf; rw [afterDemon_world_get h hd hr, dropWorld_list]
      have hl : listenersOf (afterDemon st a r) k = del a (listenersOf st k) := by
        unfold listenersOf
        rw [afterDemon_map_get h hd hr]
        cases get st.map k with
        | none => rfl
        | some gs => simp only [Option.bind_some, listeners_gsNorm]; rfl
      rw [hl]
      show _ ++ (List.map _ (worldOf (afterDemon st a r) k.1) ++ List.map _ (worldOf (afterDemon st a r) allScopes)) = _
      rw [hw, hw]

end Pg
