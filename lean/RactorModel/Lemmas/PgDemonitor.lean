import RactorModel.Lemmas.PgMonitorScope

namespace Pg
open AList

theorem dropListener_members (a : Nat) (o : Option GS) :
    ((dropListener a o).map (·.members)).getD [] = (o.map (·.members)).getD [] := by
  cases o with
  | none => rfl
  | some gs => simp only [dropListener, Option.bind_some, members_gsNorm]; rfl

theorem dropListener_listeners (a : Nat) (o : Option GS) :
    ((dropListener a o).map (·.listeners)).getD [] = del a ((o.map (·.listeners)).getD []) := by
  cases o with
  | none => rfl
  | some gs => simp only [dropListener, Option.bind_some, listeners_gsNorm]; rfl

theorem dropListener_some {a : Nat} {o : Option GS} {gs : GS} (h : dropListener a o = some gs) :
    gs.members ≠ [] ∨ gs.listeners ≠ [] := by
  cases o with
  | none => cases h
  | some g0 =>
    simp only [dropListener, Option.bind_some] at h
    obtain ⟨rfl, hh⟩ := gsNorm_some h
    exact hh

theorem dropWorld_list (a : Nat) (o : Option (List Nat)) :
    (dropWorldListener a o).getD [] = del a (o.getD []) := by
  cases o with
  | none => rfl
  | some l =>
    simp only [dropWorldListener, Option.bind_some, Option.getD_some]
    by_cases e : del a l = []
    · rw [if_pos e, e]; rfl
    · rw [if_neg e]; rfl

theorem dropWorld_ne (a : Nat) (o : Option (List Nat)) : dropWorldListener a o ≠ some [] := by
  cases o with
  | none => simp [dropWorldListener]
  | some l =>
    simp only [dropWorldListener, Option.bind_some]
    by_cases e : del a l = []
    · rw [if_pos e]; simp
    · rw [if_neg e]; simpa using e

theorem inv_demonitor {st : State} (h : Inv st) (g a : Nat) : Inv (demonitor st g a) := by
  have hmap : ∀ k, get (demonitor st g a).map k =
      if k = (defaultScope, g) then dropListener a (get st.map (defaultScope, g)) else get st.map k := by
    intro k; simp [demonitor]
  have hrel : ∀ b, get (demonitor st g a).rel b =
      if b = a then (get st.rel a).map (fun x => { x with gmon := del (defaultScope, g) x.gmon }) else get st.rel b := by
    intro b; simp [demonitor]
  have hM : ∀ k, membersOf (demonitor st g a) k = membersOf st k := by
    intro k; unfold membersOf; rw [hmap]
    by_cases e : k = (defaultScope, g)
    · rw [if_pos e, dropListener_members, e]
    · rw [if_neg e]
  have hL : ∀ k, listenersOf (demonitor st g a) k =
      if k = (defaultScope, g) then del a (listenersOf st k) else listenersOf st k := by
    intro k; unfold listenersOf; rw [hmap]
    by_cases e : k = (defaultScope, g)
    · rw [if_pos e, if_pos e, dropListener_listeners, e]
    · rw [if_neg e, if_neg e]
  have hRM : ∀ b, relMem (demonitor st g a) b = relMem st b := by
    intro b; unfold relMem relOf; rw [hrel]
    by_cases e : b = a
    · rw [if_pos e, e]; cases get st.rel a <;> rfl
    · rw [if_neg e]
  have hRW : ∀ b, relWmon (demonitor st g a) b = relWmon st b := by
    intro b; unfold relWmon relOf; rw [hrel]
    by_cases e : b = a
    · rw [if_pos e, e]; cases get st.rel a <;> rfl
    · rw [if_neg e]
  have hRG : ∀ b, relGmon (demonitor st g a) b =
      if b = a then del (defaultScope, g) (relGmon st b) else relGmon st b := by
    intro b; unfold relGmon relOf; rw [hrel]
    by_cases e : b = a
    · rw [if_pos e, if_pos e, e]; cases get st.rel a <;> rfl
    · rw [if_neg e, if_neg e]
  have hW : (demonitor st g a).world = st.world := rfl
  have hI : (demonitor st g a).index = st.index := rfl
  have hD : (demonitor st g a).dead = st.dead := rfl
  constructor
  · exact nodupKeys_alter h.kMap _ _
  · exact h.kIdx
  · exact h.kWorld
  · exact nodupKeys_alter h.kRel _ _
  · intro k b; rw [hM, hRM]; exact h.mem k b
  · intro k m
    rw [hL, hRG]
    have := h.gmon k m
    by_cases e1 : k = (defaultScope, g) <;> by_cases e2 : m = a
    · rw [if_pos e1, if_pos e2]; simp [mem_del, e1, e2]
    · rw [if_pos e1, if_neg e2]; simp [mem_del, e2, this]
    · rw [if_neg e1, if_pos e2]; simp [mem_del, e1, this]
    · rw [if_neg e1, if_neg e2]; exact this
  · intro s m
    have := h.wmon s m
    unfold worldOf at this ⊢
    rw [hW, hRW, this]
  · intro s g'
    have := h.idx s g'
    unfold idxOf at this ⊢
    rw [hI, hM, this]
  · intro s; exact h.idxNE s
  · intro k gs
    rw [hmap]
    by_cases e : k = (defaultScope, g)
    · rw [if_pos e]; exact dropListener_some
    · rw [if_neg e]; exact h.mapNE k gs
  · exact h.worldNE
  · intro b hb
    rw [hrel]
    by_cases e : b = a
    · rw [if_pos e, ← e, h.dead b hb]; rfl
    · rw [if_neg e]; exact h.dead b hb
  · intro k; rw [hM]; exact h.ndM k
  · intro k
    rw [hL]
    split
    · exact nodup_del (h.ndL k)
    · exact h.ndL k
  · intro s; exact h.ndW s
  · intro s; exact h.ndI s
  · intro b
    rw [hRM, hRW, hRG]
    refine ⟨(h.ndR b).1, ?_, (h.ndR b).2.2⟩
    split
    · exact nodup_del (h.ndR b).2.1
    · exact (h.ndR b).2.1

theorem inv_demonitorScope {st : State} (h : Inv st) (s a : Nat) : Inv (demonitorScope st s a) := by
  have hworld : ∀ k, get (demonitorScope st s a).world k =
      if k = s then dropWorldListener a (get st.world s) else get st.world k := by
    intro k; simp [demonitorScope]
  have hrel : ∀ b, get (demonitorScope st s a).rel b =
      if b = a then (get st.rel a).map (fun x => { x with wmon := del s x.wmon }) else get st.rel b := by
    intro b; simp [demonitorScope]
  have hWl : ∀ k, worldOf (demonitorScope st s a) k = if k = s then del a (worldOf st k) else worldOf st k := by
    intro k; unfold worldOf; rw [hworld]
    by_cases e : k = s
    · rw [if_pos e, if_pos e, dropWorld_list, e]
    · rw [if_neg e, if_neg e]
  have hRM : ∀ b, relMem (demonitorScope st s a) b = relMem st b := by
    intro b; unfold relMem relOf; rw [hrel]
    by_cases e : b = a
    · rw [if_pos e, e]; cases get st.rel a <;> rfl
    · rw [if_neg e]
  have hRG : ∀ b, relGmon (demonitorScope st s a) b = relGmon st b := by
    intro b; unfold relGmon relOf; rw [hrel]
    by_cases e : b = a
    · rw [if_pos e, e]; cases get st.rel a <;> rfl
    · rw [if_neg e]
  have hRW : ∀ b, relWmon (demonitorScope st s a) b = if b = a then del s (relWmon st b) else relWmon st b := by
    intro b; unfold relWmon relOf; rw [hrel]
    by_cases e : b = a
    · rw [if_pos e, if_pos e, e]; cases get st.rel a <;> rfl
    · rw [if_neg e, if_neg e]
  have hMp : (demonitorScope st s a).map = st.map := rfl
  have hI : (demonitorScope st s a).index = st.index := rfl
  have hM : ∀ k, membersOf (demonitorScope st s a) k = membersOf st k := fun k => rfl
  have hL : ∀ k, listenersOf (demonitorScope st s a) k = listenersOf st k := fun k => rfl
  constructor
  · exact h.kMap
  · exact h.kIdx
  · exact nodupKeys_alter h.kWorld _ _
  · exact nodupKeys_alter h.kRel _ _
  · intro k b; rw [hM, hRM]; exact h.mem k b
  · intro k m; rw [hL, hRG]; exact h.gmon k m
  · intro s' m
    rw [hWl, hRW]
    have := h.wmon s' m
    by_cases e1 : s' = s <;> by_cases e2 : m = a
    · rw [if_pos e1, if_pos e2]; simp [mem_del, e1, e2]
    · rw [if_pos e1, if_neg e2]; simp [mem_del, e2, this]
    · rw [if_neg e1, if_pos e2]; simp [mem_del, e1, this]
    · rw [if_neg e1, if_neg e2]; exact this
  · intro s' g'
    have := h.idx s' g'
    unfold idxOf at this ⊢
    rw [hI, hM, this]
  · intro s'; exact h.idxNE s'
  · intro k gs; exact h.mapNE k gs
  · intro s'
    rw [hworld]
    by_cases e : s' = s
    · rw [if_pos e]; exact dropWorld_ne _ _
    · rw [if_neg e]; exact h.worldNE s'
  · intro b hb
    rw [hrel]
    by_cases e : b = a
    · rw [if_pos e, ← e, h.dead b hb]; rfl
    · rw [if_neg e]; exact h.dead b hb
  · intro k; exact h.ndM k
  · intro k; exact h.ndL k
  · intro s'
    rw [hWl]
    split
    · exact nodup_del (h.ndW s')
    · exact h.ndW s'
  · intro s'; exact h.ndI s'
  · intro b
    rw [hRM, hRG, hRW]
    refine ⟨(h.ndR b).1, (h.ndR b).2.1, ?_⟩
    split
    · exact nodup_del (h.ndR b).2.2
    · exact (h.ndR b).2.2

end Pg
