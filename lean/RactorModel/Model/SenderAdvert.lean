import RactorModel.Model.Remote

/-!
# The SENDING side of the advertisement of local actors (C20, clause 4)

`NodeSession::after_authenticated` (ractor_cluster/src/node/node_session.rs): FIRST
`pid_registry::monitor(myself)`, THEN `get_all_pids()` filtered by `supports_remoting()` is sent
as ONE `Spawn{actors}` (nothing if empty). From the registration on, every `PidLifecycleEvent` of
the process-global pid registry is queued in the session's supervision mailbox — while the handler
`after_authenticated` is still running — and handled afterwards, in order:
`Spawn(who)` ⇒ `Spawn{[who]}`, `Terminate(who)` ⇒ `Terminate{[who]}` (remotable actors only; every
actor of this model is remotable).

Other threads start and stop actors at any time: before the registration, BETWEEN the registration
and the scan (such an actor is in the scan AND has a queued `Spawn` event: it is advertised
twice), and afterwards. Core Lean only.
-/

namespace SenderAdvert
open Remote

inductive Evt where
  | spawn (i : Nat)
  | term (i : Nat)
  deriving DecidableEq, Repr

def Evt.ctl : Evt → Ctl
  | .spawn i => .spawn [i]
  | .term i => .terminate [i]

structure S where
  /-- remotable actors in the pid registry -/
  alive : List Nat := []
  /-- `pid_registry::monitor` has been called -/
  monitored : Bool := false
  /-- the scan of `after_authenticated` has been done -/
  scanned : Bool := false
  /-- lifecycle events queued in the session's mailbox, oldest first -/
  queue : List Evt := []
  /-- control messages handed to the tcp session, oldest first -/
  wire : List Ctl := []
  deriving Repr

inductive Op where
  /-- a remotable actor registers (any thread, any time) -/
  | start (i : Nat)
  /-- actor `i` leaves the pid registry -/
  | stop (i : Nat)
  /-- `pid_registry::monitor(myself)` -/
  | monitor
  /-- `get_all_pids()` and the one `Spawn` message (same handler as `monitor`: no event is handled
  in between, but other threads may `start` / `stop`) -/
  | scan
  /-- the session handles the oldest queued lifecycle event -/
  | evt
  deriving DecidableEq, Repr

def step (s : S) : Op → S
  | .start i =>
    { s with alive := s.alive ++ [i], queue := if s.monitored then s.queue ++ [.spawn i] else s.queue }
  | .stop i =>
    if s.alive.contains i then
      { s with alive := s.alive.filter (· != i), queue := if s.monitored then s.queue ++ [.term i] else s.queue }
    else s
  | .monitor => { s with monitored := true }
  | .scan =>
    if s.monitored && !s.scanned then
      { s with scanned := true, wire := if s.alive.isEmpty then s.wire else s.wire ++ [.spawn s.alive] }
    else s
  | .evt =>
    if s.scanned then
      match s.queue with
      | [] => s
      | e :: rest => { s with queue := rest, wire := s.wire ++ [e.ctl] }
    else s

def run (s : S) (ops : List Op) : S := ops.foldl step s

/-- how many `Spawn` messages name `i` -/
def spawnCount (i : Nat) (cs : List Ctl) : Nat :=
  cs.countP fun | .spawn pids => pids.contains i | _ => false

end SenderAdvert
