import RactorModel.Generated.Frame
import RactorModel.Model.Codec

/-!
# GenFrame — abstraction of the error values of the generated `checked_frame_length`
(`(ErrorKind, message template)`) to `Codec.FrameErr`.
-/

namespace GenFrame

/-- The error messages of `checked_frame_length` ↦ the model's error enum. -/
def absErr (e : String × String) : Codec.FrameErr :=
  if e.2 = "cluster frame length {length} exceeds configured limit {max_frame_size}" then .tooLarge
  else if e.2 = "cluster frame length {length} could not be allocated by a Vec" then .unalloc
  else .undecodable

end GenFrame
