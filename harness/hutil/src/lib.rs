//! Shared harness utilities: one PRNG for every random choice, op/observation logs.

use std::fs::File;
use std::io::{BufWriter, Write};
use std::path::{Path, PathBuf};

/// SplitMix64: every random choice of a run derives from one state seeded by VERIF_SEED.
#[derive(Clone, Debug)]
pub struct Rng(pub u64);

impl Rng {
    pub fn new(seed: u64) -> Self {
        Rng(seed ^ 0x9E37_79B9_7F4A_7C15)
    }
    pub fn next_u64(&mut self) -> u64 {
        self.0 = self.0.wrapping_add(0x9E37_79B9_7F4A_7C15);
        let mut z = self.0;
        z = (z ^ (z >> 30)).wrapping_mul(0xBF58_476D_1CE4_E5B9);
        z = (z ^ (z >> 27)).wrapping_mul(0x94D0_49BB_1331_11EB);
        z ^ (z >> 31)
    }
    /// uniform in 0..n (n > 0)
    pub fn below(&mut self, n: u64) -> u64 {
        self.next_u64() % n
    }
    pub fn range(&mut self, lo: u64, hi_incl: u64) -> u64 {
        lo + self.below(hi_incl - lo + 1)
    }
    pub fn chance(&mut self, num: u64, den: u64) -> bool {
        self.below(den) < num
    }
    pub fn pick<'a, T>(&mut self, xs: &'a [T]) -> &'a T {
        &xs[self.below(xs.len() as u64) as usize]
    }
    pub fn shuffle<T>(&mut self, xs: &mut [T]) {
        for i in (1..xs.len()).rev() {
            let j = self.below(i as u64 + 1) as usize;
            xs.swap(i, j);
        }
    }
    pub fn fork(&mut self) -> Rng {
        Rng(self.next_u64())
    }
}

/// Writes `ops.txt` and `impl.txt` side by side (same line numbering).
pub struct Log {
    ops: BufWriter<File>,
    imp: BufWriter<File>,
    pub lines: u64,
    pub dir: PathBuf,
}

impl Log {
    pub fn create(dir: &Path) -> std::io::Result<Self> {
        std::fs::create_dir_all(dir)?;
        Ok(Log {
            ops: BufWriter::new(File::create(dir.join("ops.txt"))?),
            imp: BufWriter::new(File::create(dir.join("impl.txt"))?),
            lines: 0,
            dir: dir.to_path_buf(),
        })
    }
    /// Record one executed op and what the implementation answered / was observed doing.
    pub fn rec(&mut self, op: impl AsRef<str>, obs: impl AsRef<str>) {
        let op = op.as_ref();
        let obs = obs.as_ref();
        debug_assert!(!op.contains('\n') && !obs.contains('\n'));
        writeln!(self.ops, "{op}").unwrap();
        writeln!(self.imp, "{obs}").unwrap();
        self.lines += 1;
    }
    /// Flush both files without consuming the log (a harness that has to give up in the middle of a case).
    pub fn flush(&mut self) {
        self.ops.flush().unwrap();
        self.imp.flush().unwrap();
    }
    pub fn finish(mut self) {
        self.ops.flush().unwrap();
        self.imp.flush().unwrap();
    }
}

pub fn show_u64s(v: &[u64]) -> String {
    if v.is_empty() {
        "-".to_string()
    } else {
        v.iter().map(|x| x.to_string()).collect::<Vec<_>>().join(",")
    }
}

/// Generator statistics (distribution of ops / branches) printed into the evidence.
#[derive(Default, Debug)]
pub struct Stats(pub std::collections::BTreeMap<String, u64>);
impl Stats {
    pub fn bump(&mut self, k: &str) {
        *self.0.entry(k.to_string()).or_insert(0) += 1;
    }
    pub fn add(&mut self, k: &str, n: u64) {
        *self.0.entry(k.to_string()).or_insert(0) += n;
    }
    pub fn write_json(&self, path: &Path) {
        let mut s = String::from("{");
        for (i, (k, v)) in self.0.iter().enumerate() {
            if i > 0 {
                s.push(',');
            }
            s.push_str(&format!("\"{k}\":{v}"));
        }
        s.push('}');
        std::fs::write(path, s).unwrap();
    }
}

/// Minimal CLI: `--key value` pairs.
pub struct Args(pub std::collections::HashMap<String, String>, pub Vec<String>);
impl Args {
    pub fn parse() -> Self {
        let mut m = std::collections::HashMap::new();
        let mut pos = Vec::new();
        let mut it = std::env::args().skip(1);
        while let Some(a) = it.next() {
            if let Some(k) = a.strip_prefix("--") {
                m.insert(k.to_string(), it.next().unwrap_or_default());
            } else {
                pos.push(a);
            }
        }
        Args(m, pos)
    }
    pub fn u64(&self, k: &str, d: u64) -> u64 {
        self.0.get(k).and_then(|v| v.parse().ok()).unwrap_or(d)
    }
    pub fn str(&self, k: &str, d: &str) -> String {
        self.0.get(k).cloned().unwrap_or_else(|| d.to_string())
    }
}
