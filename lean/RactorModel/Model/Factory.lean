import RactorModel.Model.LeakyBucket

/-!
# Factory — model of `ractor/src/factory/{factoryimpl,worker,routing,queues,job,discard,ratelim}.rs`

The factory actor handles one message at a time: its bookkeeping is a sequential state
machine.  `W` is the whole world: the factory's `FactoryState` (pool of `WorkerProperties`,
router state, factory queue, discard settings, drain state, rate limiter), the worker actors
as environment (`Actor`: alive?, running job, mailbox), the factory's two inboxes
(supervision events outrank messages) and a ghost event log.

Every function is named after the Rust function it mirrors.  Jobs carry a ghost `id`.
Times are `Nat` nanoseconds.  Loops of the source are structural recursions or carry an
explicit fuel that is at least the loop's variant (queue length), see `Lemmas/Factory*.lean`.
-/

namespace Factory

inductive Mode | oldest | newest
  deriving DecidableEq, Repr

inductive Reason | ttlExpired | loadshed | shutdown | rateLimited
  deriving DecidableEq, Repr

inductive RouterKind | kp | q | sq | rr | cu
  deriving DecidableEq, Repr

inductive Drain | notDraining | draining | drained
  deriving DecidableEq, Repr

inductive Hook | started | draining | stopped
  deriving DecidableEq, Repr

/-- A job with its ghost id. `expiry = some e`: expired at `now` iff `now > e`
(`TtlTimer::is_expired`: `now - started_at > remaining`). `port`: acceptance port not yet answered. -/
structure Job where
  id : Nat
  key : Nat
  hash : Nat
  expiry : Option Nat
  port : Bool
  deriving DecidableEq, Repr

def Job.expired (j : Job) (now : Nat) : Bool :=
  match j.expiry with
  | some e => decide (now > e)
  | none => false

/-- Observable events (the history the oracles judge) plus ghost events (`lost`, unreported
discards, `dropped`) that only the model can see. -/
inductive Ev
  /-- op: job submitted -/
  | dispatched (id key : Nat) (acc : Bool)
  /-- op: gated worker told to return Ok -/
  | finishOk (aid : Nat)
  /-- op: gated worker told to fail (Err or panic), or actor killed -/
  | died (aid : Nat)
  /-- op: pool size request (AdjustWorkerPool / UpdateSettings.worker_count / capacity controller) -/
  | requested (n : Nat)
  /-- op: the held-busy factory is released, its capacity controller answers `n` -/
  | released (n : Nat)
  /-- op: discard settings replaced -/
  | settings (disc : Option (Nat × Mode))
  | drainReq
  /-- worker actor built by the factory for slot `wid` -/
  | build (wid aid : Nat)
  /-- worker actor `aid` began handling job `id` -/
  | start (aid id key : Nat)
  /-- op: a new discard handler (identity `h`) is installed through `UpdateSettings`, or removed -/
  | handlerSet (h : Option Nat)
  /-- ghost: the factory handled that request: from here on `h` is the installed discard handler -/
  | installed (h : Option Nat)
  /-- discard handler `h` called with the job (`some h`), or job shed with no handler configured
  (`none`, ghost) -/
  | discard (r : Reason) (id : Nat) (h : Option Nat)
  /-- acceptance port answered: `back = false` accepted (`None`), `true` handed back (`Some(job)`) -/
  | reply (id : Nat) (back : Bool)
  | hook (h : Hook)
  /-- ghost: job `id` completed on worker actor `aid` (the handler returned Ok) -/
  | handled (aid id : Nat)
  /-- ghost: job died with worker actor `aid` (was running or in its mailbox) -/
  | lost (aid id : Nat)
  /-- ghost: job dropped without any report (factory stopped with jobs in a worker queue, …) -/
  | dropped (id : Nat)
  /-- ghost: job still in the factory queue (no handler configured) or in a worker's queue when
  `post_stop` ran: it vanishes without any report -/
  | abandoned (id : Nat)
  /-- the acceptance port of a job was dropped unanswered (the job was still in the factory's
  mailbox when the factory actor stopped) -/
  | portClosed (id : Nat)
  /-- the factory's handler hit `panic!` (RouteResult::Backlog with a targeted worker) -/
  | panicked
  /-- quiescent snapshot: up?, the three queries (none = no answer), live worker actors -/
  | snap (up : Bool) (q act cap : Option Nat) (live : List Nat) (wq : Option (List (Nat × Nat)))
  deriving DecidableEq, Repr

/-- Worker actor (environment). -/
structure Actor where
  aid : Nat
  wid : Nat
  alive : Bool := true
  stopReq : Bool := false
  running : Option Job := none
  mailbox : List Job := []
  deriving Repr

/-- the jobs an actor holds: the one it is handling and those in its mailbox -/
def Actor.heldJobs (a : Actor) : List Job :=
  (match a.running with | some j => [j] | none => []) ++ a.mailbox

/-- What `WorkerProperties` functions can touch besides the worker's own record. -/
structure Env where
  actors : List Actor
  log : List Ev
  now : Nat
  /-- pending supervision events at the factory (dead actor ids) -/
  sup : List Nat
  deriving Repr

/-- `WorkerProperties` -/
structure WP where
  wid : Nat
  actor : Nat
  mq : List Job := []
  /-- `curr_jobs`: key → (ghost) job id -/
  curr : List (Nat × Nat) := []
  /-- `pending_key_counts` as a multiset of keys -/
  pending : List Nat := []
  draining : Bool := false
  disc : Option (Nat × Mode) := none
  /-- the worker's own copy of the factory's discard handler (`WorkerProperties.discard_handler`) -/
  handler : Option Nat := none
  deriving Repr

structure Cfg where
  router : RouterKind
  prioQueue : Bool
  hasHandler : Bool
  table : List Nat
  hasCC : Bool
  deriving Repr

inductive FMsg
  | dispatch (j : Job)
  | finished (wid key : Nat)
  | adjust (n : Nat)
  | updateSettings (disc : Option (Option (Nat × Mode))) (n : Option Nat)
  /-- `UpdateSettings` carrying a discard handler (`Some(None)` removes it) -/
  | setHandler (h : Option Nat)
  | drainRequests
  | calculate
  | getQueueDepth | getNumActiveWorkers | getAvailableCapacity
  deriving Repr

structure W where
  cfg : Cfg
  poolSize : Nat
  pool : List WP
  byActor : List (Nat × Nat)
  avail : List Nat
  inQ : List Nat
  last : Nat
  rl : Option (LeakyBucket.Cfg × LeakyBucket.LB)
  queue : List Job
  disc : Option (Nat × Mode)
  /-- `discard_handler`: identity of the factory's current handler -/
  handler : Option Nat := none
  drain : Drain
  env : Env
  nextAid : Nat
  stopSignal : Bool
  /-- the factory actor has entered `post_stop`: it handles and accepts nothing any more -/
  stopped : Bool
  /-- `post_stop` has completed (every worker it waits for has exited): the actor is `Stopped` -/
  exited : Bool := false
  /-- worker actors `post_stop` waits for -/
  awaiting : List Nat := []
  inbox : List FMsg
  blocked : Bool
  armed : Bool
  nextCalc : Nat
  answers : List (Option Nat)
  /-- worker queue lengths right after the last `route_message` of the current step -/
  lastWq : Option (List (Nat × Nat)) := none
  deriving Repr

def CALCULATE_FREQUENCY : Nat := 100000000

/-! ## Environment: worker actors -/

def Env.emit (e : Env) (ev : Ev) : Env := { e with log := e.log ++ [ev] }

def Env.getActor (e : Env) (aid : Nat) : Option Actor := e.actors.find? (·.aid == aid)

/-- replace the first actor with this id (ids are unique: `nextAid` is fresh) -/
def setFirstActor (a : Actor) : List Actor → List Actor
  | [] => []
  | x :: xs => if x.aid == a.aid then a :: xs else x :: setFirstActor a xs

def Env.setActor (e : Env) (a : Actor) : Env := { e with actors := setFirstActor a e.actors }

/-- `handler.discard(reason, job)` on the caller's handler `h` (if it has one). -/
def Env.discard (e : Env) (h : Option Nat) (r : Reason) (j : Job) : Env := e.emit (.discard r j.id h)

/-- `job.reject()`: answer the acceptance port with `Some(job)` if still unanswered. -/
def Env.reject (e : Env) (j : Job) : Env := if j.port then e.emit (.reply j.id true) else e

/-- `job.accept()` -/
def Env.accept (e : Env) (j : Job) : Env := if j.port then e.emit (.reply j.id false) else e

/-- `actor.cast(WorkerMessage::Dispatch(job))`: fails (returning the job) iff the actor is
closed. The message lands in the mailbox; the worker task only runs once the factory task
yields (`Env.settle`). -/
def Env.cast (e : Env) (aid : Nat) (j : Job) : Option Env :=
  match e.getActor aid with
  | none => none
  | some a =>
    if !a.alive then none
    else some (e.setActor { a with mailbox := a.mailbox ++ [j] })

/-- The actor exits: whatever it held is lost with it; its supervisor gets the event. -/
def Env.die (e : Env) (aid : Nat) : Env :=
  match e.getActor aid with
  | none => e
  | some a =>
    if !a.alive then e
    else
      let held := a.heldJobs
      let e := e.setActor { a with alive := false, running := none, mailbox := [], stopReq := false }
      { e with log := e.log ++ held.map (fun j => Ev.lost aid j.id), sup := e.sup ++ [aid] }

/-- every actor that is still alive is killed -/
def Env.killAll (e : Env) : Env := (e.actors.map (·.aid)).foldl Env.die e

/-- `actor.stop(None)`: the stop signal outranks queued messages; a busy actor exits after its
current handler, an idle one as soon as its task runs. -/
def Env.stop (e : Env) (aid : Nat) : Env :=
  match e.getActor aid with
  | none => e
  | some a => if !a.alive then e else e.setActor { a with stopReq := true }

/-- one worker task gets to run: exit on a pending stop, else take the next message (its
handler logs `start` and waits at the gate) -/
def Env.settleOne (e : Env) (aid : Nat) : Env :=
  match e.getActor aid with
  | none => e
  | some a =>
    if !a.alive || a.running.isSome then e
    else if a.stopReq then e.die aid
    else
      match a.mailbox with
      | [] => e
      | j :: rest => (e.setActor { a with running := some j, mailbox := rest }).emit (.start aid j.id j.key)

/-- every worker task runs until it blocks again -/
def Env.settle (e : Env) : Env := (e.actors.map (·.aid)).foldl Env.settleOne e

def Env.spawn (e : Env) (wid aid : Nat) : Env :=
  { e with actors := e.actors ++ [{ aid, wid }], log := e.log ++ [Ev.build wid aid] }

/-! ## `WorkerProperties` -/

def WP.isAvailable (p : WP) : Bool := p.curr.isEmpty && p.mq.isEmpty
def WP.isWorking (p : WP) : Bool := !p.isAvailable
def WP.hasPendingKey (p : WP) (k : Nat) : Bool := p.pending.contains k
def WP.isProcessingKey (p : WP) (k : Nat) : Bool := p.curr.any (·.1 == k)
def WP.untrack (p : WP) (k : Nat) : WP := { p with pending := p.pending.erase k }
def WP.track (p : WP) (k : Nat) : WP := { p with pending := k :: p.pending }

/-- `curr_jobs.insert(key, options)` (a second job of the same key overwrites the entry). -/
def currInsert (c : List (Nat × Nat)) (k id : Nat) : List (Nat × Nat) :=
  if c.any (·.1 == k) then c.map (fun x => if x.1 == k then (k, id) else x) else c ++ [(k, id)]

/-- `get_next_non_expired_job`: pops the queue head-first, discarding expired jobs (TtlExpired). -/
def getNextNonExpired (h : Option Nat) : List Job → List Nat → Env → Option Job × List Job × List Nat × Env
  | [], pend, e => (none, [], pend, e)
  | j :: rest, pend, e =>
    if !j.expired e.now then (some j, rest, pend, e)
    else getNextNonExpired h rest (pend.erase j.key) (e.discard h .ttlExpired j)

def WP.getNext (p : WP) (e : Env) : Option Job × WP × Env :=
  let (r, mq, pend, e) := getNextNonExpired p.handler p.mq p.pending e
  (r, { p with mq := mq, pending := pend }, e)

/-- `dispatch_job`: a failed hand-over to a closed worker keeps the job at the queue head. -/
def WP.dispatchJob (p : WP) (e : Env) (j : Job) : WP × Env :=
  match e.cast p.actor j with
  | some e' => ({ p with curr := currInsert p.curr j.key j.id }, e')
  | none => ({ p with mq := j :: p.mq }, e)

/-- the `while self.message_queue.len() > limit` loop of `enqueue_job` (fuel ≥ queue length) -/
def shedOldest (limit : Nat) : Nat → WP → Env → WP × Env
  | 0, p, e => (p, e)
  | fuel + 1, p, e =>
    if p.mq.length > limit then
      match p.getNext e with
      | (some d, p, e) => shedOldest limit fuel (p.untrack d.key) (e.discard p.handler .loadshed d)
      | (none, p, e) => shedOldest limit fuel p e
    else (p, e)

/-- `enqueue_job`, Newest: the incoming job is the one shed -/
def WP.shedsNewest (p : WP) : Bool :=
  match p.disc with
  | some (limit, .newest) => !p.isAvailable && decide (p.mq.length ≥ limit)
  | _ => false

/-- `enqueue_job` after the job was accepted and its key tracked -/
def WP.enqueueAccepted (p : WP) (e : Env) (j : Job) : WP × Env :=
  if p.curr.isEmpty then
    match p.getNext e with
    | (some older, p, e) => WP.dispatchJob { p with mq := p.mq ++ [j] } e older
    | (none, p, e) => p.dispatchJob e j
  else
    let p := { p with mq := p.mq ++ [j] }
    match p.disc with
    | some (limit, .oldest) => shedOldest limit (p.mq.length + 1) p e
    | _ => (p, e)

/-- `enqueue_job` -/
def WP.enqueueJob (p : WP) (e : Env) (j : Job) : WP × Env :=
  if p.shedsNewest then (p, (e.discard p.handler .loadshed j).reject j)
  else (p.track j.key).enqueueAccepted (e.accept j) { j with port := false }

/-- `worker_complete` -/
def WP.workerComplete (p : WP) (e : Env) (key : Nat) : WP × Env :=
  if p.curr.any (·.1 == key) then
    let p := { p with curr := p.curr.filter (fun x => x.1 != key), pending := p.pending.erase key }
    match p.getNext e with
    | (some j, p, e) => p.dispatchJob e j
    | (none, p, e) => (p, e)
  else (p, e)

/-- `replace_worker`: in-flight bookkeeping cleared, queue kept, next job handed to the newcomer. -/
def WP.replaceWorker (p : WP) (e : Env) (naid : Nat) : WP × Env :=
  let pend := p.curr.foldl (fun acc x => acc.erase x.1) p.pending
  let p := { p with curr := [], pending := pend, actor := naid }
  match p.getNext e with
  | (some j, p, e) => p.dispatchJob e j
  | (none, p, e) => (p, e)

/-! ## Pool and router state -/

def getW (pool : List WP) (wid : Nat) : Option WP := pool.find? (·.wid == wid)
/-- `pool.insert(wid, p)` for an existing slot (a `HashMap` has one entry per slot: first match) -/
def setW : List WP → Nat → WP → List WP
  | [], _, _ => []
  | x :: xs, wid, p => if x.wid == wid then p :: xs else x :: setW xs wid p
def hasW (pool : List WP) (wid : Nat) : Bool := pool.any (·.wid == wid)
/-- `pool.remove(&wid)` -/
def removeW : List WP → Nat → List WP
  | [], _ => []
  | x :: xs, wid => if x.wid == wid then xs else x :: removeW xs wid

def isFactoryQueueing : RouterKind → Bool
  | .q | .sq => true
  | _ => false

/-- `on_worker_availability_change` of the two queuer routers (a no-op for the others, whose
state is never read). -/
def W.availChange (w : W) (wid : Nat) (available : Bool) : W :=
  if available then
    if w.inQ.contains wid then w else { w with inQ := wid :: w.inQ, avail := w.avail ++ [wid] }
  else { w with inQ := w.inQ.erase wid }

/-- pop the available-workers deque, skipping stale entries -/
def popAvail (pool : List WP) : List Nat → List Nat → Option Nat × List Nat × List Nat
  | [], inQ => (none, [], inQ)
  | wid :: rest, inQ =>
    let inQ := inQ.erase wid
    match getW pool wid with
    | some p => if p.isAvailable then (some wid, rest, inQ) else popAvail pool rest inQ
    | none => popAvail pool rest inQ

def hintProcessing (pool : List WP) (hint : Option Nat) (key : Nat) : Bool :=
  match hint with
  | some h => match getW pool h with | some p => p.isProcessingKey key | none => false
  | none => false

/-- sticky (F13, fixed): the hinted worker has the key in flight or still queued -/
def hintPending (pool : List WP) (hint : Option Nat) (key : Nat) : Bool :=
  match hint with
  | some h => match getW pool h with | some p => p.hasPendingKey key | none => false
  | none => false

def hintAvailable (pool : List WP) (hint : Option Nat) : Bool :=
  match hint with
  | some h => match getW pool h with | some p => p.isAvailable | none => false
  | none => false

/-- round-robin: the hint is the slot the router itself picked last (the backlog path asks for a target
and then routes with that target as the hint) -/
def hintLast (pool : List WP) (last : Nat) (hint : Option Nat) : Bool :=
  match hint with
  | some h => hasW pool h && h == last
  | none => false

/-- `CustomHashFunction::hash` of the harness: table-driven, depends on key and worker count;
arbitrary values (out of range, `usize::MAX`). -/
def customHash (table : List Nat) (key n : Nat) : Nat :=
  if table.isEmpty then key else table.getD ((key + n) % table.length) 0

/-- (C14, custom) `hasher.hash(key, pool_size) % pool_size` -/
def chooseCustom (h : Nat → Nat → Nat) (key n : Nat) : Nat := h key n % n

/-- (C14, round-robin) next slot after `last` in a pool of `n` -/
def rrNext (last n : Nat) : Nat := if last + 1 ≥ n then 0 else last + 1

/-- `choose_target_worker` of the five routers. -/
def W.chooseTargetWorker (w : W) (j : Job) (hint : Option Nat) : Option Nat × W :=
  match w.cfg.router with
  | .kp =>
    match w.pool.find? (·.hasPendingKey j.key) with
    | some p => (some p.wid, w)
    | none =>
      match hint.filter (hasW w.pool) with
      | some h => (some h, w)
      | none =>
        if w.poolSize == 0 then (none, w)
        else
          let t := j.hash % w.poolSize
          (if hasW w.pool t then some t else none, w)
  | .q =>
    if hintAvailable w.pool hint then (hint, w)
    else
      let (r, avail, inQ) := popAvail w.pool w.avail w.inQ
      (r, { w with avail := avail, inQ := inQ })
  | .sq =>
    if hintPending w.pool hint j.key then (hint, w)
    else
      match w.pool.find? (·.hasPendingKey j.key) with
      | some p => (some p.wid, w)
      | none =>
        if hintAvailable w.pool hint then (hint, w)
        else
          let (r, avail, inQ) := popAvail w.pool w.avail w.inQ
          (r, { w with avail := avail, inQ := inQ })
  | .rr =>
    if w.poolSize == 0 then (none, w)
    else if hintAvailable w.pool hint || hintLast w.pool w.last hint then (hint, w)
    else
      let k := rrNext w.last w.poolSize
      (if hasW w.pool k then some k else none, { w with last := k })
  | .cu =>
    if w.poolSize == 0 then (none, w)
    else
      let k := chooseCustom (customHash w.cfg.table) j.key w.poolSize
      (if hasW w.pool k then some k else none, w)

inductive RouteResult | handled | backlog | rateLimited
  deriving DecidableEq, Repr

/-- the inner routers' `route_message` (identical for all five) -/
def W.routeInner (w : W) (j : Job) (hint : Option Nat) : RouteResult × W :=
  let (t, w) := w.chooseTargetWorker j hint
  match t with
  | none => (.backlog, w)
  | some wid =>
    match getW w.pool wid with
    | none => (.backlog, w)
    | some p =>
      let (p, e) := p.enqueueJob w.env j
      (.handled, { w with pool := setW w.pool wid p, env := e })

/-- `RateLimitedRouter::route_message` (`rl = none`: a limiter that always admits). -/
def W.routeLimited (w : W) (j : Job) (hint : Option Nat) : RouteResult × W :=
  match w.rl with
  | none => w.routeInner j hint
  | some (c, lb) =>
    let (lb, ok) := LeakyBucket.check c lb w.env.now
    let w := { w with rl := some (c, lb) }
    if !ok then
      let w := match hint with
        | some h => if hintAvailable w.pool hint then w.availChange h true else w
        | none => w
      (.rateLimited, w)
    else
      let (r, w) := w.routeInner j hint
      if r == .handled then
        (r, { w with rl := w.rl.map fun (c, lb) => (c, LeakyBucket.bump lb) })
      else (r, w)

/-- the router as the factory calls it; the (ghost) snapshot of the worker queue lengths is
what the harness' transparent wrapper records after each call -/
def W.routeMessage (w : W) (j : Job) (hint : Option Nat) : RouteResult × W :=
  let (r, w) := w.routeLimited j hint
  (r, { w with lastWq := some (w.pool.map fun p => (p.wid, p.mq.length)) })

/-! ## The factory queue (`DefaultQueue` / `PriorityQueue<_, _, StandardPriority, _, 5>`)

One list in arrival order; the priority queue selects by priority index (the per-priority
`VecDeque`s are the subsequences of equal index). -/

/-- priority index of the harness' `PriorityManager`: `key % 7`, 5 and 6 fall back to Normal (3) -/
def prioOf (cfg : Cfg) (j : Job) : Nat :=
  if cfg.prioQueue then (let r := j.key % 7; if r < 5 then r else 3) else 0

def discardable (cfg : Cfg) (j : Job) : Bool := !cfg.prioQueue || j.key % 4 != 3

/-- first element satisfying `f`, removed -/
def takeFirst (f : Job → Bool) : List Job → Option (Job × List Job)
  | [] => none
  | j :: rest =>
    if f j then some (j, rest)
    else match takeFirst f rest with
      | some (x, r) => some (x, j :: r)
      | none => none

/-- number of priorities of the harness' `PriorityQueue<_, _, StandardPriority, _, 5>` -/
def NUM_PRIORITIES : Nat := 5

/-- `for i in <order> { if let Some(r) = self.queues[i].pop_front() { return Some(r) } }` -/
def popByPrio (cfg : Cfg) : List Nat → List Job → Option (Job × List Job)
  | [], _ => none
  | p :: ps, q =>
    match takeFirst (fun j => prioOf cfg j == p) q with
    | some r => some r
    | none => popByPrio cfg ps q

def peekByPrio (cfg : Cfg) : List Nat → List Job → Option Job
  | [], _ => none
  | p :: ps, q =>
    match q.find? (fun j => prioOf cfg j == p) with
    | some r => some r
    | none => peekByPrio cfg ps q

def prioUp : List Nat := [0, 1, 2, 3, 4]
def prioDown : List Nat := [4, 3, 2, 1, 0]

def qPeek (cfg : Cfg) (q : List Job) : Option Job := peekByPrio cfg prioUp q
def qPopFront (cfg : Cfg) (q : List Job) : Option (Job × List Job) := popByPrio cfg prioUp q
/-- `discard_oldest`: lowest priority first -/
def qDiscardOldest (cfg : Cfg) (q : List Job) : Option (Job × List Job) := popByPrio cfg prioDown q

/-- order in which `remove_expired_items` visits the jobs: by priority queue, then position -/
def expiredInOrder (cfg : Cfg) (now : Nat) (q : List Job) : List Job :=
  prioUp.flatMap fun p => q.filter fun j => prioOf cfg j == p && j.expired now

/-! ## `FactoryState` -/

def W.emit (w : W) (ev : Ev) : W := { w with env := w.env.emit ev }

/-- first loop of `try_route_next_active_job`: expired jobs at the head are discarded -/
def W.dropExpiredHead : Nat → W → W
  | 0, w => w
  | fuel + 1, w =>
    match qPeek w.cfg w.queue with
    | some j =>
      if j.expired w.env.now then
        match qPopFront w.cfg w.queue with
        | some (j, q) =>
          W.dropExpiredHead fuel { w with queue := q, env := (w.env.discard w.handler .ttlExpired j).reject j }
        | none => w
      else w
    | none => w

/-- second loop of `try_route_next_active_job` -/
def W.routeLoop (hint : Option Nat) : Nat → W → W
  | 0, w => w
  | fuel + 1, w =>
    match qPeek w.cfg w.queue with
    | none => w
    | some j =>
      let (t, w) := w.chooseTargetWorker j hint
      match t with
      | none => w
      | some worker =>
        match qPopFront w.cfg w.queue with
        | none => w
        | some (j, q) =>
          let w := { w with queue := q }
          match w.routeMessage j (some worker) with
          | (.handled, w) => w
          | (.rateLimited, w) =>
            W.routeLoop hint fuel { w with env := (w.env.discard w.handler .rateLimited j).reject j }
          | (.backlog, w) => (w.emit .panicked).emit (.dropped j.id)

def W.tryRouteNextActiveJob (w : W) (hint : Option Nat) : W :=
  let w := W.dropExpiredHead (w.queue.length + 1) w
  W.routeLoop hint (w.queue.length + 1) w

/-- the `while self.queue.len() > limit` loop of `maybe_enqueue` -/
def W.shedQueueOldest (limit : Nat) : Nat → W → W
  | 0, w => w
  | fuel + 1, w =>
    if w.queue.length > limit then
      match qDiscardOldest w.cfg w.queue with
      | some (j, q) => W.shedQueueOldest limit fuel { w with queue := q, env := w.env.discard w.handler .loadshed j }
      | none => W.shedQueueOldest limit fuel w
    else w

def W.maybeEnqueue (w : W) (j : Job) : W :=
  match w.disc with
  | some (limit, .newest) =>
    if discardable w.cfg j && decide (w.queue.length ≥ limit) then
      { w with env := (w.env.discard w.handler .loadshed j).reject j }
    else { w with env := w.env.accept j, queue := w.queue ++ [{ j with port := false }] }
  | some (limit, .oldest) =>
    let w := { w with env := w.env.accept j, queue := w.queue ++ [{ j with port := false }] }
    W.shedQueueOldest limit (w.queue.length + 1) w
  | none => { w with env := w.env.accept j, queue := w.queue ++ [{ j with port := false }] }

def W.workerDiscard (w : W) (d : Option (Nat × Mode)) : Option (Nat × Mode) :=
  if isFactoryQueueing w.cfg.router then none else d

/-- `grow_pool` (one slot) -/
def W.growOne (w : W) (wid : Nat) : W :=
  match getW w.pool wid with
  | some p =>
    let w := { w with pool := setW w.pool wid { p with draining := false } }
    if p.isAvailable then w.availChange wid true else w
  | none =>
    let aid := w.nextAid
    let w := { w with
      nextAid := aid + 1
      env := w.env.spawn wid aid
      pool := w.pool ++ [({ wid, actor := aid, disc := w.workerDiscard w.disc, handler := w.handler } : WP)]
      byActor := w.byActor ++ [(aid, wid)] }
    w.availChange wid true

def W.growPool (w : W) (toAdd : Nat) : W :=
  (List.range toAdd).foldl (fun w i => w.growOne (w.poolSize + i)) w

/-- `shrink_pool` (one slot) -/
def W.shrinkOne (w : W) (wid : Nat) : W :=
  match getW w.pool wid with
  | some p =>
    if p.isWorking then { w with pool := setW w.pool wid { p with draining := true } }
    else
      let w := w.availChange wid false
      { w with
        env := w.env.stop p.actor
        pool := removeW w.pool wid
        byActor := w.byActor.filter (fun x => x.1 != p.actor) }
  | none => w

def W.shrinkPool (w : W) (toRemove : Nat) : W :=
  (List.range toRemove).foldl (fun w i => w.shrinkOne (w.poolSize - toRemove + i)) w

def GLOBAL_WORKER_POOL_MAXIMUM : Nat := 1000000

/-- the backlog flush at the end of a growing `resize_pool`: as long as it makes progress
(fuel ≥ queue length; every continued iteration shortens the queue) -/
def W.flushAfterGrow : Nat → W → W
  | 0, w => w
  | n + 1, w =>
    let backlog := w.queue.length
    if backlog == 0 then w
    else
      let w' := w.tryRouteNextActiveJob none
      if w'.queue.length ≥ backlog then w' else W.flushAfterGrow n w'

def W.resizePool (w : W) (requested : Nat) : W :=
  if requested == 0 then w
  else
    let cur := w.poolSize
    let n := min GLOBAL_WORKER_POOL_MAXIMUM requested
    let w := if n > cur then w.growPool (n - cur) else if n < cur then w.shrinkPool (cur - n) else w
    let w := { w with poolSize := n }
    if n > cur then W.flushAfterGrow (w.queue.length + 1) w else w

/-- `is_drained` -/
def W.isDrained (w : W) : Bool × W :=
  match w.drain with
  | .notDraining => (false, w)
  | .drained => (true, w)
  | .draining =>
    if w.pool.all (·.isAvailable) && w.queue.length == 0 then (true, { w with drain := .drained })
    else (false, w)

/-- `dispatch` -/
def W.dispatch (w : W) (j : Job) : W :=
  if j.expired w.env.now then { w with env := (w.env.discard w.handler .ttlExpired j).reject j }
  else if w.drain == .notDraining then
    match w.routeMessage j none with
    | (.handled, w) => w
    | (.rateLimited, w) => { w with env := (w.env.discard w.handler .rateLimited j).reject j }
    | (.backlog, w) => w.maybeEnqueue j
  else { w with env := (w.env.discard w.handler .shutdown j).reject j }

/-- `worker_finished_job` -/
def W.workerFinishedJob (w : W) (who key : Nat) : W :=
  match getW w.pool who with
  | some p =>
    let (p, e) := p.workerComplete w.env key
    let w := { w with pool := setW w.pool who p, env := e }
    if p.draining then
      if !p.isWorking then
        { w with
          pool := removeW w.pool who
          byActor := w.byActor.filter (fun x => x.1 != p.actor)
          env := w.env.stop p.actor }
      else w
    else
      let w := w.tryRouteNextActiveJob (some who)
      if (match getW w.pool who with | some p => p.isAvailable | none => false) then w.availChange who true
      else w
  | none =>
    -- unknown worker: `(false, false)`, the routing attempt still happens
    w.tryRouteNextActiveJob (some who)

/-- `remove_expired_items` (from `calculate_metrics`, factory-queueing routers only) -/
def W.removeExpired (w : W) : W :=
  if isFactoryQueueing w.cfg.router then
    let ex := expiredInOrder w.cfg w.env.now w.queue
    { w with
      queue := w.queue.filter (fun j => !j.expired w.env.now)
      env := ex.foldl (fun e j => e.discard w.handler .ttlExpired j) w.env }
  else w

/-- second half of `calculate_metrics` (after the capacity controller answered) -/
def W.calcRest (w : W) : W :=
  let w := w.removeExpired
  { w with nextCalc := w.env.now + CALCULATE_FREQUENCY }

/-- `update_settings`, discard handler: the factory's handler and every worker's copy are replaced -/
def W.setHandler (w : W) (h : Option Nat) : W :=
  { w with handler := h, pool := w.pool.map (fun p => { p with handler := h }), env := w.env.emit (.installed h) }

/-- `update_settings` (discard settings and worker count) -/
def W.updateSettings (w : W) (disc : Option (Option (Nat × Mode))) (n : Option Nat) : W :=
  let w := match disc with
    | some d =>
      let wd := w.workerDiscard d
      { w with pool := w.pool.map (fun p => { p with disc := wd }), disc := d }
    | none => w
  match n with
  | some n => w.resizePool n
  | none => w

/-- `retire_idle_draining_worker`: `some` = retired -/
def W.retireIdleDrainingWorker (w : W) (wid : Nat) : Option W :=
  match getW w.pool wid with
  | some p =>
    if p.draining && !p.isWorking then
      some { w with
        pool := removeW w.pool wid
        byActor := w.byActor.filter (fun (x : Nat × Nat) => x.1 != p.actor)
        env := w.env.stop p.actor }
    else none
  | none => none

/-- tail of `handle_supervisor_evt` once the replacement is installed -/
def W.afterReplace (w : W) (wid : Nat) : W :=
  match w.retireIdleDrainingWorker wid with
  | some w => w
  | none =>
    let w := w.tryRouteNextActiveJob (some wid)
    if (match getW w.pool wid with | some p => p.isAvailable | none => false) then w.availChange wid true
    else w

/-- `handle_supervisor_evt` (ActorTerminated / ActorFailed: same code) -/
def W.handleSupervisorEvt (w : W) (who : Nat) : W :=
  match w.byActor.find? (·.1 == who) with
  | none => w
  | some (_, wid) =>
    match getW w.pool wid with
    | none => w
    | some p =>
      let naid := w.nextAid
      let e := w.env.spawn wid naid
      let (p, e) := p.replaceWorker e naid
      W.afterReplace { w with
        nextAid := naid + 1
        env := e
        pool := setW w.pool wid p
        byActor := (w.byActor.filter (fun (x : Nat × Nat) => x.1 != who)) ++ [(naid, wid)] } wid

/-- `post_stop`, remaining factory queue: Shutdown discards if a handler is configured,
silently dropped otherwise -/
def Env.dropQueued (h : Option Nat) (e : Env) (j : Job) : Env :=
  if h.isSome then e.discard h .shutdown j else e.emit (.abandoned j.id)

/-- a message still in the factory's mailbox is dropped with it -/
def Env.dropMsg (e : Env) : FMsg → Env
  | .dispatch j => if j.port then (e.emit (.dropped j.id)).emit (.portClosed j.id) else e.emit (.dropped j.id)
  | _ => e

/-- jobs still in a worker queue vanish with the pool -/
def Env.dropWorkerQueue (e : Env) (p : WP) : Env := p.mq.foldl (fun e j => e.emit (.abandoned j.id)) e

/-- `post_stop` up to the point where it waits for the workers to exit: the remaining factory
queue is discarded, the workers are told to stop. The factory's bookkeeping is dropped. -/
def W.postStop (w : W) : W :=
  let e := w.queue.foldl (Env.dropQueued w.handler) w.env
  let e := w.pool.foldl Env.dropWorkerQueue e
  let e := w.pool.foldl (fun e p => e.stop p.actor) e
  { w with env := { e with sup := [] }, queue := [], stopped := true, pool := [], poolSize := 0
           awaiting := w.pool.map (·.actor) }

/-- the rest of `post_stop`, once every awaited worker has exited: the stopped hook runs, the
actor exits and whatever is still in its mailbox is dropped with it -/
def W.tryFinishStop (w : W) : W :=
  if w.stopped && !w.exited && w.awaiting.all (fun aid => !(w.env.getActor aid).any (·.alive)) then
    let e := w.env.emit (.hook .stopped)
    let e := w.inbox.foldl Env.dropMsg e
    -- an exiting supervisor terminates whatever children it still has (a worker the factory
    -- had already dropped from its pool but that is still inside a handler)
    let e := e.killAll
    { w with env := { e with sup := [] }, inbox := [], exited := true }
  else w

def W.replyAvailableCapacity (w : W) : Nat :=
  let avail := (w.pool.filter fun p => !p.draining && p.isAvailable).length
  match w.disc with
  | some (limit, _) =>
    let qc := if isFactoryQueueing w.cfg.router then limit - w.queue.length
      else ((w.pool.filter (!·.draining)).map fun p => limit - p.mq.length).foldl (· + ·) 0
    avail + qc
  | none => avail

/-- `handle`, without the trailing `is_drained` check. `calculate` may suspend inside the
gated capacity controller (`blocked`). -/
def W.handleMsg (w : W) : FMsg → W
  | .dispatch j => w.dispatch j
  | .finished who key => w.workerFinishedJob who key
  | .adjust n => w.resizePool n
  | .updateSettings d n => w.updateSettings d n
  | .setHandler h => w.setHandler h
  | .drainRequests => W.emit { w with drain := .draining } (.hook .draining)
  | .calculate =>
    if w.cfg.hasCC && w.armed then { w with armed := false, blocked := true }
    else w.calcRest
  | .getQueueDepth => { w with answers := w.answers ++ [some w.queue.length] }
  | .getNumActiveWorkers => { w with answers := w.answers ++ [some (w.pool.filter (·.isWorking)).length] }
  | .getAvailableCapacity => { w with answers := w.answers ++ [some w.replyAvailableCapacity] }

/-- end of `handle`: `if state.is_drained() { myself.stop(None) }` -/
def W.afterHandle (w : W) : W :=
  if w.blocked then w
  else
    let (d, w) := w.isDrained
    if d then { w with stopSignal := true } else w

/-- One iteration of the factory actor's loop: stop signal > supervision events > messages. -/
def W.loopStep (w : W) : Option W :=
  if w.stopped || w.blocked then none
  else if w.stopSignal then some w.postStop
  else
    match w.env.sup with
    | who :: rest => some (({ w with env := { w.env with sup := rest } }).handleSupervisorEvt who)
    | [] =>
      match w.inbox with
      | m :: rest => some (({ w with inbox := rest }).handleMsg m).afterHandle
      | [] => none

/-- run the factory to quiescence: the factory task runs until it has nothing to do (or is
suspended), then the worker tasks run; deaths among them wake the factory again -/
def W.runQ : Nat → W → W
  | 0, w => w
  | fuel + 1, w =>
    match w.loopStep with
    | some w => W.runQ fuel w
    | none =>
      let w' := W.tryFinishStop { w with env := w.env.settle }
      if w'.env.sup.isEmpty || w'.stopped || w'.blocked then w' else W.runQ fuel w'

def RUN_FUEL : Nat := 4096

def W.send (w : W) (m : FMsg) : W :=
  if w.stopped then w else { w with inbox := w.inbox ++ [m] }

def W.setNow (w : W) (t : Nat) : W := { w with env := { w.env with now := max w.env.now t } }

/-- virtual time passes until `t`: every `Calculate` timer due by then fires at its own instant -/
def W.advanceTo (t : Nat) : Nat → W → W
  | 0, w => w.setNow t
  | fuel + 1, w =>
    if !w.stopped && !w.blocked && w.nextCalc ≤ t then
      let w := w.setNow w.nextCalc
      -- the timer is consumed; `calc_rest` re-arms it
      let w := { w with nextCalc := t + CALCULATE_FREQUENCY * 1000000 }
      W.advanceTo t fuel (W.runQ RUN_FUEL (w.send .calculate))
    else w.setNow t

def advanceFuel (w : W) (t : Nat) : Nat := (t - w.env.now) / CALCULATE_FREQUENCY + 2

/-! ## Harness operations -/

inductive Op
  | dispatch (id key hash : Nat) (ttl : Option Nat) (acc : Bool)
  | finish (aid : Nat) (ok : Bool)
  | kill (aid : Nat)
  | resize (n : Nat)
  | settings (disc : Option (Option (Nat × Mode))) (n : Option Nat)
  | drain
  | setHandler (h : Option Nat)
  | advance
  | block
  | release (n : Nat)
  | nop
  deriving Repr

/-- the gated worker `aid` returns: Ok → reports `Finished(wid, key)` and takes its next
message (or exits if a stop is pending); Err/panic → the actor dies. -/
def W.finish (w : W) (aid : Nat) (ok : Bool) : W :=
  match w.env.getActor aid with
  | none => w
  | some a =>
    match a.running with
    | none => w
    | some j =>
      if !a.alive then w
      else if !ok then { w with env := (w.env.emit (.died aid)).die aid }
      else
        let e := (w.env.emit (.finishOk aid)).emit (.handled aid j.id)
        let w := { w with env := e }
        let w := w.send (.finished a.wid j.key)
        { w with env := (w.env.setActor { a with running := none }).settleOne aid }

def W.applyOp (w : W) : Op → W
  | .dispatch id key hash ttl acc =>
    -- a stopped factory accepts nothing: the cast fails and the caller keeps the job
    if w.stopped then w
    else
      let j : Job := { id, key, hash, expiry := ttl.map (w.env.now + ·), port := acc }
      (w.emit (.dispatched id key acc)).send (.dispatch j)
  | .finish aid ok => w.finish aid ok
  | .kill aid => { w with env := (w.env.emit (.died aid)).die aid }
  | .resize n => (w.emit (.requested n)).send (.adjust n)
  | .settings d n =>
    let w := match d with | some d => w.emit (.settings d) | none => w
    let w := match n with | some n => w.emit (.requested n) | none => w
    w.send (.updateSettings d n)
  | .drain => (w.emit .drainReq).send .drainRequests
  | .setHandler h => (w.emit (.handlerSet h)).send (.setHandler h)
  | .advance => w
  | .block => { w with armed := true }
  | .release n =>
    if w.blocked then
      let w := (w.emit (.released n))
      let w := { w with blocked := false }
      let w := if w.poolSize != n then w.resizePool n else w
      w.calcRest.afterHandle
    else w
  | .nop => w

/-- one RPC query: no answer (`none`) if the factory is gone -/
def W.ask (w : W) (m : FMsg) : W :=
  if w.stopped then { w with answers := w.answers ++ [none] }
  else
    let n := w.answers.length
    let w := W.runQ RUN_FUEL (w.send m)
    if w.answers.length == n then { w with answers := w.answers ++ [none] } else w

def W.queries (w : W) : W :=
  if w.blocked then { w with answers := [] }
  else ((W.ask { w with answers := [] } .getQueueDepth).ask .getNumActiveWorkers).ask .getAvailableCapacity

def W.live (w : W) : List Nat :=
  if w.exited then [] else (w.env.actors.filter (·.alive)).map (·.aid)

/-- One harness step: op at `t0`, queries at `tq`, snapshot at `te`. -/
def W.stepOp (w : W) (op : Op) (t0 tq te : Nat) : W :=
  let w := W.advanceTo t0 (advanceFuel w t0) w
  let w := W.runQ RUN_FUEL (w.applyOp op)
  let w := W.advanceTo tq (advanceFuel w tq) w
  let w := w.queries
  let w := W.advanceTo te (advanceFuel w te) w
  let ans := fun (i : Nat) => (w.answers.getD i none)
  W.emit { w with lastWq := none } (.snap (!w.exited) (ans 0) (ans 1) (ans 2) w.live w.lastWq)

/-- one harness step with its three instants -/
structure Step where
  op : Op
  t0 : Nat
  tq : Nat
  te : Nat

def W.runSteps (w : W) : List Step → W
  | [] => w
  | s :: rest => W.runSteps (w.stepOp s.op s.t0 s.tq s.te) rest

structure CaseCfg where
  cfg : Cfg
  n : Nat
  disc : Option (Nat × Mode)
  rl : Option (Nat × Nat × Nat × Nat)   -- refill, interval, max, initial

/-- `pre_start` + `post_start` at time 0 -/
def init (c : CaseCfg) : W :=
  let w : W := {
    cfg := c.cfg, poolSize := 0, pool := [], byActor := [], avail := [], inQ := [], last := 0
    rl := c.rl.map fun (r : Nat × Nat × Nat × Nat) =>
      let lc : LeakyBucket.Cfg := ⟨r.1, r.2.1, r.2.2.1, 10 ^ 40⟩
      (lc, LeakyBucket.new lc (some r.2.2.2) 0)
    queue := [], disc := c.disc, drain := .notDraining
    handler := if c.cfg.hasHandler then some 0 else none
    env := { actors := [], log := [], now := 0, sup := [] }
    nextAid := 0, stopSignal := false, stopped := false, inbox := [], blocked := false, armed := false
    nextCalc := CALCULATE_FREQUENCY, answers := [], lastWq := none }
  let w := w.growPool c.n   -- pre_start builds workers 0..n-1 exactly like grow_pool on an empty pool
  W.emit { w with poolSize := c.n } (.hook .started)

/-! ## The histories excluded by finding F4 (stale completion) -/

/-- keys of the `Finished` reports of slot `wid` that wait in the factory's mailbox -/
def finKeys (wid : Nat) : List FMsg → List Nat
  | [] => []
  | .finished w k :: r => if w == wid then k :: finKeys wid r else finKeys wid r
  | _ :: r => finKeys wid r

/-- (F4) killing `aid` now would make a completion stale: it is alive, it is the worker of a pool
slot, and a `Finished` report of that slot still waits in the factory's mailbox -/
def W.staleKill (w : W) (aid : Nat) : Bool :=
  match w.env.getActor aid with
  | some a => a.alive && w.pool.any (fun p => p.actor == aid && !(finKeys p.wid w.inbox).isEmpty)
  | none => false

def Op.isStaleAt (w : W) : Op → Bool
  | .kill aid => w.staleKill aid
  | _ => false

/-- no step of the run kills a worker incarnation whose completion report the factory has not
processed yet — the exact, model-level form of the oracle's classifier `noStaleCompletion` -/
def noStaleRun : W → List Step → Bool
  | _, [] => true
  | w, s :: rest =>
    !(s.op.isStaleAt (W.advanceTo s.t0 (advanceFuel w s.t0) w)) && noStaleRun (w.stepOp s.op s.t0 s.tq s.te) rest

end Factory
