import RactorModel.Lemmas.TimersProps

/-! Round 4 lemmas for C12: dropped handles (frame), zero periods, periods beyond the horizon. -/

namespace Timers

/-! ### dropping a `JoinHandle` changes nothing but the ghost set `dropped` -/

theorem step_seen (s : State) (op : Op) (h : op.isDrop = false) : (step s op).seen = step s.seen op := by
  cases op with
  | dropHandle i => simp [Op.isDrop] at h
  | fire i =>
    cases hτ : s.timers[i]? with
    | none =>
      have : s.seen.timers[i]? = none := hτ
      rw [step_fire_none hτ, step_fire_none this]
    | some τ =>
      have : s.seen.timers[i]? = some τ := hτ
      rw [step_fire_some hτ, step_fire_some this]; rfl
  | abort i =>
    cases hτ : s.timers[i]? with
    | none =>
      have : s.seen.timers[i]? = none := hτ
      rw [step_abort_none hτ, step_abort_none this]
    | some τ =>
      have : s.seen.timers[i]? = some τ := hτ
      rw [step_abort_some hτ, step_abort_some this]; split <;> rfl
  | create k p => rfl
  | createX k p => rfl
  | tick d => rfl
  | stop => rfl
  | kill => rfl
  | drain => rfl
  | target => rfl
  | mark => rfl
  | hold => rfl
  | psrelease => rfl
  | fail => rfl
  | startHold => rfl
  | started => rfl

theorem step_drop_seen (s : State) (i : Nat) : (step s (.dropHandle i)).seen = s.seen := rfl

theorem steps_seen (ops : List Op) : ∀ s : State,
    (steps s ops).seen = steps s.seen (ops.filter (fun o => !o.isDrop)) := by
  induction ops with
  | nil => intro s; rfl
  | cons op ops ih =>
    intro s
    rw [steps_cons, ih]
    cases hd : op.isDrop with
    | true =>
      have : (op :: ops).filter (fun o => !o.isDrop) = ops.filter (fun o => !o.isDrop) := by
        simp [hd]
      rw [this]
      cases op with
      | dropHandle i => rfl
      | _ => simp [Op.isDrop] at hd
    | false =>
      have : (op :: ops).filter (fun o => !o.isDrop) = op :: ops.filter (fun o => !o.isDrop) := by
        simp [hd]
      rw [this, steps_cons, step_seen s op hd]

/-! ### the same at the level of the macro ops the harness executes -/

/-- what the target, the message builders and the clock can tell: everything but the ghosts -/
def Same (s s' : State) : Prop := s.now = s'.now ∧ s.target = s'.target ∧ s.timers = s'.timers

theorem Same.step {s s' : State} (h : Same s s') (op : Op) : Same (step s op) (step s' op) := by
  obtain ⟨h1, h2, h3⟩ := h
  cases op with
  | fire i =>
    cases hτ : s.timers[i]? with
    | none =>
      have : s'.timers[i]? = none := h3 ▸ hτ
      rw [step_fire_none hτ, step_fire_none this]; exact ⟨h1, h2, h3⟩
    | some τ =>
      have : s'.timers[i]? = some τ := h3 ▸ hτ
      rw [step_fire_some hτ, step_fire_some this]
      exact ⟨h1, by simp only [h1, h2], by simp only [h1, h2, h3]⟩
  | abort i =>
    cases hτ : s.timers[i]? with
    | none =>
      have : s'.timers[i]? = none := h3 ▸ hτ
      rw [step_abort_none hτ, step_abort_none this]; exact ⟨h1, h2, h3⟩
    | some τ =>
      have : s'.timers[i]? = some τ := h3 ▸ hτ
      rw [step_abort_some hτ, step_abort_some this]
      split
      · exact ⟨h1, h2, by simp only [h1, h3]⟩
      · exact ⟨h1, h2, h3⟩
  | create k p => exact ⟨h1, h2, by simp only [Timers.step, h1, h3]⟩
  | createX k p => exact ⟨h1, h2, by simp only [Timers.step, h1, h3]⟩
  | tick d => exact ⟨by simp only [Timers.step, h1], h2, h3⟩
  | stop => exact ⟨h1, by simp only [Timers.step, h2], h3⟩
  | kill => exact ⟨h1, by simp only [Timers.step, h2], h3⟩
  | drain => exact ⟨h1, by simp only [Timers.step, h1, h2], h3⟩
  | target => exact ⟨h1, by simp only [Timers.step, h1, h2], h3⟩
  | mark => exact ⟨h1, h2, h3⟩
  | hold => exact ⟨h1, by simp only [Timers.step, h2], h3⟩
  | psrelease => exact ⟨h1, by simp only [Timers.step, h1, h2], h3⟩
  | dropHandle i => exact ⟨h1, h2, h3⟩
  | fail => exact ⟨h1, by simp only [Timers.step, h2], h3⟩
  | startHold => exact ⟨h1, by simp only [Timers.step, h2], h3⟩
  | started => exact ⟨h1, by simp only [Timers.step, h2], h3⟩

theorem Same.steps {s s' : State} (h : Same s s') (ops : List Op) : Same (steps s ops) (steps s' ops) := by
  induction ops generalizing s s' with
  | nil => exact h
  | cons op ops ih => exact ih (h.step op)

theorem Same.drop_left {s s' : State} (h : Same s s') (i : Nat) : Same (Timers.step s (.dropHandle i)) s' := h
theorem Same.mark_left {s s' : State} (h : Same s s') : Same (Timers.step s .mark) s' := h

/-- the run without the drops: `dropHandle` disappears, `advDrop d i` is a plain `adv d` -/
def undrop : List MOp → List MOp
  | [] => []
  | .dropHandle _ :: ms => undrop ms
  | .advDrop d _ :: ms => .adv d :: undrop ms
  | m :: ms => m :: undrop ms

theorem expand_same {s s' : State} (h : Same s s') (m : MOp) : expand s m = expand s' m := by
  cases m <;> simp only [expand, h.2.2]

theorem Same.mstep {s s' : State} (h : Same s s') (m : MOp) : Same (mstep s m) (mstep s' m) := by
  unfold Timers.mstep
  rw [expand_same h m]
  exact h.steps _

theorem mrun_undrop (ms : List MOp) : ∀ {s s' : State}, Same s s' → Same (mrun s ms) (mrun s' (undrop ms)) := by
  induction ms with
  | nil => intro s s' h; exact h
  | cons m ms ih =>
    intro s s' h
    have hgen : ∀ m', undrop (m' :: ms) = m' :: undrop ms → Same (mrun s (m' :: ms)) (mrun s' (undrop (m' :: ms))) := by
      intro m' e; rw [e]; exact ih (h.mstep m')
    cases m with
    | dropHandle i =>
      show Same (mrun (Timers.mstep s (.dropHandle i)) ms) (mrun s' (undrop ms))
      apply ih
      show Same (Timers.step (Timers.step s (.dropHandle i)) .mark) s'
      exact (h.drop_left i).mark_left
    | advDrop d i =>
      show Same (mrun (Timers.mstep s (.advDrop d i)) ms) (mrun (Timers.mstep s' (.adv d)) (undrop ms))
      apply ih
      unfold Timers.mstep
      have e1 : expand s (.advDrop d i) = [.tick d, .dropHandle i] ++ (fireAll s.timers.length ++ [.target, .mark]) := by
        simp [expand]
      have e2 : expand s' (.adv d) = [.tick d] ++ (fireAll s.timers.length ++ [.target, .mark]) := by
        simp [expand, h.2.2]
      rw [e1, e2]
      generalize fireAll s.timers.length ++ [Op.target, Op.mark] = l
      rw [steps_append s, steps_append s']
      apply Same.steps
      exact (h.step (.tick d)).drop_left i
    | create k p => exact hgen _ rfl
    | createX k p => exact hgen _ rfl
    | adv d => exact hgen _ rfl
    | advAbort d i => exact hgen _ rfl
    | advStop d => exact hgen _ rfl
    | advKill d => exact hgen _ rfl
    | advDrain d => exact hgen _ rfl
    | abort i => exact hgen _ rfl
    | stop => exact hgen _ rfl
    | kill => exact hgen _ rfl
    | drain => exact hgen _ rfl
    | hold => exact hgen _ rfl
    | psrelease => exact hgen _ rfl
    | fail => exact hgen _ rfl
    | advFail d => exact hgen _ rfl
    | startHold => exact hgen _ rfl
    | started => exact hgen _ rfl

/-! ### periods beyond the horizon, zero periods -/

theorem beyond_horizon' {s : State} (h : Inv s) (τ : Timer) (hτ : τ ∈ s.timers)
    (hlt : s.now < τ.created + τ.period) : τ.sentAt = [] := by
  cases hs : τ.sentAt with
  | nil => rfl
  | cons t ts =>
    have h0 : 0 < τ.sentAt.length := by simp [hs]
    have h1 := never_early' h τ hτ 0 h0
    have h2 := (h.tinv τ hτ).sent_le τ.sentAt[0] (List.getElem_mem h0)
    simp only [Nat.zero_add, Nat.one_mul] at h1
    omega

theorem zero_interval' {s : State} (h : Inv s) (τ : Timer) (hτ : τ ∈ s.timers)
    (hk : τ.kind = .interval) (hz : τ.period = 0) : τ.sentAt = [] ∧ τ.armed = none := by
  have hn : τ.armed = none := by
    cases ha : τ.armed with
    | none => rfl
    | some a =>
      have := (h.tinv τ hτ).pos hk (by simp [ha])
      omega
  exact ⟨(h.tinv τ hτ).unarmed hn, hn⟩

theorem zero_interval_fire (s : State) (i : Nat) (τ : Timer) (hi : s.timers[i]? = some τ)
    (hk : τ.kind = .interval) (hz : τ.period = 0) (hp : τ.res = .pending) :
    (step s (.fire i)).timers[i]? = some (τ.finish .panicked s.now) ∧ (step s (.fire i)).target = s.target := by
  rw [step_fire_some hi]
  have : fireOne s.now i τ s.target = (τ.finish .panicked s.now, s.target) := by
    simp [fireOne, hp, hk, hz]
  simp [this, getElem?_lt hi]

theorem prompt_of_binv {s : State} (h : BInv s) (τ : Timer) (hτ : τ ∈ s.timers) : timerPromptOk s τ = true := by
  have := h.okPrompt1
  unfold Timers.okPrompt1 at this
  rw [List.all_eq_true] at this
  exact this τ hτ

theorem zero_interval_gone {s : State} (h : BInv s) (τ : Timer) (hτ : τ ∈ s.timers)
    (hk : τ.kind = .interval) (hz : τ.period = 0) : τ.res ≠ .pending := by
  intro hp
  have := prompt_of_binv h τ hτ
  unfold timerPromptOk at this
  simp [hk, hz, hp] at this

theorem zero_oneshot_gone {s : State} (h : BInv s) (τ : Timer) (hτ : τ ∈ s.timers)
    (hk : τ.kind.oneShot = true) (hz : τ.period = 0) (hg : τ.created % 1000 = 0) : τ.res ≠ .pending := by
  intro hp
  have := prompt_of_binv h τ hτ
  have hc := (h.inv.tinv τ hτ).created_le
  unfold timerPromptOk at this
  simp only [hk, hp, hz, beq_self_eq_true, Bool.and_self, Bool.not_true, Bool.false_or, Bool.and_eq_true,
    decide_eq_true_eq, Nat.add_zero] at this
  have : s.now < ceilMs τ.created := this.1.2
  unfold ceilMs at this
  omega

end Timers
