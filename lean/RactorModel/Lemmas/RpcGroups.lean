import RactorModel.Lemmas.Rpc

/-! `multi_call` groups (C09): in every reachable state the calls of a group, in port order, target
a prefix of the REQUESTED actors in request order — the whole request unless a send failed. -/

namespace Rpc

def memberCallees (l : List Call) (g : Nat) : List Nat :=
  (l.filter (fun c => c.group == some g)).map (·.callee)

def anyFailed (l : List Call) (g : Nat) : Bool :=
  (l.filter (fun c => c.group == some g)).any failedRes

/-- same group, same callee, a failed send stays failed -/
def Rel (c c' : Call) : Prop :=
  c'.group = c.group ∧ c'.callee = c.callee ∧ (failedRes c = true → failedRes c' = true)

theorem Rel.refl (c : Call) : Rel c c := ⟨rfl, rfl, id⟩

theorem members_pointwise (g : Nat) : ∀ (l l' : List Call), l'.length = l.length →
    (∀ (i : Nat) (c : Call), l[i]? = some c → ∃ c', l'[i]? = some c' ∧ Rel c c') →
    memberCallees l' g = memberCallees l g ∧ (anyFailed l g = true → anyFailed l' g = true) := by
  intro l
  induction l with
  | nil =>
    intro l' hlen _
    have : l' = [] := List.length_eq_zero_iff.mp hlen
    subst this; exact ⟨rfl, id⟩
  | cons c rest ih =>
    intro l' hlen hpt
    cases l' with
    | nil => simp at hlen
    | cons c' rest' =>
      obtain ⟨c1, hc1, hg, hcal, hf⟩ := hpt 0 c rfl
      simp only [List.getElem?_cons_zero, Option.some.injEq] at hc1
      subst hc1
      have hrest := ih rest' (by simpa using hlen) (fun i d hd => by
        have := hpt (i + 1) d (by simpa using hd)
        simpa using this)
      unfold memberCallees anyFailed at *
      simp only [List.filter_cons, hg]
      by_cases hq : (c.group == some g) = true
      · simp only [hq, if_true, List.map_cons, List.any_cons, hcal, hrest.1, Bool.or_eq_true]
        refine ⟨by first | trivial | rfl, ?_⟩
        rintro (h1 | h1)
        · exact Or.inl (hf h1)
        · exact Or.inr (hrest.2 h1)
      · simp only [hq, if_false]
        exact hrest

structure GInv (s : S) : Prop where
  len : s.mreqs.length = s.groups
  lt : ∀ c ∈ s.calls, ∀ g, c.group = some g → g < s.groups
  mem : ∀ (g : Nat) (reqs : List Nat), s.mreqs[g]? = some reqs →
    memberCallees s.calls g = reqs.take (memberCallees s.calls g).length ∧
    ((memberCallees s.calls g).length = reqs.length ∨ anyFailed s.calls g = true)

theorem ginv_init : GInv init := by
  refine ⟨rfl, ?_, ?_⟩
  · intro c hc; simp [init] at hc
  · intro g reqs h; simp [init] at h

theorem ginv_pointwise {s s' : S} (h : GInv s) (hg : s'.groups = s.groups) (hm : s'.mreqs = s.mreqs)
    (hlen : s'.calls.length = s.calls.length)
    (hpt : ∀ (i : Nat) (c : Call), s.calls[i]? = some c → ∃ c', s'.calls[i]? = some c' ∧ Rel c c') : GInv s' := by
  refine ⟨by rw [hm, hg]; exact h.len, ?_, ?_⟩
  · intro c' hc' g hcg
    obtain ⟨i, hi⟩ := List.mem_iff_getElem?.mp hc'
    have hlt : i < s.calls.length := by rw [← hlen]; exact (List.getElem?_eq_some_iff.mp hi).1
    obtain ⟨c1, hc1, hrel⟩ := hpt i s.calls[i] (List.getElem?_eq_getElem hlt)
    rw [hi] at hc1; cases hc1
    rw [hg]
    exact h.lt _ (List.getElem_mem hlt) g (by rw [← hrel.1]; exact hcg)
  · intro g reqs hr
    rw [hm] at hr
    obtain ⟨h1, h2⟩ := h.mem g reqs hr
    obtain ⟨e1, e2⟩ := members_pointwise g s.calls s'.calls hlen hpt
    rw [e1]
    exact ⟨h1, h2.elim Or.inl (fun hf => Or.inr (e2 hf))⟩

theorem ginv_frame {s s' : S} (h : GInv s) (hc : s'.calls = s.calls) (hg : s'.groups = s.groups)
    (hm : s'.mreqs = s.mreqs) : GInv s' :=
  ginv_pointwise h hg hm (by rw [hc]) (fun i c hi => ⟨c, by rw [hc]; exact hi, Rel.refl c⟩)

theorem ginv_map {s s' : S} (h : GInv s) (f : Call → Call) (hc : s'.calls = s.calls.map f)
    (hg : s'.groups = s.groups) (hm : s'.mreqs = s.mreqs) (hf : ∀ c, Rel c (f c)) : GInv s' :=
  ginv_pointwise h hg hm (by rw [hc, List.length_map]) (fun i c hi =>
    ⟨f c, by rw [hc, List.getElem?_map, hi]; rfl, hf c⟩)

theorem ginv_setCall {s : S} (h : GInv s) (p : Nat) (l : Loc) :
    GInv (setCall s p (fun c => { c with loc := l })) :=
  ginv_pointwise h rfl rfl (by simp [setCall]) (fun i c hi => by
    refine ⟨if p = i then { c with loc := l } else c, ?_, ?_⟩
    · simp [setCall, List.getElem?_modify, hi]
    · split
      · exact ⟨rfl, rfl, id⟩
      · exact Rel.refl c)

theorem ginv_replyOn {s : S} (h : GInv s) (p v : Nat) : GInv (replyOn s p v) :=
  ginv_frame (ginv_setCall h p (.replied v)) rfl rfl rfl

theorem ginv_append_none {s s' : S} (h : GInv s) (c : Call) (hc : s'.calls = s.calls ++ [c])
    (hg : s'.groups = s.groups) (hm : s'.mreqs = s.mreqs) (hn : c.group = none) : GInv s' := by
  have hmc : ∀ g, memberCallees s'.calls g = memberCallees s.calls g := by
    intro g; unfold memberCallees; rw [hc, List.filter_append]; simp [hn]
  have haf : ∀ g, anyFailed s'.calls g = anyFailed s.calls g := by
    intro g; unfold anyFailed; rw [hc, List.filter_append]; simp [hn]
  refine ⟨by rw [hm, hg]; exact h.len, ?_, ?_⟩
  · intro c' hc' g hcg
    rw [hc, List.mem_append, List.mem_singleton] at hc'
    rw [hg]
    rcases hc' with h1 | h1
    · exact h.lt c' h1 g hcg
    · subst h1; rw [hn] at hcg; cases hcg
  · intro g reqs hr
    rw [hm] at hr
    rw [hmc, haf]; exact h.mem g reqs hr

theorem rel_dropPortsOf (a : Nat) (c : Call) : Rel c (dropPortsOf a c) := by
  unfold dropPortsOf Rel failedRes; repeat (first | exact ⟨rfl, rfl, id⟩ | split)
theorem rel_toEvent (a : Nat) (c : Call) : Rel c (toEvent a c) := by
  unfold toEvent Rel failedRes; repeat (first | exact ⟨rfl, rfl, id⟩ | split)
theorem rel_dropOrphan (U : List Sup) (c : Call) : Rel c (dropOrphan U c) := by
  unfold dropOrphan Rel failedRes; repeat (first | exact ⟨rfl, rfl, id⟩ | split)
theorem rel_resolveCall (now : Nat) (c : Call) : Rel c (resolveCall now c) := by
  unfold resolveCall
  cases hr : c.res with
  | some r => exact Rel.refl c
  | none =>
    have hnf : failedRes c = false := by simp [failedRes, hr]
    have : ∀ c', c'.group = c.group → c'.callee = c.callee → Rel c c' :=
      fun c' h1 h2 => ⟨h1, h2, fun hf => by rw [hnf] at hf; cases hf⟩
    simp only
    repeat (first | exact this _ rfl rfl | split)

theorem ginv_exit {s : S} (h : GInv s) (a : Nat) : GInv (exitActor s a) := by
  unfold exitActor
  cases s.actors[a]? with
  | none => exact h
  | some x =>
    simp only
    split
    · exact ginv_map h (dropPortsOf a) rfl rfl rfl (rel_dropPortsOf a)
    · exact h

theorem ginv_stop {s : S} (h : GInv s) (a : Nat) : GInv (stopActor s a) := by
  unfold stopActor
  cases s.actors[a]? with
  | none => exact h
  | some x =>
    simp only
    split
    · cases x.sup with
      | none => exact ginv_exit h a
      | some u =>
        simp only
        split
        · apply ginv_exit
          exact ginv_map h (toEvent a) rfl rfl rfl (rel_toEvent a)
        · exact ginv_exit h a
    · exact h

theorem ginv_sweep {s : S} (h : GInv s) (U : List Sup) : GInv (sweep { s with sups := U }) :=
  ginv_map h (dropOrphan U) rfl rfl rfl (rel_dropOrphan U)

theorem ginv_killChildren {s : S} (h : GInv s) (u : Nat) : GInv (killChildren s u) := by
  unfold killChildren
  generalize List.range s.actors.length = l
  induction l generalizing s with
  | nil => exact h
  | cons a rest ih =>
    simp only [List.foldl_cons]
    apply ih
    cases s.actors[a]? with
    | none => exact h
    | some x =>
      simp only
      split
      · exact ginv_exit h a
      · exact h

theorem ginv_drainExits {s : S} (h : GInv s) : GInv (drainExits s) := by
  unfold drainExits
  generalize List.range s.actors.length = l
  induction l generalizing s with
  | nil => exact h
  | cons a rest ih =>
    simp only [List.foldl_cons]
    apply ih
    cases s.actors[a]? with
    | none => exact h
    | some x =>
      simp only
      split
      · exact ginv_stop h a
      · exact h

theorem ginv_sendCall_none {s : S} (h : GInv s) (a : Nat) (t f : Option Nat) :
    GInv (sendCall s a t none f).1 := by
  unfold sendCall
  simp only
  split
  · exact ginv_append_none h _ rfl rfl rfl rfl
  · exact ginv_append_none h _ rfl rfl rfl rfl

theorem ginv_handle {s : S} (h : GInv s) (a : Nat) (act : Act) : GInv (handleCore s a act) := by
  unfold handleCore
  cases s.actors[a]? with
  | none => exact h
  | some x =>
    simp only
    split
    · exact h
    · cases x.mailbox with
      | nil => simp only; split; exact ginv_stop h a; exact h
      | cons it rest =>
        cases it with
        | fwd v => exact ginv_frame h rfl rfl rfl
        | call p =>
          simp only
          have h1 : GInv (setActor s a (fun y => { y with mailbox := y.mailbox.tail })) := ginv_frame h rfl rfl rfl
          unfold applyAct
          cases act with
          | reply v => exact ginv_replyOn h1 p v
          | drop => exact ginv_setCall h1 p _
          | keep => exact ginv_setCall h1 p _
          | detach => exact ginv_setCall h1 p _

theorem ginv_later {s : S} (h : GInv s) (p : Nat) (act : Act) : GInv (stepCore s (.later p act)) := by
  simp only [stepCore]
  cases s.calls[p]? with
  | none => exact h
  | some c =>
    simp only
    cases c.loc <;> cases act <;> simp only <;> first
      | exact h
      | exact ginv_replyOn h p _
      | exact ginv_setCall h p _
      | (split
         · first
           | exact ginv_replyOn h p _
           | exact ginv_setCall h p _
         · exact h)

/-! ### the `multi_call` step itself -/

/-- `sendMulti` for group `g`: the members of `g` grow by a prefix of the request, in order — by the
whole request unless a send failed; the members of every other group do not change. -/
theorem sendMulti_members (g : Nat) (t : Option Nat) : ∀ (as : List Nat) (s : S),
    (∃ k, memberCallees (sendMulti s g t as).calls g = memberCallees s.calls g ++ as.take k ∧
      (k = as.length ∨ anyFailed (sendMulti s g t as).calls g = true)) ∧
    (anyFailed s.calls g = true → anyFailed (sendMulti s g t as).calls g = true) ∧
    (∀ g', g' ≠ g → memberCallees (sendMulti s g t as).calls g' = memberCallees s.calls g' ∧
      anyFailed (sendMulti s g t as).calls g' = anyFailed s.calls g') ∧
    (∀ c ∈ (sendMulti s g t as).calls, c ∈ s.calls ∨ c.group = some g ∨
      ∃ c0 ∈ s.calls, c.group = c0.group) := by
  intro as
  induction as with
  | nil =>
    intro s
    exact ⟨⟨0, by simp [sendMulti], Or.inl rfl⟩, id, fun g' _ => ⟨rfl, rfl⟩, fun c hc => Or.inl hc⟩
  | cons a rest ih =>
    intro s
    -- one send: a fresh record of group g for callee a
    have hcalls : ∃ c, (sendCall s a t (some g) none).1.calls = s.calls ++ [c] ∧ c.group = some g ∧ c.callee = a ∧
        ((sendCall s a t (some g) none).2 = false → c.res = some .sendErr) := by
      unfold sendCall; simp only
      split
      · exact ⟨_, rfl, rfl, rfl, by intro h; cases h⟩
      · exact ⟨_, rfl, rfl, rfl, fun _ => rfl⟩
    obtain ⟨c, hc, hcg, hca, hcf⟩ := hcalls
    have hm1 : memberCallees (sendCall s a t (some g) none).1.calls g = memberCallees s.calls g ++ [a] := by
      unfold memberCallees; rw [hc, List.filter_append]; simp [hcg, hca]
    have hf1 : anyFailed s.calls g = true → anyFailed (sendCall s a t (some g) none).1.calls g = true := by
      unfold anyFailed; rw [hc, List.filter_append, List.any_append]; intro h; rw [h]; rfl
    have ho1 : ∀ g', g' ≠ g → memberCallees (sendCall s a t (some g) none).1.calls g' = memberCallees s.calls g' ∧
        anyFailed (sendCall s a t (some g) none).1.calls g' = anyFailed s.calls g' := by
      intro g' hne
      have : (c.group == some g') = false := by rw [hcg]; simpa using (Ne.symm hne)
      unfold memberCallees anyFailed; rw [hc, List.filter_append]; simp [this]
    simp only [sendMulti]
    split
    · -- accepted: go on with the rest
      obtain ⟨⟨k, hk, hkf⟩, hmono, hoth, horig⟩ := ih (sendCall s a t (some g) none).1
      refine ⟨⟨k + 1, ?_, ?_⟩, fun h => hmono (hf1 h), ?_, ?_⟩
      · rw [hk, hm1]; simp
      · rcases hkf with h1 | h1
        · left; simp [h1]
        · exact Or.inr h1
      · intro g' hne
        obtain ⟨e1, e2⟩ := hoth g' hne
        obtain ⟨e3, e4⟩ := ho1 g' hne
        exact ⟨e1.trans e3, e2.trans e4⟩
      · intro c' hc'
        rcases horig c' hc' with h1 | h1 | ⟨c0, hc0, h1⟩
        · rw [hc, List.mem_append, List.mem_singleton] at h1
          rcases h1 with h1 | h1
          · exact Or.inl h1
          · subst h1; exact Or.inr (Or.inl hcg)
        · exact Or.inr (Or.inl h1)
        · rw [hc, List.mem_append, List.mem_singleton] at hc0
          rcases hc0 with h2 | h2
          · exact Or.inr (Or.inr ⟨c0, h2, h1⟩)
          · subst h2; exact Or.inr (Or.inl (h1.trans hcg))
    · -- refused: the whole group is abandoned
      rename_i hnot
      have hfalse : (sendCall s a t (some g) none).2 = false := by
        cases hb : (sendCall s a t (some g) none).2 with
        | true => rw [hb] at hnot; exact absurd rfl hnot
        | false => rfl
      have hres := hcf hfalse
      -- the abandoning map keeps group and callee and never clears a failure
      have hrel : ∀ d : Call, Rel d (if (d.group == some g && d.res == none) = true then { d with res := some .abandoned } else d) := by
        intro d
        split
        · exact ⟨rfl, rfl, fun _ => by simp [failedRes]⟩
        · exact Rel.refl d
      have hpw := fun g' => members_pointwise g' (sendCall s a t (some g) none).1.calls
        ((sendCall s a t (some g) none).1.calls.map (fun d =>
          if (d.group == some g && d.res == none) = true then { d with res := some .abandoned } else d))
        (by rw [List.length_map]) (fun i d hd => ⟨_, by rw [List.getElem?_map, hd]; rfl, hrel d⟩)
      have hfail1 : anyFailed (sendCall s a t (some g) none).1.calls g = true := by
        unfold anyFailed; rw [hc, List.filter_append, List.any_append]
        simp [hcg, failedRes, hres]
      refine ⟨⟨1, ?_, Or.inr ((hpw g).2 hfail1)⟩, fun _ => (hpw g).2 hfail1, ?_, ?_⟩
      · rw [(hpw g).1, hm1]; simp
      · intro g' hne
        obtain ⟨e3, e4⟩ := ho1 g' hne
        refine ⟨(hpw g').1.trans e3, ?_⟩
        -- failure flags of another group: the map touches only records of group g
        have : ∀ l : List Call, anyFailed (l.map (fun d =>
            if (d.group == some g && d.res == none) = true then { d with res := some .abandoned } else d)) g' = anyFailed l g' := by
          intro l
          induction l with
          | nil => rfl
          | cons d rest ihl =>
            unfold anyFailed at *
            simp only [List.map_cons, List.filter_cons]
            by_cases hdg : (d.group == some g) = true
            · have hd' : (d.group == some g') = false := by
                have : d.group = some g := by simpa using hdg
                rw [this]; simpa using (Ne.symm hne)
              by_cases hdn : (d.res == none) = true
              · simp only [hdg, hdn, Bool.and_self, if_true, hd', Bool.false_eq_true, if_false]; exact ihl
              · simp only [hdg, hdn, Bool.and_false, Bool.false_eq_true, if_false, hd']; exact ihl
            · simp only [hdg, Bool.false_and, Bool.false_eq_true, if_false]
              split
              · simp only [List.any_cons, ihl]
              · exact ihl
        rw [this]; exact e4
      · intro c' hc'
        rw [List.mem_map] at hc'
        obtain ⟨d, hd, hdc⟩ := hc'
        have hgrp : c'.group = d.group := by rw [← hdc]; split <;> rfl
        rw [hc, List.mem_append, List.mem_singleton] at hd
        rcases hd with h2 | h2
        · exact Or.inr (Or.inr ⟨d, h2, hgrp⟩)
        · subst h2; exact Or.inr (Or.inl (hgrp.trans hcg))

theorem ginv_mcall {s : S} (h : GInv s) (as : List Nat) (t : Option Nat) :
    GInv (stepCore s (.mcall as t)) := by
  simp only [stepCore]
  obtain ⟨⟨k, hk, hkf⟩, _, hoth, horig⟩ := sendMulti_members s.groups t as s
  -- no earlier call belongs to the fresh group
  have hnone : memberCallees s.calls s.groups = [] := by
    unfold memberCallees
    rw [List.map_eq_nil_iff, List.filter_eq_nil_iff]
    intro c hc hg
    have := h.lt c hc s.groups (by simpa using hg)
    omega
  refine ⟨by simp [h.len], ?_, ?_⟩
  · intro c hc g hcg
    show g < s.groups + 1
    rcases horig c hc with h1 | h1 | ⟨c0, hc0, h1⟩
    · have := h.lt c h1 g hcg; omega
    · rw [hcg] at h1; cases h1; omega
    · have := h.lt c0 hc0 g (by rw [← h1]; exact hcg); omega
  · intro g reqs hr
    show memberCallees (sendMulti s s.groups t as).calls g = _ ∧ _
    by_cases hg : g = s.groups
    · subst hg
      have hreqs : reqs = as := by
        have : (s.mreqs ++ [as])[s.groups]? = some as := by
          rw [← h.len, List.getElem?_append_right (Nat.le_refl _)]; simp
        have hr' : (s.mreqs ++ [as])[s.groups]? = some reqs := hr
        rw [this] at hr'; exact (Option.some.inj hr').symm
      subst hreqs
      rw [hk, hnone, List.nil_append]
      refine ⟨?_, ?_⟩
      · rw [List.length_take]
        rcases Nat.le_total k reqs.length with h1 | h1
        · rw [Nat.min_eq_left h1]
        · rw [Nat.min_eq_right h1, List.take_of_length_le h1, List.take_of_length_le (Nat.le_refl _)]
      · rcases hkf with h1 | h1
        · left; rw [h1]; simp
        · exact Or.inr h1
    · have hlt : g < s.mreqs.length := by
        have hr' : (s.mreqs ++ [as])[g]? = some reqs := hr
        have := (List.getElem?_eq_some_iff.mp hr').1
        rw [List.length_append, List.length_singleton] at this
        rw [h.len] at *; omega
      have hr0 : s.mreqs[g]? = some reqs := by
        have hr' : (s.mreqs ++ [as])[g]? = some reqs := hr
        rwa [List.getElem?_append_left hlt] at hr'
      obtain ⟨e1, e2⟩ := hoth g hg
      rw [e1, e2]; exact h.mem g reqs hr0

theorem ginv_stepCore {s : S} (h : GInv s) (op : Op) : GInv (stepCore s op) := by
  cases op with
  | spawn => exact ginv_frame h rfl rfl rfl
  | call a t => exact ginv_sendCall_none h a t none
  | mcall as t => exact ginv_mcall h as t
  | fcall a f t => exact ginv_sendCall_none h a t (some f)
  | handle a act => exact ginv_handle h a act
  | later p act => exact ginv_later h p act
  | exit a => exact ginv_exit h a
  | stop a act =>
    simp only [stepCore]
    exact ginv_stop (ginv_handle h a act) a
  | drain a => exact ginv_frame h rfl rfl rfl
  | advance d => exact ginv_frame h rfl rfl rfl
  | spawnSup => exact ginv_frame h rfl rfl rfl
  | spawnl u =>
    simp only [stepCore]
    split
    · exact ginv_frame h rfl rfl rfl
    · exact h
  | suphandle u keep =>
    simp only [stepCore]
    cases s.sups[u]? with
    | none => exact h
    | some x =>
      simp only
      split
      · exact h
      · cases x.inbox with
        | nil => exact h
        | cons a rest =>
          simp only
          split
          · exact ginv_frame h rfl rfl rfl
          · exact ginv_sweep h _
  | supdrop u a =>
    simp only [stepCore]
    cases s.sups[u]? with
    | none => exact h
    | some x =>
      simp only
      split
      · exact ginv_sweep h _
      · exact h
  | supexit u =>
    simp only [stepCore]
    unfold supExit
    cases s.sups[u]? with
    | none => exact h
    | some x =>
      simp only
      split
      · exact ginv_killChildren (ginv_sweep h _) u
      · exact h
  | cast a v => exact ginv_frame h rfl rfl rfl
  | fail a =>
    simp only [stepCore]
    cases s.actors[a]? with
    | none => exact h
    | some x =>
      simp only
      split
      · exact ginv_exit h a
      · exact h
  | handleAt a act d => exact ginv_frame (ginv_handle h a act) rfl rfl rfl

theorem ginv_resolveLocal {s : S} (h : GInv s) : GInv (resolveLocal s) :=
  ginv_map h (resolveCall s.now) rfl rfl rfl (rel_resolveCall s.now)

theorem ginv_run (ops : List Op) : GInv (run ops) := by
  unfold run
  suffices ∀ s, Inv s → Wire s → GInv s → GInv (ops.foldl step s) from this init inv_init wire_init ginv_init
  induction ops with
  | nil => intro s _ _ h; exact h
  | cons op rest ih =>
    intro s hi hw hg
    have hs := inv_step hi hw op
    refine ih (step s op) hs.1 hs.2 ?_
    rw [step_eq_local hi.toPre hw op]
    exact ginv_resolveLocal (ginv_drainExits (ginv_stepCore hg op))

end Rpc
