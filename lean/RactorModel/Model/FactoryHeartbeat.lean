/-! The worker side of the factory's pings and the dead-man's switch, one worker slot on the virtual clock.

`HB` mirrors `WorkerHeartbeat` (worker.rs): the single heartbeat that may be outstanding for a worker. `Slot` adds what the
worker's own task does with a `FactoryPing`: its mailbox is FIFO, so a queued ping is answered (`WorkerPong` →
`ping_received` → `heartbeat.clear()`) as soon as the handler returns from the job it is inside, and before any later job.
Time only passes at quiescence (paused clock), i.e. after the worker's task has run. -/

namespace Heartbeat

structure HB where
  sentAt : Option Nat
  deriving DecidableEq, Repr

def HB.isPending (h : HB) : Bool := h.sentAt.isSome
def HB.sent (_ : HB) (at_ : Nat) : HB := ⟨some at_⟩
def HB.clear (_ : HB) : HB := ⟨none⟩

/-- `is_stuck_at`: `now.saturating_duration_since(sent_at) > timeout` -/
def HB.isStuckAt (h : HB) (now timeout : Nat) : Bool :=
  match h.sentAt with
  | some s => decide (now - s > timeout)
  | none => false

structure Slot where
  hb : HB := ⟨none⟩
  /-- the instant at which the job the worker's handler is inside was started -/
  running : Option Nat := none
  /-- a `FactoryPing` waits in the worker's mailbox -/
  pingQueued : Bool := false
  now : Nat := 0
  deriving DecidableEq, Repr

inductive Ev
  /-- `send_factory_ping` (from `DoPings` / `grow_pool` / a replacement) at instant `t` -/
  | ping (t : Nat)
  /-- the worker takes a job out of its mailbox at instant `t` -/
  | start (t : Nat)
  /-- the worker's handler returns from its job at instant `t` -/
  | finish (t : Nat)
  /-- `IdentifyStuckWorkers` looks at this slot at instant `t` with `detection_timeout` -/
  | check (t timeout : Nat)
  deriving DecidableEq, Repr

def Ev.time : Ev → Nat
  | .ping t | .start t | .finish t | .check t _ => t

/-- the worker's task runs to quiescence: an idle worker answers a queued ping, the factory clears the heartbeat -/
def Slot.settle (s : Slot) : Slot :=
  if s.running.isNone && s.pingQueued then { s with hb := s.hb.clear, pingQueued := false } else s

/-- the clock moves to `t` (only ever forwards, and only over a quiescent system) -/
def Slot.advance (s : Slot) (t : Nat) : Slot :=
  if t > s.now then { s.settle with now := t } else s

def Slot.step (s : Slot) (e : Ev) : Slot :=
  let s := s.advance e.time
  match e with
  | .ping _ =>
    if !s.hb.isPending then { s with hb := s.hb.sent s.now, pingQueued := true } else s
  | .start _ =>
    match s.running with
    | some _ => s            -- the factory hands a worker one job at a time
    | none =>
      -- FIFO mailbox: a ping queued earlier is answered first
      let s := s.settle
      { s with running := some s.now }
  -- the handler returns; the worker's task goes on to its next message at once: a ping queued behind the job is answered
  | .finish _ => ({ s with running := none } : Slot).settle
  | .check _ _ => s

def Slot.run (s : Slot) : List Ev → Slot
  | [] => s
  | e :: es => (s.step e).run es

/-- what `IdentifyStuckWorkers` finds at instant `t` -/
def Slot.stuckAt (s : Slot) (t timeout : Nat) : Bool := (s.advance t).hb.isStuckAt (s.advance t).now timeout

end Heartbeat
