import RactorModel.Lemmas.GenAdmission
namespace C07
section XlateTie
open Generated.Admission GenAdmission

/-- `try_admit_message`, one iteration on the word `enc w` (pcs `aLoad`/`aCas` of the model):
closed ⇒ `None`; else exchange `w` for `w` with one more ticket. -/
theorem generated_try_admit_eq_model (enq : Except MessagingErr Unit) (w : Admission.Word)
    (h : w.count + 1 < 2 ^ 62) :
    ActorProperties.try_admit_message enq (st w)
      = if w.closed then .done none
        else .cas (enc w) (enc { w with count := w.count + 1 }) (some ()) := by
  have hc := closed_bit w (by omega)
  unfold ActorProperties.try_admit_message
  simp only [st, hc]
  rcases w with ⟨c, m, n⟩
  cases c
  · have : Rust.wAdd 64 (enc ⟨false, m, n⟩) 1 = enc ⟨false, m, n + 1⟩ := by
      unfold Rust.wAdd enc; cases m <;> simp at h ⊢ <;> omega
    simp [this]
  · simp

/-- `close_message_admission` (pc `dClose`): `fetch_or(CLOSED)` sets `closed`. -/
theorem generated_close_admission_eq_model (enq : Except MessagingErr Unit) (w : Admission.Word)
    (h : w.count < 2 ^ 62) :
    ActorProperties.close_message_admission enq (st w) = st { w with closed := true } := by
  simp [ActorProperties.close_message_admission, st, or_closed w h]

/-- `send_drain_marker`, one iteration (pcs `mLoad`/`mCas`/`mEnq`): the exchange is attempted
exactly under `Admission.markerCond`, sets `marker`, and the value returned on success is the
outcome of the enqueue with its error mapped to `SendErr(())`. -/
theorem generated_send_drain_marker_eq_model (enq : Except MessagingErr Unit) (w : Admission.Word)
    (h : w.count < 2 ^ 62) :
    ActorProperties.send_drain_marker enq (st w)
      = if Admission.markerCond w then
          .cas (enc w) (enc { w with marker := true }) (enq.mapError fun _ => MessagingErr.SendErr ())
        else .done (.ok ()) := by
  unfold ActorProperties.send_drain_marker Admission.markerCond
  simp only [st, closed_bit w h, marker_bit w h, count_bits w h]
  rcases w with ⟨c, m, n⟩
  cases c <;> cases m <;> simp
  by_cases hn : n = 0
  · subst hn
    simp [enc, consts.2.1, Rust.bor]
  · simp [hn]

/-- `MessageAdmission::drop` (pc `rel`): one ticket fewer, and the marker program is entered
iff the word seen was closed with exactly this ticket outstanding. -/
theorem generated_ticket_release_eq_model (enq : Except MessagingErr Unit) (w : Admission.Word)
    (h : w.count < 2 ^ 62) (hpos : 0 < w.count) :
    MessageAdmission.drop enq (st w)
      = (st { w with count := w.count - 1 }, w.closed && w.count == 1) := by
  unfold MessageAdmission.drop
  simp only [st, closed_bit w h, count_bits w h]
  rcases w with ⟨c, m, n⟩
  simp only at h hpos
  have hlt : enc ⟨c, m, n⟩ < 2 ^ 64 := by unfold enc; cases c <;> cases m <;> simp <;> omega
  have hge : 0 < enc ⟨c, m, n⟩ := by unfold enc; simp only; omega
  have h1 : Rust.wSub 64 (enc ⟨c, m, n⟩) 1 = enc ⟨c, m, n⟩ - 1 := by unfold Rust.wSub; omega
  have h2 : enc ⟨c, m, n⟩ - 1 = enc ⟨c, m, n - 1⟩ := by unfold enc; simp only; omega
  rw [h1, h2]
  cases c <;> cases hd : decide (n = 1) <;> simp_all

/-- the closure `drain` passes to `status.fetch_update` (pc `dStatus`): for a started actor
(`status ≠ Unstarted`) exactly the model's `if status < stStopping then stDraining`. -/
theorem generated_drain_status_update_eq_model (enq : Except MessagingErr Unit) (status : Nat) (hs : status ≠ 0) :
    (ActorProperties.drain_status_update enq status).getD status
      = if status < Admission.stStopping then Admission.stDraining else status := by
  unfold ActorProperties.drain_status_update
  simp only [ActorStatus.toNat, Admission.stStopping, Admission.stDraining, ne_eq, hs, not_false_eq_true,
    decide_true, Bool.true_and]
  by_cases h : status < 5 <;> simp [h]

/-- the status test at the head of `send_message_unchecked` (pc `sStatus`) -/
theorem generated_send_status_check_eq_model (enq : Except MessagingErr Unit) (status : ActorStatus) :
    ActorProperties.send_rejects_status enq status = decide (status.toNat ≥ Admission.stDraining) := by
  cases status <;> rfl

theorem generated_status_discriminants :
    (ActorStatus.toNat .Draining, ActorStatus.toNat .Stopping, ActorStatus.toNat .Stopped)
      = (Admission.stDraining, Admission.stStopping, Admission.stStopped) := by decide

/-- the bit layout `GenAdmission.enc` assumes is the one of the three source constants -/
theorem generated_admission_constants :
    MESSAGE_ADMISSION_CLOSED = 2 ^ 63 ∧ DRAIN_MARKER_SENT = 2 ^ 62 ∧ MESSAGE_ADMISSION_COUNT_MASK = 2 ^ 62 - 1 :=
  GenAdmission.consts

/-! the hand-written small-step model performs, at the pcs named, exactly the generated word operations -/
section
open Admission

/-- pc `aLoad` of the model takes exactly the branch the generated `try_admit_message` takes on
the encoded word. -/
theorem model_admit_load_follows_generated (enq : Except MessagingErr Unit) (s : Shared) (f : Frame)
    (rest : List Frame) (hpc : f.pc = .aLoad) (h : s.word.count + 1 < 2 ^ 62) :
    stepThread s (f :: rest) =
      match ActorProperties.try_admit_message enq (st s.word) with
      | .done _ => some (finish s f .sendErr rest)
      | .cas _ _ _ => some (s, { f with pc := .aCas s.word } :: rest) := by
  rw [generated_try_admit_eq_model enq s.word h]
  unfold stepThread
  simp only [hpc]
  cases s.word.closed <;> rfl

/-- pc `aCas seen`, exchange succeeding: the word the model installs is the `new` word of the
generated iteration (through `enc`). -/
theorem model_admit_cas_installs_generated (enq : Except MessagingErr Unit) (s : Shared) (f : Frame)
    (rest : List Frame) (hpc : f.pc = .aCas s.word) (hopen : s.word.closed = false)
    (h : s.word.count + 1 < 2 ^ 62) :
    ∃ s' st', stepThread s (f :: rest) = some (s', st') ∧
      ActorProperties.try_admit_message enq (st s.word) = .cas (enc s.word) (enc s'.word) (some ()) := by
  refine ⟨{ s with word := { s.word with count := s.word.count + 1 } }, { f with pc := .box } :: rest, ?_, ?_⟩
  · unfold stepThread
    simp only [hpc, ↓reduceIte]
  · rw [generated_try_admit_eq_model enq s.word h]
    simp [hopen]

/-- pc `dClose`: the word the model installs is the one `close_message_admission` computes. -/
theorem model_close_installs_generated (enq : Except MessagingErr Unit) (s : Shared) (f : Frame)
    (rest : List Frame) (hpc : f.pc = .dClose) (h : s.word.count < 2 ^ 62) :
    ∃ s' st', stepThread s (f :: rest) = some (s', st') ∧
      ActorProperties.close_message_admission enq (st s.word) = st s'.word := by
  refine ⟨{ s with word := { s.word with closed := true } }, { f with pc := .dStatus } :: rest, ?_, ?_⟩
  · unfold stepThread
    simp only [hpc]
  · exact generated_close_admission_eq_model enq s.word h

/-- pc `mLoad`: the marker program goes on to its exchange exactly when the generated
`send_drain_marker` iteration does. -/
theorem model_marker_load_follows_generated (enq : Except MessagingErr Unit) (s : Shared) (f : Frame)
    (rest : List Frame) (ret : Option Res) (hpc : f.pc = .mLoad ret) (h : s.word.count < 2 ^ 62) :
    stepThread s (f :: rest) =
      match ActorProperties.send_drain_marker enq (st s.word) with
      | .done _ => some (finish s f (mRet ret) rest)
      | .cas _ _ _ => some (s, { f with pc := .mCas s.word ret } :: rest) := by
  rw [generated_send_drain_marker_eq_model enq s.word h]
  unfold stepThread
  simp only [hpc]
  cases markerCond s.word <;> rfl

/-- pc `rel r` (ticket release): the word the model installs and its decision to enter the
marker program are the generated `MessageAdmission::drop`'s. -/
theorem model_release_follows_generated (enq : Except MessagingErr Unit) (s : Shared) (f : Frame)
    (rest : List Frame) (r : Res) (hpc : f.pc = .rel r) (h : s.word.count < 2 ^ 62) (hpos : 0 < s.word.count) :
    (MessageAdmission.drop enq (st s.word)).1 = st { s.word with count := s.word.count - 1 } ∧
    stepThread s (f :: rest) =
      (let s' := { s with word := { s.word with count := s.word.count - 1 } }
       if (MessageAdmission.drop enq (st s.word)).2 then some (s', { f with pc := .mLoad (some r) } :: rest)
       else some (finish s' f r rest)) := by
  rw [generated_ticket_release_eq_model enq s.word h hpos]
  refine ⟨rfl, ?_⟩
  unfold stepThread
  simp only [hpc]
end
end XlateTie
end C07
