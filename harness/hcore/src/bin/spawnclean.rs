//! C08 correspondence harness, round 4: ONE real spawn per case, executed on its own OS thread
//! (own `current_thread` runtime) that is registered with a `verif::ThreadCtl`, so that it parks at
//! the schedule points inside `start`, `ActorCell::set_status` and
//! `ActorLifecycleGuard::cleanup`. The harness advances the thread from one INTERESTING point to
//! the next (`step`) and, between the steps, issues the requests of other threads from its own
//! thread: casts, calls, `wait()`, `pg::join` of the new cell by somebody else, stop, drain, kill,
//! status changes of the requested supervisor. After every op the world is observed through public
//! APIs, component by component.
//!
//! case line: `case cluster=<0|1> named=<0|1> taken=<0|1> linked=<0|1> instant=<0|1> cut0=<0|1>
//!             joins=<a.b|-> mons=<a.b|-> selfsends=<n> selflink=<0|1> outcome=<ok|err|panic|cut|yield>`
//! ops: `begin` `step` `cast` `call` `wait` `joinext g` `stop` `drain` `kill` `supset 4|5|6` `reuse`
//! observation: `<result> at=<point|done|-> res=<ok|err-name|err|cut|-> st=<status|NoCell>
//!               name=<mine|other|free|-> pid=<1|0|-> G=[..] sup=<slot><kids> W=<parked>/<returned>
//!               P=[..] h=<handled> ev=<events>`
//!
//! usage: spawnclean --seed S --cases N --out DIR [--replay-ops f1,f2] [--only-replay 1]

use std::sync::atomic::{AtomicBool, AtomicU64, Ordering};
use std::sync::{Arc, Mutex};

use hutil::{Args, Log, Rng, Stats};
use ractor::rpc::CallResult;
use ractor::verif::{self, ThreadCtl, ThreadPhase};
use ractor::{Actor, ActorCell, ActorProcessingErr, ActorRef, RpcReplyPort, SpawnErr, SupervisionEvent};
use tokio::sync::Notify;
use tokio::task::JoinHandle;

const INTERESTING: [&str; 17] = [
    "h.unstarted",
    "h.pre",
    "h.started",
    "status.publish",
    "status.unreg_pid",
    "status.unreg_name",
    "status.pg_demonitor",
    "status.pg_leave",
    "cleanup.terminate",
    "tree.take",
    "cleanup.notify",
    "cleanup.unlink",
    "tree.unlink",
    "cleanup.stopped",
    "status.notify",
    "notify.waiters",
    "tree.link",
];

enum Msg {
    Ping,
    Call(RpcReplyPort<u64>),
}

#[cfg(feature = "cluster")]
impl ractor::Message for Msg {}
#[cfg(feature = "cluster")]
impl ractor::Message for SupMsg {}

#[derive(Clone, Debug, PartialEq)]
enum Outcome {
    Ok,
    Err,
    Panic,
    Cut,
    Yield,
}

#[derive(Clone)]
struct Cfg {
    named: bool,
    taken: bool,
    linked: bool,
    instant: bool,
    cut0: bool,
    joins: Vec<u64>,
    mons: Vec<u64>,
    selfsends: u64,
    selflink: bool,
    outcome: Outcome,
}

#[derive(Default)]
struct Shared {
    cell: Mutex<Option<ActorCell>>,
    handled: AtomicU64,
    events: AtomicU64,
    in_pending: AtomicBool,
    result: Mutex<Option<String>>,
}

struct Target {
    cfg: Cfg,
    case_no: u64,
    shared: Arc<Shared>,
    sup: Option<ActorCell>,
}

fn gname(case_no: u64, g: u64) -> String {
    format!("c08c-g-{case_no}-{g}")
}
fn aname(case_no: u64) -> String {
    format!("c08c-n-{case_no}")
}

impl Actor for Target {
    type Msg = Msg;
    type State = ();
    type Arguments = ();

    async fn pre_start(&self, myself: ActorRef<Msg>, _: ()) -> Result<(), ActorProcessingErr> {
        *self.shared.cell.lock().unwrap() = Some(myself.get_cell());
        for g in &self.cfg.joins {
            ractor::pg::join(gname(self.case_no, *g), vec![myself.get_cell()]);
        }
        for g in &self.cfg.mons {
            ractor::pg::monitor(gname(self.case_no, *g), myself.get_cell());
        }
        for _ in 0..self.cfg.selfsends {
            let _ = myself.cast(Msg::Ping);
        }
        if let (true, Some(p)) = (self.cfg.selflink, &self.sup) {
            myself.get_cell().link(p.clone());
        }
        verif::point("h.pre");
        match self.cfg.outcome {
            Outcome::Ok => Ok(()),
            Outcome::Err => Err("pre_start failed".into()),
            Outcome::Panic => panic!("pre_start panicked"),
            Outcome::Cut => {
                self.shared.in_pending.store(true, Ordering::SeqCst);
                std::future::pending::<()>().await;
                Ok(())
            }
            Outcome::Yield => {
                tokio::task::yield_now().await;
                Ok(())
            }
        }
    }

    async fn post_start(&self, _: ActorRef<Msg>, _: &mut ()) -> Result<(), ActorProcessingErr> {
        *self.shared.result.lock().unwrap() = Some("ok".into());
        verif::point("h.started");
        Ok(())
    }

    async fn handle(&self, _: ActorRef<Msg>, msg: Msg, _: &mut ()) -> Result<(), ActorProcessingErr> {
        self.shared.handled.fetch_add(1, Ordering::SeqCst);
        if let Msg::Call(p) = msg {
            let _ = p.send(1);
        }
        Ok(())
    }
}

/// the requested supervisor: can be held Draining (inside a handler) or Stopping (inside post_stop)
struct Sup {
    shared: Arc<Shared>,
    gate: Arc<Notify>,
    gate2: Arc<Notify>,
}
enum SupMsg {
    Block,
}
impl Actor for Sup {
    type Msg = SupMsg;
    type State = ();
    type Arguments = ();
    async fn pre_start(&self, _: ActorRef<SupMsg>, _: ()) -> Result<(), ActorProcessingErr> {
        Ok(())
    }
    async fn handle(&self, _: ActorRef<SupMsg>, _: SupMsg, _: &mut ()) -> Result<(), ActorProcessingErr> {
        self.gate.notified().await;
        Ok(())
    }
    async fn post_stop(&self, _: ActorRef<SupMsg>, _: &mut ()) -> Result<(), ActorProcessingErr> {
        self.gate2.notified().await;
        Ok(())
    }
    async fn handle_supervisor_evt(&self, _: ActorRef<SupMsg>, evt: SupervisionEvent, _: &mut ()) -> Result<(), ActorProcessingErr> {
        match evt {
            SupervisionEvent::ActorStarted(_) | SupervisionEvent::ActorTerminated(..) | SupervisionEvent::ActorFailed(..) => {
                self.shared.events.fetch_add(1, Ordering::SeqCst);
            }
            _ => {}
        }
        Ok(())
    }
}

struct Holder;
impl Actor for Holder {
    type Msg = ();
    type State = ();
    type Arguments = ();
    async fn pre_start(&self, _: ActorRef<()>, _: ()) -> Result<(), ActorProcessingErr> {
        Ok(())
    }
}

async fn quiesce() {
    for _ in 0..60 {
        tokio::task::yield_now().await;
    }
}

struct World {
    case_no: u64,
    cfg: Cfg,
    shared: Arc<Shared>,
    ctl: Option<Arc<ThreadCtl>>,
    thread: Option<std::thread::JoinHandle<()>>,
    instant_ref: Arc<Mutex<Option<ActorCell>>>,
    at: String,
    sup: Option<ActorRef<SupMsg>>,
    sup_gate: Arc<Notify>,
    sup_gate2: Arc<Notify>,
    sup_status: u8,
    holder: Option<ActorRef<()>>,
    waits: Vec<JoinHandle<()>>,
    calls: Vec<Option<JoinHandle<char>>>,
    call_done: Vec<char>,
    groups: Vec<u64>,
    released_ctl: bool,
}

impl World {
    async fn new(case_no: u64, cfg: Cfg) -> Self {
        let shared: Arc<Shared> = Default::default();
        let (g1, g2) = (Arc::new(Notify::new()), Arc::new(Notify::new()));
        let sup = if cfg.linked || cfg.selflink {
            let (s, _) = Actor::spawn(None, Sup { shared: shared.clone(), gate: g1.clone(), gate2: g2.clone() }, ()).await.expect("sup");
            Some(s)
        } else {
            None
        };
        let holder = if cfg.named && cfg.taken {
            let (h, _) = Actor::spawn(Some(aname(case_no)), Holder, ()).await.expect("holder");
            Some(h)
        } else {
            None
        };
        quiesce().await;
        let mut groups: Vec<u64> = cfg.joins.iter().chain(cfg.mons.iter()).cloned().collect();
        groups.sort();
        groups.dedup();
        World {
            case_no,
            cfg,
            shared,
            ctl: None,
            thread: None,
            instant_ref: Default::default(),
            at: "-".into(),
            sup,
            sup_gate: g1,
            sup_gate2: g2,
            sup_status: 2,
            holder,
            waits: vec![],
            calls: vec![],
            call_done: vec![],
            groups,
            released_ctl: false,
        }
    }

    fn cell(&self) -> Option<ActorCell> {
        self.instant_ref.lock().unwrap().clone().or_else(|| self.shared.cell.lock().unwrap().clone())
    }

    /// run the spawn thread to its next interesting point
    fn advance(&mut self, grant: bool) -> String {
        let Some(ctl) = self.ctl.clone() else { return "-".into() };
        if grant {
            ctl.grant();
        }
        loop {
            let ph = ctl
                .wait_parked_timeout(std::time::Duration::from_secs(20))
                .expect("spawn thread neither parked nor done after 20 s");
            match ph {
                ThreadPhase::AtPoint(p) if !INTERESTING.contains(&p) => ctl.grant(),
                ThreadPhase::AtPoint(p) => {
                    self.at = p.to_string();
                    break;
                }
                ThreadPhase::Done => {
                    if let Some(t) = self.thread.take() {
                        let _ = t.join();
                    }
                    self.at = "done".into();
                    break;
                }
                ThreadPhase::Running => {}
            }
        }
        self.at.clone()
    }

    fn begin(&mut self) -> String {
        if self.ctl.is_some() {
            return "begin=already".into();
        }
        let ctl = ThreadCtl::new();
        self.ctl = Some(ctl.clone());
        let cfg = self.cfg.clone();
        let (shared, iref, case_no) = (self.shared.clone(), self.instant_ref.clone(), self.case_no);
        let sup = self.sup.as_ref().map(|s| s.get_cell());
        self.thread = Some(std::thread::spawn(move || {
            verif::thread_register(ctl.clone());
            let rt = tokio::runtime::Builder::new_current_thread().enable_all().build().expect("rt");
            let sh2 = shared.clone();
            let res: String = rt.block_on(async move {
                let name = if cfg.named { Some(aname(case_no)) } else { None };
                let t = Target { cfg: cfg.clone(), case_no, shared: sh2.clone(), sup: sup.clone() };
                let sup = if cfg.linked { sup } else { None };
                let jh: JoinHandle<Result<JoinHandle<()>, SpawnErr>> = if cfg.instant {
                    let r = match sup {
                        Some(p) => ractor::ActorRuntime::<Target>::spawn_linked_instant(name, t, (), p),
                        None => ractor::ActorRuntime::<Target>::spawn_instant(name, t, ()),
                    };
                    match r {
                        Err(_) => return "err-name".to_string(),
                        Ok((aref, jh)) => {
                            *iref.lock().unwrap() = Some(aref.get_cell());
                            // the reference is out, the start task has not been polled yet
                            verif::point("h.unstarted");
                            if cfg.cut0 {
                                jh.abort();
                            }
                            jh
                        }
                    }
                } else {
                    tokio::spawn(async move {
                        let (_, h) = match sup {
                            Some(p) => Actor::spawn_linked(name, t, (), p).await?,
                            None => Actor::spawn(name, t, ()).await?,
                        };
                        Ok(h)
                    })
                };
                let mut aborted = false;
                while !jh.is_finished() {
                    if !aborted && sh2.in_pending.load(Ordering::SeqCst) {
                        // pre_start is suspended for good: the spawn future / start task is dropped
                        jh.abort();
                        aborted = true;
                    }
                    tokio::task::yield_now().await;
                }
                match jh.await {
                    Ok(Ok(h)) => {
                        let _ = h.await;
                        "ok".to_string()
                    }
                    Ok(Err(SpawnErr::ActorAlreadyRegistered(_))) => "err-name".to_string(),
                    Ok(Err(_)) => "err".to_string(),
                    Err(e) if e.is_cancelled() => "cut".to_string(),
                    Err(_) => "err-join".to_string(),
                }
            });
            *shared.result.lock().unwrap() = Some(res);
            drop(rt);
            verif::thread_unregister();
            ctl.finish();
        }));
        self.advance(false)
    }

    async fn supset(&mut self, st: u8) -> String {
        let Some(s) = self.sup.clone() else { return "nosup".into() };
        if st <= self.sup_status {
            return "ok".into();
        }
        match st {
            4 => {
                let _ = s.cast(SupMsg::Block);
                quiesce().await;
                let _ = s.drain();
            }
            5 => {
                s.stop(None);
                self.sup_gate.notify_one();
            }
            _ => {
                s.kill();
                self.sup_gate.notify_one();
                self.sup_gate2.notify_one();
            }
        }
        self.sup_status = st;
        quiesce().await;
        "ok".into()
    }

    async fn exec(&mut self, line: &str) -> String {
        let w: Vec<&str> = line.split_whitespace().collect();
        let cell = self.cell();
        if self.at == "h.started" && !self.released_ctl {
            // the spawn produced a running actor (parked in post_start while it was observed):
            // nothing more to follow, the actor runs free from here on
            if let Some(ctl) = &self.ctl {
                ctl.release();
            }
            self.released_ctl = true;
        }
        let r: String = match (w.as_slice(), &cell) {
            (["begin"], _) => self.begin(),
            (["step"], _) => {
                if self.ctl.is_none() {
                    "-".into()
                } else if self.at == "done" || self.released_ctl {
                    self.at.clone()
                } else {
                    self.advance(true)
                }
            }
            (["cast"], Some(c)) => {
                let r: ActorRef<Msg> = c.clone().into();
                if r.cast(Msg::Ping).is_ok() { "ok" } else { "err" }.into()
            }
            (["call"], Some(c)) => {
                let r: ActorRef<Msg> = c.clone().into();
                let h = tokio::spawn(async move {
                    match r.call(Msg::Call, None).await {
                        Err(_) => 'E',
                        Ok(CallResult::Success(_)) => 'R',
                        Ok(CallResult::SenderError) => 'S',
                        Ok(CallResult::Timeout) => 'T',
                    }
                });
                self.calls.push(Some(h));
                self.call_done.push('W');
                "ok".into()
            }
            (["wait"], Some(c)) => {
                let c = c.clone();
                self.waits.push(tokio::spawn(async move {
                    let _ = c.wait(None).await;
                }));
                "ok".into()
            }
            (["joinext", g], Some(c)) => {
                let g: u64 = g.parse().unwrap_or(0);
                if !self.groups.contains(&g) {
                    self.groups.push(g);
                    self.groups.sort();
                }
                ractor::pg::join(gname(self.case_no, g), vec![c.clone()]);
                "ok".into()
            }
            (["stop"], Some(c)) => {
                c.stop(None);
                "ok".into()
            }
            (["kill"], Some(c)) => {
                c.kill();
                "ok".into()
            }
            (["drain"], Some(c)) => if c.drain().is_ok() { "ok" } else { "err" }.into(),
            (["cast" | "call" | "wait" | "stop" | "kill" | "drain"], None) | (["joinext", _], None) => "noref".into(),
            (["supset", st], _) => self.supset(st.parse().unwrap_or(6)).await,
            (["reuse"], _) => {
                // is the name free for a new actor?
                if !self.cfg.named {
                    "noname".into()
                } else {
                    match Actor::spawn(Some(aname(self.case_no)), Holder, ()).await {
                        Ok((h, jh)) => {
                            h.stop(None);
                            let _ = jh.await;
                            "ok".into()
                        }
                        Err(_) => "err".into(),
                    }
                }
            }
            _ => "bad-op".into(),
        };
        quiesce().await;
        format!("{r} {}", self.snap().await)
    }

    async fn snap(&mut self) -> String {
        for i in 0..self.calls.len() {
            if self.calls[i].as_ref().is_some_and(|h| h.is_finished()) {
                let h = self.calls[i].take().unwrap();
                self.call_done[i] = h.await.unwrap_or('?');
            }
        }
        let returned = self.waits.iter().filter(|h| h.is_finished()).count();
        let parked = self.waits.len() - returned;
        let res = if self.at == "done" || self.at == "h.started" {
            self.shared.result.lock().unwrap().clone().unwrap_or_else(|| "-".into())
        } else {
            "-".into()
        };
        let p: String = self.call_done.iter().collect();
        let (h, ev) = (self.shared.handled.load(Ordering::SeqCst), self.shared.events.load(Ordering::SeqCst));
        match self.cell() {
            None => format!("at={} res={res} st=NoCell name=- pid=- G=[] sup=00 W={parked}/{returned} P=[{p}] h={h} ev={ev}", self.at),
            Some(c) => {
                let name = if !self.cfg.named {
                    "-"
                } else {
                    match ractor::registry::where_is(aname(self.case_no)) {
                        None => "free",
                        Some(o) if o.get_id() == c.get_id() => "mine",
                        Some(_) => "other",
                    }
                };
                #[cfg(feature = "cluster")]
                let pid = if ractor::registry::where_is_pid(c.get_id()).is_some() { "1" } else { "0" };
                #[cfg(not(feature = "cluster"))]
                let pid = "-";
                let gs: Vec<String> = self
                    .groups
                    .iter()
                    .filter(|g| ractor::pg::get_members(&gname(self.case_no, **g)).iter().any(|m| m.get_id() == c.get_id()))
                    .map(|g| g.to_string())
                    .collect();
                let slot = c.try_get_supervisor().is_some() as u8;
                let kids = self.sup.as_ref().is_some_and(|s| s.get_children().iter().any(|k| k.get_id() == c.get_id())) as u8;
                format!(
                    "at={} res={res} st={:?} name={name} pid={pid} G=[{}] sup={slot}{kids} W={parked}/{returned} P=[{p}] h={h} ev={ev}",
                    self.at,
                    c.get_status(),
                    gs.join(",")
                )
            }
        }
    }

    async fn finish(mut self) {
        if let Some(ctl) = &self.ctl {
            ctl.release();
        }
        if let Some(c) = self.cell() {
            c.kill();
        }
        if let Some(t) = self.thread.take() {
            let _ = t.join();
        }
        if let Some(s) = &self.sup {
            s.kill();
        }
        self.sup_gate.notify_one();
        self.sup_gate2.notify_one();
        if let Some(h) = &self.holder {
            h.kill();
        }
        for h in self.waits.drain(..) {
            h.abort();
        }
        for h in self.calls.drain(..).flatten() {
            h.abort();
        }
        quiesce().await;
    }
}

fn show_list(v: &[u64]) -> String {
    if v.is_empty() {
        "-".into()
    } else {
        v.iter().map(|x| x.to_string()).collect::<Vec<_>>().join(".")
    }
}

fn case_line(c: &Cfg) -> String {
    format!(
        "case cluster={} named={} taken={} linked={} instant={} cut0={} joins={} mons={} selfsends={} selflink={} outcome={}",
        cfg!(feature = "cluster") as u8,
        c.named as u8,
        c.taken as u8,
        c.linked as u8,
        c.instant as u8,
        c.cut0 as u8,
        show_list(&c.joins),
        show_list(&c.mons),
        c.selfsends,
        c.selflink as u8,
        match c.outcome {
            Outcome::Ok => "ok",
            Outcome::Err => "err",
            Outcome::Panic => "panic",
            Outcome::Cut => "cut",
            Outcome::Yield => "yield",
        }
    )
}

fn parse_case(line: &str) -> Option<Cfg> {
    let mut c = Cfg { named: false, taken: false, linked: false, instant: false, cut0: false, joins: vec![], mons: vec![], selfsends: 0, selflink: false, outcome: Outcome::Err };
    let list = |v: &str| -> Vec<u64> { if v == "-" { vec![] } else { v.split('.').filter_map(|x| x.parse().ok()).collect() } };
    for kv in line.split_whitespace().skip(1) {
        let (k, v) = kv.split_once('=')?;
        match k {
            "cluster" => {}
            "named" => c.named = v == "1",
            "taken" => c.taken = v == "1",
            "linked" => c.linked = v == "1",
            "instant" => c.instant = v == "1",
            "cut0" => c.cut0 = v == "1",
            "joins" => c.joins = list(v),
            "mons" => c.mons = list(v),
            "selfsends" => c.selfsends = v.parse().ok()?,
            "selflink" => c.selflink = v == "1",
            "outcome" => {
                c.outcome = match v {
                    "ok" => Outcome::Ok,
                    "err" => Outcome::Err,
                    "panic" => Outcome::Panic,
                    "cut" => Outcome::Cut,
                    "yield" => Outcome::Yield,
                    _ => return None,
                }
            }
            _ => return None,
        }
    }
    Some(c)
}

async fn run_case(log: &mut Log, st: &mut Stats, case_no: u64, cfg: Cfg, ops: &[String]) {
    log.rec(case_line(&cfg), "ok");
    st.bump(&format!("outcome_{:?}", cfg.outcome));
    st.bump(if cfg.instant { "flavour_instant" } else { "flavour_plain" });
    if cfg.linked {
        st.bump("linked");
    }
    let mut w = World::new(case_no, cfg).await;
    for op in ops {
        let r = w.exec(op).await;
        st.bump(op.split_whitespace().next().unwrap_or("?"));
        if r.contains(" at=done res=err") || r.contains(" at=done res=cut") {
            st.bump("obs_failed_spawn_done");
        }
        log.rec(op.clone(), r);
    }
    w.finish().await;
}

fn gen_cfg(rng: &mut Rng) -> Cfg {
    let instant = rng.chance(1, 2);
    let named = rng.chance(1, 2);
    let linked = rng.chance(3, 5);
    let outcome = match rng.below(10) {
        0..=2 => Outcome::Ok,
        3..=4 => Outcome::Err,
        5 => Outcome::Panic,
        6..=7 => Outcome::Cut,
        _ => Outcome::Yield,
    };
    let mut joins = vec![];
    for g in 1..=3 {
        if rng.chance(1, 3) {
            joins.push(g);
        }
    }
    let mons = if rng.chance(1, 3) { vec![rng.range(1, 4)] } else { vec![] };
    Cfg { named, taken: named && rng.chance(1, 8), linked, instant, cut0: instant && rng.chance(1, 6), joins, mons, selfsends: rng.below(3), selflink: rng.chance(1, 3), outcome }
}

/// `kill_ok`: a kill is only generated while it decides the START (before pre_start has returned) and
/// for outcomes where the order of the kill and pre_start's return is fixed by the code (a kill that
/// races a pre_start returning Ok in the same poll, or the harness's own abort of a suspended
/// pre_start, ends the actor in ways this engine does not follow)
fn ext_op(rng: &mut Rng, linked: bool, kill_ok: bool, sup_max: u64) -> String {
    if kill_ok && rng.chance(1, 4) {
        return "kill".into();
    }
    match rng.below(100) {
        0..=21 => "cast".into(),
        22..=41 => "call".into(),
        42..=61 => "wait".into(),
        62..=73 => format!("joinext {}", rng.range(1, 5)),
        74..=79 => "stop".into(),
        80..=87 => "drain".into(),
        88..=93 => if kill_ok { "kill" } else { "cast" }.into(),
        _ => {
            if linked {
                format!("supset {}", rng.range(4, sup_max))
            } else {
                "wait".into()
            }
        }
    }
}

fn gen_ops(rng: &mut Rng, cfg: &Cfg) -> Vec<String> {
    let mut ops = vec!["begin".to_string()];
    // a refusing supervisor in half of the linked cases whose pre_start succeeds
    let refuse = (cfg.linked || cfg.selflink) && rng.chance(1, 2);
    let refuse_at = rng.range(0, 3);
    let steps = 26;
    // a supervisor that reaches Stopped kills the children linked to it: with a pre_start that links
    // itself that kill races pre_start's return (see `kill_ok`), so such cases stop at Stopping
    let sup_max = if cfg.selflink { 5 } else { 6 };
    for i in 0..steps {
        if refuse && i == refuse_at {
            ops.push(format!("supset {}", rng.range(4, sup_max)));
        }
        let n = match rng.below(10) {
            0..=4 => 0,
            5..=7 => 1,
            _ => 2,
        };
        let kill_ok = matches!(cfg.outcome, Outcome::Err | Outcome::Panic | Outcome::Yield) && i <= (cfg.instant as u64);
        for _ in 0..n {
            ops.push(ext_op(rng, cfg.linked || cfg.selflink, kill_ok, sup_max));
        }
        ops.push("step".into());
    }
    for _ in 0..rng.range(0, 3) {
        ops.push(ext_op(rng, cfg.linked || cfg.selflink, false, sup_max));
    }
    if cfg.named {
        ops.push("reuse".into());
    }
    ops
}

async fn replay_ops(log: &mut Log, st: &mut Stats, path: &str, case_no: &mut u64) {
    let text = std::fs::read_to_string(path).unwrap_or_default();
    let mut cur: Option<(Cfg, Vec<String>)> = None;
    for line in text.lines() {
        let line = line.trim();
        if line.is_empty() {
            continue;
        }
        if line.starts_with("case") {
            if let Some((c, ops)) = cur.take() {
                *case_no += 1;
                run_case(log, st, *case_no, c, &ops).await;
            }
            cur = parse_case(line).map(|c| (c, vec![]));
        } else if let Some((_, ops)) = cur.as_mut() {
            ops.push(line.to_string());
        }
    }
    if let Some((c, ops)) = cur.take() {
        *case_no += 1;
        run_case(log, st, *case_no, c, &ops).await;
    }
}

#[tokio::main(flavor = "current_thread")]
async fn main() {
    // pre_start panics on purpose in some cases: keep stderr quiet
    std::panic::set_hook(Box::new(|_| {}));
    let args = Args::parse();
    let seed = args.u64("seed", 1);
    let cases = args.u64("cases", 100);
    let out = args.str("out", "/tmp/spawnclean");
    let mut rng = Rng::new(seed);
    let mut log = Log::create(std::path::Path::new(&out)).unwrap();
    let mut st = Stats::default();
    // case numbers make names and groups unique within the process; the seed keeps runs apart
    let mut case_no = seed * 1_000_000;
    for f in args.str("replay-ops", "").split(',').filter(|f| !f.is_empty()) {
        replay_ops(&mut log, &mut st, f, &mut case_no).await;
    }
    if args.u64("only-replay", 0) != 1 {
        for _ in 0..cases {
            case_no += 1;
            let cfg = gen_cfg(&mut rng);
            let ops = gen_ops(&mut rng, &cfg);
            run_case(&mut log, &mut st, case_no, cfg, &ops).await;
        }
    }
    st.add("lines", log.lines);
    st.write_json(&std::path::Path::new(&out).join("stats.json"));
    log.finish();
}
