import Driver.Common
import Driver.C18
import Driver.LeakyBucket
import Driver.Factory

def main (args : List String) : IO UInt32 := do
  match args with
  | [model, opsPath, implPath] =>
    let ops ← Driver.readLines opsPath
    let impl ← Driver.readLines implPath
    let t ← match model with
      | "c18" => Driver.C18.run ops impl
      | "leakybucket" => Driver.LeakyBucket.run ops impl
      | "factory" => Driver.Factory.run "" ops impl
      | "factory-c13" => Driver.Factory.run "c13-" ops impl
      | "factory-c14" => Driver.Factory.run "c14-" ops impl
      | "factory-c15" => Driver.Factory.run "c15-" ops impl
      | _ => do IO.eprintln s!"unknown model {model}"; return 2
    return (if t.diffs == 0 && t.oracleFails == 0 then 0 else 1)
  | _ =>
    IO.eprintln "usage: driver <model> <ops-file> <impl-file>"
    return 2
